import subprocess,sys,os,re
# helper: make a patch from a python substitution: mkpatch.py <file> <old> <new> <out>
f,old,new,out=sys.argv[1:5]
src=open('/repo/'+f).read()
assert src.count(old)>=1,(f,old)
new_src=src.replace(old,new,1)
import tempfile,difflib
d=difflib.unified_diff(src.splitlines(True),new_src.splitlines(True),'a/'+f,'b/'+f)
open(out,'w').write(''.join(d))
