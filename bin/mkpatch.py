#!/usr/bin/env python3
"""mkpatch.py <file> <old> <new> [<old2> <new2> ...] <out>: make a unified diff against /repo's file."""
import sys, difflib
f = sys.argv[1]; out = sys.argv[-1]; pairs = sys.argv[2:-1]
src = open('/repo/' + f).read(); new = src
for i in range(0, len(pairs), 2):
    assert new.count(pairs[i]) >= 1, (f, pairs[i])
    new = new.replace(pairs[i], pairs[i + 1], 1)
open(out, 'w').write(''.join(difflib.unified_diff(src.splitlines(True), new.splitlines(True), 'a/' + f, 'b/' + f)))
