//! Type-level witnesses (G13): each guarantee that rests on Rust privacy is
//! witnessed by a `compile_fail` doctest with the expected error code, paired
//! with a compiling twin that differs only by the offending line (so that a
//! witness whose path is merely wrong does not pass vacuously).
//! Run with `cargo +nightly test --doc` (error codes are ignored on stable).

/// C13.V1 — a `Config` cannot be constructed outside the builder (private fields).
/// ```compile_fail,E0451
/// let root = log4rs::config::Root::builder().build(log::LevelFilter::Info);
/// let cfg = log4rs::config::Config { appenders: vec![], root, loggers: vec![] };
/// ```
/// Twin: the builder is the way in.
/// ```
/// let root = log4rs::config::Root::builder().build(log::LevelFilter::Info);
/// let cfg = log4rs::config::Config::builder().build(root).unwrap();
/// let _ = cfg;
/// ```
pub struct C13SoleConstructor;

/// C13.V1 — `root_mut()` gives no access to the appender name list.
/// ```compile_fail,E0616
/// let root = log4rs::config::Root::builder().build(log::LevelFilter::Info);
/// let mut cfg = log4rs::config::Config::builder().build(root).unwrap();
/// cfg.root_mut().appenders.push("ghost".to_owned());
/// ```
/// Twin: the level may be changed.
/// ```
/// let root = log4rs::config::Root::builder().build(log::LevelFilter::Info);
/// let mut cfg = log4rs::config::Config::builder().build(root).unwrap();
/// cfg.root_mut().set_level(log::LevelFilter::Debug);
/// ```
pub struct C13NoMutablePathToNames;

/// C13.V1 — a validated `Logger`'s name cannot be rewritten.
/// ```compile_fail,E0616
/// let mut l = log4rs::config::Logger::builder().build("a::b", log::LevelFilter::Info);
/// l.name = "a:::b".to_owned();
/// ```
/// Twin:
/// ```
/// let l = log4rs::config::Logger::builder().build("a::b", log::LevelFilter::Info);
/// assert_eq!(l.name(), "a::b");
/// ```
pub struct C13LoggerNamePrivate;

/// C15 — the shared snapshot behind a `Handle` cannot be reached or replaced
/// except through `set_config`.
/// ```compile_fail,E0616
/// fn f(h: &log4rs::Handle) { let _ = &h.shared; }
/// ```
/// Twin:
/// ```
/// fn f(h: &log4rs::Handle, c: log4rs::Config) { h.set_config(c); }
/// ```
pub struct C15HandlePrivate;

/// C15 — a `Handle` cannot be forged around a foreign snapshot.
/// ```compile_fail,E0451
/// fn f(h: log4rs::Handle) -> log4rs::Handle { log4rs::Handle { shared: unimplemented!() } }
/// ```
/// Twin:
/// ```
/// fn f(h: log4rs::Handle) -> log4rs::Handle { h.clone() }
/// ```
pub struct C15HandleNotForgeable;
