"""Reusable queries built on core: exits, ordering, guard spans, boolean tables,
forwarding wrappers."""
import itertools

from .core import (AnchorMissing, ShapeUnrecognised, CallSite, SwitchInfo, strip, deep_strip, walk, show, calls_in,
                   cmp_nf, _match, TRANSPARENT_CALLS)

RESULT = "core::result::Result"
OPTION = "core::option::Option"
FROM_RESIDUAL = "core::ops::try_trait::FromResidual::from_residual"
TRY_BRANCH = "core::ops::try_trait::Try::branch"


def is_from_residual(e):
    return e[0] == "call" and (e[1].endswith("::from_residual"))


def ret_assignments(fn):
    """[(block, expr)] for every whole assignment to the return place."""
    out = []

    def expand(local, b, depth):
        """definitions of a plain local moved into the return place (look through `let r = ..; r` and inlined helpers, also
        when one of several definitions is itself the forwarded result of a helper spliced in: `a()?; b()` inside a helper that
        is the tail of another)"""
        res = []
        for (dp, db, i, kind, payload) in fn.defs(local):
            if dp:
                continue
            if kind == "rv" and payload["k"] == "use" and depth < 4:
                pl = payload["a"].get("copy") or payload["a"].get("move")
                if pl is not None and not pl["p"] and not (1 <= pl["l"] <= fn.nargs) and pl["l"] != local:
                    sub = expand(pl["l"], db, depth + 1)
                    if len(sub) > 1:
                        res.extend(sub)
                        continue
            if kind == "rv":
                res.append((db, fn._rvalue(payload, frozenset([local]), 40, db)))
            elif kind == "call":
                res.append((db, fn._call_expr(payload, db, frozenset([local]), 40)))
        if len(res) <= 1:
            return [(db, e) for db, e in fn.root_defs(local)]
        return res
    for (dp, b, i, kind, payload) in fn.defs(0):
        if dp:
            continue
        if kind == "rv":
            if payload["k"] == "use":
                pl = payload["a"].get("copy") or payload["a"].get("move")
                if pl is not None and not pl["p"] and not (1 <= pl["l"] <= fn.nargs):
                    sub = expand(pl["l"], b, 0)
                    if len(sub) > 1:
                        out.extend(sub)
                        continue
            e = fn._rvalue(payload, frozenset([0]), 40, b)
        elif kind == "call":
            e = fn._call_expr(payload, b, frozenset([0]), 40)
        else:
            continue
        out.append((b, e))
    return out


def classify_ret(e):
    """'ok' | 'err' | 'residual' | 'value' for an expression assigned to _0."""
    if e[0] == "agg" and e[1] == RESULT:
        return "ok" if e[2] == "Ok" else "err"
    if is_from_residual(e):
        return "residual"
    return "value"


def ok_exit_blocks(fn):
    """Blocks that assign the return place something other than an error
    (Ok aggregate, unit, or a forwarded value)."""
    rb = fn.reachable_blocks()
    ra = [(b, e) for b, e in ret_assignments(fn) if b in rb]
    if not ra:
        # unit-returning function: the return blocks themselves
        return fn.return_blocks()
    return [b for b, e in ra if classify_ret(e) in ("ok", "value")]


def err_exit_blocks(fn):
    rb = fn.reachable_blocks()
    return [b for b, e in ret_assignments(fn) if b in rb and classify_ret(e) in ("err", "residual")]


def must_follow_on_ok(fn, a_block, b_blocks):
    """Every path from block a to an ok exit passes one of b_blocks.
    Returns (holds, witness_exit)."""
    r = fn.reach(a_block, avoid=set(b_blocks))
    for x in ok_exit_blocks(fn):
        if x in r or x == a_block:
            return False, x
    return True, None


def must_precede(fn, a_block, b_block):
    """Every path from entry to b passes a."""
    return a_block != b_block and fn.dominates(a_block, b_block)


def path_between(fn, a, b, avoid=()):
    """A witness path of blocks from a to b (normal flow), or None."""
    avoid = set(avoid)
    prev = {a: None}
    from collections import deque
    q = deque([a])
    while q:
        x = q.popleft()
        for s in fn.succ[x]:
            if s in avoid or s in prev:
                continue
            prev[s] = x
            if s == b:
                p = [s]
                while prev[p[-1]] is not None:
                    p.append(prev[p[-1]])
                return list(reversed(p))
            q.append(s)
    return None


# ---- guard spans ---------------------------------------------------------

LOCK_CALLS = (
    "lock_api::mutex::Mutex::<R, T>::lock",
    "std::sync::poison::rwlock::RwLock::<T>::write",
    "std::sync::poison::rwlock::RwLock::<T>::read",
    "std::sync::poison::mutex::Mutex::<T>::lock",
    "lock_api::rwlock::RwLock::<R, T>::write",
    "lock_api::rwlock::RwLock::<R, T>::read",
)


class GuardSpan:
    def __init__(self, fn, lock_site):
        self.fn = fn
        self.site = lock_site
        d = lock_site.dest
        if d["p"]:
            raise ShapeUnrecognised("lock result stored into a projection")
        self.guard = d["l"]
        # release points: Drop(guard), or a call that moves the guard local itself
        self.releases = []
        holders = {self.guard}
        # locals that receive the guard by move/unwrap (e.g. RwLock::write().unwrap())
        changed = True
        while changed:
            changed = False
            for b in fn.blocks:
                for s in b["stmts"]:
                    if s["k"] == "assign" and not s["lhs"]["p"] and s["rv"]["k"] == "use":
                        pl = s["rv"]["a"].get("move")
                        if pl and pl["l"] in holders and not pl["p"] and s["lhs"]["l"] not in holders:
                            holders.add(s["lhs"]["l"])
                            changed = True
                t = b["term"]
                if t["k"] == "call" and t.get("decl") in ("core::result::Result::<T, E>::unwrap", "core::result::Result::<T, E>::expect"):
                    a0 = t["args"][0].get("move") if t["args"] else None
                    if a0 and a0["l"] in holders and not a0["p"] and not t["dest"]["p"] and t["dest"]["l"] not in holders:
                        holders.add(t["dest"]["l"])
                        changed = True
        self.holders = holders
        rb = fn.reachable_blocks()
        for b in fn.blocks:
            if b["id"] not in rb:
                continue
            t = b["term"]
            if t["k"] == "drop" and t["place"]["l"] in holders and not t["place"]["p"]:
                self.releases.append(b["id"])
            elif t["k"] == "call":
                if t.get("decl") in ("core::result::Result::<T, E>::unwrap", "core::result::Result::<T, E>::expect"):
                    continue
                for a in t.get("args", []):
                    pl = a.get("move")
                    if pl and pl["l"] in holders and not pl["p"]:
                        self.releases.append(b["id"])
        after_release = set()
        for r in self.releases:
            after_release |= fn.reach(r)
        self.after_release = after_release

    def covers(self, block):
        """block is executed only while the guard is held (on every path)."""
        fn = self.fn
        if block == self.site.block:
            return False
        if not fn.dominates(self.site.block, block):
            return False
        return block not in self.after_release

    def uses_guard(self, e):
        """expression reaches data through this lock call's result"""
        for x in walk(e):
            if x[0] == "call" and len(x) > 3 and x[3] == self.site.block and x[1] == self.site.callee:
                return True
        return False


def lock_sites(fn, pats=LOCK_CALLS):
    return fn.calls(lambda p: p in pats)


# ---- boolean evaluation (tiny truth tables) --------------------------------

def bool_atoms(e):
    """Atoms of a boolean expression built from const / Not / BitAnd / BitOr / Eq / Ne."""
    e = strip(e, calls=set())
    if e[0] == "const" and e[1] == "bool":
        return []
    if e[0] == "un" and e[1] == "Not":
        return bool_atoms(e[2])
    if e[0] == "bin" and e[1] in ("BitAnd", "BitOr", "BitXor", "Eq", "Ne"):
        out = []
        for x in bool_atoms(e[2]) + bool_atoms(e[3]):
            if x not in out:
                out.append(x)
        return out
    if e[0] == "phi":
        out = []
        for v in e[1]:
            for x in bool_atoms(v):
                if x not in out:
                    out.append(x)
        return out
    return [e]


def eval_bool(e, env):
    """Evaluate under env: atom-expr -> bool. Returns a set of possible values
    (phi = union)."""
    e = strip(e, calls=set())
    if e[0] == "const" and e[1] == "bool":
        return {bool(e[2])}
    if e[0] == "un" and e[1] == "Not":
        return {not v for v in eval_bool(e[2], env)}
    if e[0] == "bin" and e[1] in ("BitAnd", "BitOr", "BitXor", "Eq", "Ne"):
        out = set()
        for a in eval_bool(e[2], env):
            for b in eval_bool(e[3], env):
                if e[1] == "BitAnd":
                    out.add(a and b)
                elif e[1] == "BitOr":
                    out.add(a or b)
                elif e[1] in ("BitXor", "Ne"):
                    out.add(a != b)
                else:
                    out.add(a == b)
        return out
    if e[0] == "phi":
        out = set()
        for v in e[1]:
            out |= eval_bool(v, env)
        return out
    if e in env:
        return {env[e]}
    return {True, False}


def _b_and(a, b):
    F, T = ("const", "bool", False), ("const", "bool", True)
    if a == F or b == F:
        return F
    if a == T:
        return b
    if b == T:
        return a
    return ("bin", "BitAnd", a, b)


def _b_or(a, b):
    F, T = ("const", "bool", False), ("const", "bool", True)
    if a == T or b == T:
        return T
    if a == F:
        return b
    if b == F:
        return a
    if a == b:
        return a
    return ("bin", "BitOr", a, b)


def _b_not(a):
    if a[0] == "const" and a[1] == "bool":
        return ("const", "bool", not a[2])
    if a[0] == "un" and a[1] == "Not":
        return a[2]
    return ("un", "Not", a)


def bool_value(fn, op, depth=5):
    """Boolean expression of an operand with short-circuit joins made explicit: a local assigned on several edges
    (`a && b`, `a || b`, `if c { x } else { y }`) becomes OR over its definitions of (distinguishing branch conditions
    AND the value assigned there), instead of an unordered join.  Atoms are deep-stripped recovered expressions."""
    c = op.get("const") if isinstance(op, dict) else None
    if c is not None:
        return ("const", "bool", bool(c.get("value"))) if c.get("kind") == "bool" else deep_strip(fn.expr(op))
    pl = op.get("copy") or op.get("move")
    if pl is None or pl["p"] or depth <= 0 or 1 <= pl["l"] <= fn.nargs:
        return deep_strip(fn.expr(op))
    l = pl["l"]
    ds = [d for d in fn.defs(l)]
    if not ds or any(d[0] for d in ds) or any(d[3] != "rv" for d in ds):
        return deep_strip(fn.expr(op))
    esc = getattr(fn, "_mut_borrowed", None)
    if esc is None:
        esc = set()
        for b_ in fn.blocks:
            for st_ in b_["stmts"]:
                if st_["k"] == "assign" and st_["rv"]["k"] in ("ref", "rawptr") and (st_["rv"].get("mut") or st_["rv"]["k"] == "rawptr"):
                    esc.add(st_["rv"]["place"]["l"])
        fn._mut_borrowed = esc
    if l in esc:
        return deep_strip(fn.expr(op))     # may be written through the borrow: its assignments here are not all of its values

    def of_rv(rv):
        if rv["k"] == "use":
            return bool_value(fn, rv["a"], depth - 1)
        if rv["k"] == "un" and rv.get("op") == "Not":
            return _b_not(bool_value(fn, rv["a"], depth - 1))
        if rv["k"] == "bin" and rv.get("op") in ("BitAnd", "BitOr") and rv.get("ty") == "bool":
            a, b = bool_value(fn, rv["a"], depth - 1), bool_value(fn, rv["b"], depth - 1)
            return _b_and(a, b) if rv["op"] == "BitAnd" else _b_or(a, b)
        return None
    if len(ds) == 1:
        v = of_rv(ds[0][4])
        return v if v is not None else deep_strip(fn.expr(op))
    terms = []
    condsets = []
    for d in ds:
        cs = []
        for sb, si, al in fn.conditions(d[1]):
            labs = {si.label(v) for v, _ in al}
            if si.is_bool and labs in ({True}, {False}):
                cs.append((sb, True in labs))
            elif not si.is_bool:
                # a match on a character / integer / enum: the scrutinee is in the set of values of the allowed edges
                vals = tuple(sorted(str(si.label(v)) for v, _ in al))
                cs.append((sb, ("inset", vals)))
        condsets.append(cs)
    common = set(condsets[0])
    for cs in condsets[1:]:
        common &= set(cs)
    out = ("const", "bool", False)
    for d, cs in zip(ds, condsets):
        v = of_rv(d[4])
        if v is None:
            return deep_strip(fn.expr(op))
        term = v
        for sb, truth in cs:
            if (sb, truth) in common:
                continue
            if isinstance(truth, tuple):
                g = ("inset", deep_strip(fn.expr(fn.term(sb)["discr"])), truth[1])
                term = _b_and(g, term)
                continue
            g = bool_value(fn, fn.term(sb)["discr"], depth - 1)
            term = _b_and(g if truth else _b_not(g), term)
        out = _b_or(out, term)
    return out


def eval_bool_joint(exprs, env, limit=256):
    """Possible value tuples of several boolean expressions that may share joins: the same join (phi) node takes
    the same alternative in all of them (a value computed once and used twice), instead of varying independently."""
    phis = []

    def collect(e):
        e = strip(e, calls=set())
        if not isinstance(e, tuple):
            return
        if e[0] == "phi":
            if e not in phis:
                phis.append(e)
            for v in e[1]:
                collect(v)
        elif e[0] == "un":
            collect(e[2])
        elif e[0] == "bin":
            collect(e[2])
            collect(e[3])

    def subst(e, ch):
        e = strip(e, calls=set())
        if not isinstance(e, tuple):
            return e
        if e[0] == "phi":
            return subst(e[1][ch[e]], ch)
        if e[0] == "un":
            return ("un", e[1], subst(e[2], ch))
        if e[0] == "bin":
            return ("bin", e[1], subst(e[2], ch), subst(e[3], ch))
        return e
    for e in exprs:
        collect(e)
    out = set()
    n = 1
    for ph in phis:
        n *= len(ph[1])
    if n > limit:
        return {tuple(None for _ in exprs)}
    for choice in itertools.product(*[range(len(ph[1])) for ph in phis]):
        ch = dict(zip(phis, choice))
        vals = [eval_bool(subst(e, ch), env) for e in exprs]
        for tup in itertools.product(*vals):
            out.add(tup)
    return out


def truth_table(e, atoms=None):
    atoms = atoms if atoms is not None else bool_atoms(e)
    rows = []
    for vals in itertools.product([False, True], repeat=len(atoms)):
        env = dict(zip(atoms, vals))
        rows.append((vals, eval_bool(e, env)))
    return atoms, rows


# ---- forwarding wrappers (W1) ---------------------------------------------

def check_forwarder(fn, method_decl, inner_pred=None):
    """fn's body must call `method_decl` (declared trait method path, e.g.
    std::io::Write::flush) exactly once on every path (one call per enum arm is
    fine), on a receiver reached through self, pass its own remaining parameters
    through in order, and return that call's result.  Returns (ok, detail)."""
    cs = [c for c in fn.calls() if c.decl == method_decl]
    if not cs:
        return False, "no forwarding call to %s" % method_decl
    blocks = {c.block for c in cs}
    for c in cs:
        if fn.in_loop(c.block):
            return False, "forwarding call is inside a loop"
        if fn.reach(c.block) & blocks:
            return False, "two forwarding calls on one path"
    # every return is reached only through a forwarding call
    r0 = fn.reach(0, avoid=blocks, include_src=True)
    for rb in fn.return_blocks():
        if rb in r0:
            return False, "a path reaches return without the forwarding call"
    recvs = []
    for c in cs:
        args = c.arg_exprs()
        recv = deep_strip_(args[0])
        if not any(x == ("param", 1) for x in walk(recv)):
            return False, "receiver %s is not reached through self" % show(recv)
        if inner_pred is not None and not inner_pred(recv):
            return False, "receiver %s is not the wrapped writer" % show(recv)
        for i, a in enumerate(args[1:], start=2):
            if strip(a) != ("param", i):
                return False, "argument %d is %s, not the wrapper's own parameter" % (i, show(a))
        if len(args) != fn.nargs:
            return False, "forwarding call takes %d args, wrapper has %d params" % (len(args), fn.nargs)
        recvs.append(show(recv, 3))
    ret = fn.local_expr(0)
    alts = ret[1] if ret[0] == "phi" else (ret,)
    if not all(a[0] == "call" and len(a) > 3 and a[3] in blocks for a in alts) or len(alts) != len(cs):
        return False, "return value %s is not the forwarded call's result" % show(ret, 3)
    others = [x for x in fn.calls() if x.block not in blocks and x.callee not in TRANSPARENT_CALLS
              and not (x.callee or "").endswith("deref_mut") and not (x.callee or "").endswith("::deref")]
    if others:
        return False, "extra call(s) in forwarder: %s" % ", ".join(o.callee for o in others)
    return True, "forwards to %s on %s" % (method_decl, " | ".join(recvs))


def deep_strip_(e):
    from .core import deep_strip
    return deep_strip(e)


def _trait_of(p):
    return (p or "").rpartition("::")[0]


# ---- decision tables over loop-free CFGs -----------------------------------

def decision_walk(fn, choose, watch_locals=(), start=0, limit=4096, track=None):
    """Enumerate the decision outcomes of a loop-free region: starting at `start`,
    follow the CFG; at each switch ask choose(SwitchInfo) for the labels to follow
    (None = all edges).  Returns a list of outcomes, one per maximal walk:
    {'end': block, 'last': {local: (block, rvalue-expr)}, 'trace': [(switch_block, label)], 'calls': [blocks]}.
    This is a finite case split over branch labels (a truth table), not an execution:
    no values are computed beyond what `choose` decides."""
    """track = {'call_value': f(term) -> bool|None, 'place_value': f(place) -> bool|None}: additionally propagate
    boolean constants along each walk (const / copy / Not assignments, the two hooks for calls and loads) and
    follow only the matching edge of a switch on a known boolean; outcomes then carry 'env' (local -> bool)."""
    out = []
    stack = [(start, {}, [], [], frozenset(), {}, {})]
    n = 0
    escaped = set()
    if track is not None:
        for b_ in fn.blocks:
            for st_ in b_["stmts"]:
                if st_["k"] == "assign" and st_["rv"]["k"] in ("ref", "rawptr") and (st_["rv"].get("mut") or st_["rv"]["k"] == "rawptr"):
                    escaped.add(st_["rv"]["place"]["l"])

    def opval(env, op):
        c = op.get("const")
        if c is not None:
            return bool(c.get("value")) if c.get("kind") == "bool" else None
        pl = op.get("copy") or op.get("move")
        if pl is None:
            return None
        if not pl["p"]:
            v_ = env.get(pl["l"])
            return None if isinstance(v_, tuple) else v_
        if len(pl["p"]) == 1 and isinstance(pl["p"][0], dict) and str(pl["p"][0].get("f", "")).isdigit():
            tv_ = env.get(pl["l"])
            if isinstance(tv_, tuple) and tv_ and tv_[0] == "tuple" and int(pl["p"][0]["f"]) < len(tv_[1]):
                return tv_[1][int(pl["p"][0]["f"])]     # a component of a pair of known booleans: `match (no_color, force) { (true, _) => .. }`
        return track["place_value"](pl) if track and track.get("place_value") else None
    while stack:
        b, last, trace, calls, seen, env, pv = stack.pop()
        n += 1
        if n > limit:
            raise ShapeUnrecognised("decision table too large")
        if b in seen:
            raise ShapeUnrecognised("decision_walk: loop reached at bb%d" % b)
        seen = seen | {b}
        last = dict(last)
        env = dict(env)
        pv = dict(pv)
        for s in fn.stmts(b):
            if s["k"] == "assign" and not s["lhs"]["p"]:
                # the value as assigned on *this* walk: a plain copy of a local assigned earlier on the walk takes that value,
                # not the join of all the local's definitions
                rv_ = s["rv"]
                src_ = (rv_["a"].get("copy") or rv_["a"].get("move")) if rv_["k"] == "use" else None
                if src_ is not None and not src_["p"] and src_["l"] in pv:
                    pv[s["lhs"]["l"]] = pv[src_["l"]]
                elif watch_locals:
                    pv[s["lhs"]["l"]] = fn._rvalue(rv_, frozenset(), 30, b)
            if s["k"] == "assign" and not s["lhs"]["p"] and s["lhs"]["l"] in watch_locals:
                last[s["lhs"]["l"]] = (b, pv.get(s["lhs"]["l"]) if s["lhs"]["l"] in pv else fn._rvalue(s["rv"], frozenset(), 30, b))
            if track is not None and s["k"] == "assign" and not s["lhs"]["p"]:
                rv = s["rv"]
                v = None
                if rv["k"] == "use":
                    v = opval(env, rv["a"])
                elif rv["k"] == "un" and rv.get("op") == "Not":
                    x = opval(env, rv["a"])
                    v = None if x is None else (not x)
                elif rv["k"] == "agg" and rv.get("agg") == "tuple":
                    parts_ = tuple(opval(env, f_) for f_ in rv.get("fields", []))
                    v = ("tuple", parts_) if any(x is not None for x in parts_) else None
                elif rv["k"] == "bin" and track.get("bin_value"):
                    v = track["bin_value"](rv)      # a comparison the caller can decide for this case
                if v is None or s["lhs"]["l"] in escaped:
                    env.pop(s["lhs"]["l"], None)
                else:
                    env[s["lhs"]["l"]] = v
        t = fn.term(b)
        if t["k"] == "call":
            calls = calls + [b]
            if not t["dest"]["p"] and t["dest"]["l"] in watch_locals:
                last[t["dest"]["l"]] = (b, fn._call_expr(t, b, frozenset(), 30))
            if track is not None and not t["dest"]["p"]:
                v = track["call_value"](t) if track.get("call_value") else None
                if v is None:
                    env.pop(t["dest"]["l"], None)
                else:
                    env[t["dest"]["l"]] = v
        if t["k"] == "switch":
            si = SwitchInfo(fn, b)
            want = None
            dv = opval(env, t["discr"]) if track is not None else None
            if dv is not None and si.is_bool:
                want = [dv]
            else:
                want = choose(si)
            took = False
            for lab, tgt in si.labelled_edges():
                if isinstance(lab, tuple) and lab and lab[0] == "otherwise" and not lab[1]:
                    continue  # unreachable otherwise-arm of an exhaustive enum match
                if want is None or lab in want:
                    took = True
                    stack.append((tgt, last, trace + [(b, lab)], calls, seen, env, pv))
            if not took:
                out.append({"end": b, "last": last, "trace": trace, "calls": calls, "stuck": True, "env": env})
            continue
        succ = fn.succ[b]
        if not succ:
            out.append({"end": b, "last": last, "trace": trace, "calls": calls, "env": env})
            continue
        for sx in succ:
            stack.append((sx, last, trace, calls, seen, env, pv))
    return out


def skipping_paths(fn, start, must_blocks, stop_blocks, cut_edges=()):
    """Blocks of `stop_blocks` reachable from `start` (inclusive) without passing any of
    `must_blocks`, never following an edge in cut_edges.  Empty result = every path from
    start to a stop block passes a must block."""
    must = set(must_blocks)
    cut = set(cut_edges)
    seen = set()
    from collections import deque
    qd = deque()
    if start not in must:
        seen.add(start)
        qd.append(start)
    hit = set()
    while qd:
        x = qd.popleft()
        if x in stop_blocks and x != start:
            hit.add(x)
            continue
        for sx in fn.succ[x]:
            if (x, sx) in cut or sx in must or sx in seen:
                continue
            seen.add(sx)
            qd.append(sx)
    return hit


def zero_test(si, what):
    """If the bool switch `si` decides `what == 0` (unsigned), return the truth value of its edge on which what == 0:
    `x == 0` -> True, `x != 0` / `x > 0` / `0 < x` -> False, `x <= 0` / `x < 1` -> True, `x >= 1` -> False."""
    if not si.is_bool:
        # `match x { 0 => .., _ => .. }`: a switch on the integer itself with an arm for 0; report the edge by its target
        # through the sentinel label 0 (callers use zero_target / nonzero_target below)
        return None
    nf = cmp_nf(si.discr, True)
    if not nf:
        return None
    op, a, b = nf[0], deep_strip(nf[1]), deep_strip(nf[2])
    Z, ONE = ("const", "int", 0), ("const", "int", 1)
    if op == "Eq" and {a, b} == {what, Z}:
        return True
    if op == "Ne" and {a, b} == {what, Z}:
        return False
    if op == "Lt" and a == Z and b == what:        # 0 < x
        return False
    if op == "Le" and a == what and b == Z:        # x <= 0
        return True
    if op == "Lt" and a == what and b == ONE:      # x < 1
        return True
    if op == "Le" and a == ONE and b == what:      # 1 <= x
        return False
    return None


def conjuncts(e):
    """flatten a conjunction built by bool_value into its conjuncts; None if the expression contains a disjunction"""
    e = strip(e, calls=set())
    if e[0] == "bin" and e[1] == "BitAnd":
        a, b = conjuncts(e[2]), conjuncts(e[3])
        return None if a is None or b is None else a + b
    if e[0] == "bin" and e[1] == "BitOr":
        return None
    return [e]


def path_condition(fn, block, depth=5):
    """conjunction (list of conjuncts) of the guard-aware conditions under which `block` runs; None if some condition is a
    disjunction.  Boolean switches contribute bool_value(discr) or its negation, other switches an ('inset', scrutinee, values)."""
    out = []
    for sb, si, al in fn.conditions(block):
        labs = {si.label(v) for v, _ in al}
        if si.is_bool and labs in ({True}, {False}):
            g = bool_value(fn, fn.term(sb)["discr"], depth)
            g = g if True in labs else _b_not(g)
            cj = conjuncts(g)
            if cj is None:
                return None
            out.extend(cj)
        elif not si.is_bool:
            out.append(("inset", deep_strip(fn.expr(fn.term(sb)["discr"])), tuple(sorted(str(x) for x in labs))))
    return out


def zero_edges(si, what):
    """(target on which `what` == 0, target on which it is != 0) if switch `si` decides that, for either spelling:
    a boolean comparison recognised by zero_test, or a match on the integer itself with an arm for 0 and a catch-all"""
    if si.is_bool:
        z = zero_test(si, what)
        if z is None:
            return None
        return si.target_of(z), si.target_of(not z)
    if deep_strip(si.discr) == what:
        arms = [(v, t) for v, t in si.edges if v != "otherwise"]
        oth = [t for v, t in si.edges if v == "otherwise"]
        if len(arms) == 1 and arms[0][0] == 0 and len(oth) == 1:
            return arms[0][1], oth[0]
    return None


def guarded_defs(fn, op, depth=8, chains=False):
    """see _guarded_defs; with chains=True the first component is the list of blocks of every assignment on the way from
    the operand back to the value (outermost first) instead of the innermost one"""
    out = _guarded_defs(fn, op, depth)
    if chains:
        return out
    return [((ch[-1] if ch else None), c, e) for ch, c, e in out]


def _guarded_defs(fn, op, depth=8):
    """The definitions of the value in operand `op`, one per assignment of the variable it was copied from, each with the
    block and the path condition (path_condition conjuncts, or None) under which that assignment runs:
    [(block|None, conjuncts|None, expr)].  Plain copies and field reads of a copied tuple/struct are looked through, so
    `let (a, b) = match x { P => (e1, e2), Q => (e3, e4) }; .. use(b)` yields (P, e2) and (Q, e4) separately."""
    from .core import _apply_proj
    c = op.get("const") if isinstance(op, dict) else None
    if c is not None:
        return [([], [], fn.expr(op))]
    pl = op.get("copy") or op.get("move") or op
    l, proj = pl["l"], list(pl["p"])
    for _ in range(depth):
        if 1 <= l <= fn.nargs:
            break
        ds = fn.defs(l)
        if proj and proj[0] == "*" and len(ds) == 1 and not ds[0][0] and ds[0][3] == "rv" and ds[0][4]["k"] == "ref" and not ds[0][4].get("mut"):
            # *r with r = &place assigned once: the place itself
            src = ds[0][4]["place"]
            l, proj = src["l"], list(src["p"]) + proj[1:]
            continue
        if len(ds) == 1 and not ds[0][0] and ds[0][3] == "rv" and ds[0][4]["k"] == "use":
            a = ds[0][4]["a"]
            src = a.get("copy") or a.get("move")
            if src is None:
                break
            l, proj = src["l"], list(src["p"]) + proj
            continue
        break
    ds = fn.defs(l)
    if not ds or any(d[0] for d in ds) or 1 <= l <= fn.nargs:
        return [([], [], deep_strip(fn.expr(op)))]
    out = []
    for (dp, b, i, kind, payload) in ds:
        if kind == "rv" and payload["k"] == "use" and depth > 1 and (payload["a"].get("copy") or payload["a"].get("move")) is not None:
            # assigned from another variable on this edge: that variable's own definitions, under this edge's condition too
            src = payload["a"].get("copy") or payload["a"].get("move")
            if not (1 <= src["l"] <= fn.nargs) and src["l"] != l:
                here = path_condition(fn, b)
                for ch2, c2, e2 in _guarded_defs(fn, {"copy": {"l": src["l"], "p": list(src["p"]) + proj}}, depth - 1):
                    out.append(([b] + ch2, None if (here is None or c2 is None) else here + [x for x in c2 if x not in here], e2))
                continue
        if kind == "rv" and payload["k"] == "agg" and depth > 1 and proj:
            # a field of a value built in place on this edge: the operand stored in that field
            rest, fi = None, None
            if payload.get("agg") == "adt" and len(proj) >= 2 and isinstance(proj[0], dict) and proj[0].get("as") == payload.get("variant") \
                    and isinstance(proj[1], dict) and "f" in proj[1] and str(proj[1]["f"]) in [str(n_) for n_ in payload.get("field_names", [])]:
                fi, rest = [str(n_) for n_ in payload["field_names"]].index(str(proj[1]["f"])), proj[2:]
            elif payload.get("agg") == "adt" and isinstance(proj[0], dict) and "f" in proj[0] and str(proj[0]["f"]) in [str(n_) for n_ in payload.get("field_names", [])] and not any(isinstance(x_, dict) and "as" in x_ for x_ in proj[:1]):
                fi, rest = [str(n_) for n_ in payload["field_names"]].index(str(proj[0]["f"])), proj[1:]
            elif payload.get("agg") == "tuple" and isinstance(proj[0], dict) and "f" in proj[0] and str(proj[0]["f"]).isdigit() and int(proj[0]["f"]) < len(payload["fields"]):
                fi, rest = int(proj[0]["f"]), proj[1:]
            if fi is not None:
                fop = payload["fields"][fi]
                src = fop.get("copy") or fop.get("move")
                here = path_condition(fn, b)
                if src is not None and not (1 <= src["l"] <= fn.nargs):
                    for ch2, c2, e2 in _guarded_defs(fn, {"copy": {"l": src["l"], "p": list(src["p"]) + list(rest)}}, depth - 1):
                        out.append(([b] + ch2, None if (here is None or c2 is None) else here + [x for x in c2 if x not in here], e2))
                    continue
        if kind == "rv":
            e = fn._rvalue(payload, frozenset([l]), 40, b)
        elif kind == "call":
            e = fn._call_expr(payload, b, frozenset([l]), 40)
        else:
            return [([], [], deep_strip(fn.expr(op)))]
        out.append(([b], path_condition(fn, b), _apply_proj(e, proj, fn, frozenset([l]), 40)))
    uniq, seen_ = [], set()
    for b_, c_, e_ in out:
        k_ = (tuple(b_), repr(e_))
        if k_ not in seen_:
            seen_.add(k_)
            uniq.append((b_, c_, e_))
    return uniq


def const_skipping_paths(fn, start, must_blocks, stop_blocks, cut_edges=(), limit=20000):
    """skipping_paths with flags followed: the search runs over (block, known constants) where the constants are whole locals
    last assigned a bool literal, an enum aggregate (its variant is remembered) or a copy of such a local; a switch on a
    known bool, or on the discriminant of a local of known variant, is followed on its matching edge only.  Locals that are
    ever mutably borrowed are not followed.  Paths that are infeasible only because of a flag set on the way (`break true`
    ... `if valid`, `return Some(x)` spliced into `match helper() { Some(..) => .., None => continue }`) do not count."""
    must = set(must_blocks)
    cut = set(cut_edges)
    escaped = set()
    for blk in fn.blocks:
        for st in blk["stmts"]:
            if st["k"] == "assign" and ((st["rv"]["k"] == "ref" and st["rv"].get("mut")) or st["rv"]["k"] == "rawptr"):
                escaped.add(st["rv"]["place"]["l"])

    def opval(env, op):
        if "const" in op:
            c = op["const"]
            if c.get("kind") == "bool":
                return ("bool", bool(c.get("value")))
            if c.get("kind") == "int" and isinstance(c.get("value"), int) and not isinstance(c.get("value"), bool) and c.get("value") >= 0:
                return ("int", c["value"])
            return None
        pl = op.get("copy") or op.get("move")
        if pl and not pl["p"]:
            return env.get(pl["l"])
        if pl and len(pl["p"]) == 1 and isinstance(pl["p"][0], dict) and "f" in pl["p"][0]:
            # a component of a tuple built from known values: `match (found, cur) { (false, _) => .. }`
            tv = env.get(pl["l"])
            if tv and tv[0] == "tuple" and str(pl["p"][0]["f"]).isdigit() and int(pl["p"][0]["f"]) < len(tv[1]):
                return tv[1][int(pl["p"][0]["f"])]
        return None

    def step(env, blk):
        env = dict(env)
        for st in blk["stmts"]:
            if st["k"] == "set_discr":
                env.pop(st.get("place", {}).get("l"), None)
                continue
            if st["k"] != "assign":
                continue
            l = st["lhs"]["l"]
            if st["lhs"]["p"]:
                continue        # a field write does not change the variant
            rv = st["rv"]
            v = None
            if l not in escaped:
                if rv["k"] == "use":
                    v = opval(env, rv["a"])
                elif rv["k"] == "agg" and rv.get("variant") is not None:
                    v = ("variant", rv["variant"])
                elif rv["k"] == "agg" and rv.get("agg") == "tuple":
                    parts = tuple(opval(env, f_) for f_ in rv.get("fields", []))
                    v = ("tuple", parts) if any(x is not None for x in parts) else None
                elif rv["k"] == "discr" and not rv["place"]["p"]:
                    v = env.get(rv["place"]["l"])
                elif rv["k"] == "discr":
                    v = opval(env, {"copy": rv["place"]})       # the discriminant of a tuple component of known variant
                elif rv["k"] == "un" and rv.get("op") == "Not":
                    a = opval(env, rv["a"])
                    v = ("bool", not a[1]) if a and a[0] == "bool" else None
                elif rv["k"] == "bin":
                    # a counter used as a flag (`digits += 1` ... `if digits == 0`): zero, or "at least one" once something was added
                    a, b_ = opval(env, rv["a"]), opval(env, rv["b"])
                    num = lambda x: x is not None and x[0] in ("int", "pos")
                    op_ = rv.get("op")
                    unsigned = str(rv.get("ty") or "").startswith("u")
                    posc = lambda x: x is not None and (x[0] == "pos" or (x[0] == "int" and x[1] > 0))
                    if op_ in ("Add", "AddWithOverflow", "AddUnchecked") and unsigned and ((posc(a) and (b_ is None or num(b_))) or (posc(b_) and (a is None or num(a)))):
                        # an unsigned quantity plus at least one (a count of things read from a string cannot wrap)
                        v = ("tuple", (("pos",), None)) if op_ == "AddWithOverflow" else ("pos",)
                    elif op_ in ("Add", "AddWithOverflow", "AddUnchecked") and num(a) and num(b_) and ((a[0] == "pos" or a[1] > 0) or (b_[0] == "pos" or b_[1] > 0)):
                        v = ("tuple", (("pos",), None)) if op_ == "AddWithOverflow" else ("pos",)
                    elif op_ in ("Eq", "Ne", "Lt", "Le", "Gt", "Ge") and num(a) and num(b_):
                        if a[0] == "int" and b_[0] == "int":
                            v = ("bool", {"Eq": a[1] == b_[1], "Ne": a[1] != b_[1], "Lt": a[1] < b_[1], "Le": a[1] <= b_[1], "Gt": a[1] > b_[1], "Ge": a[1] >= b_[1]}[op_])
                        elif a[0] == "pos" and b_ == ("int", 0):
                            v = ("bool", {"Eq": False, "Ne": True, "Lt": False, "Le": False, "Gt": True, "Ge": True}[op_])
                        elif b_[0] == "pos" and a == ("int", 0):
                            v = ("bool", {"Eq": False, "Ne": True, "Lt": True, "Le": True, "Gt": False, "Ge": False}[op_])
            if v is None:
                env.pop(l, None)
            else:
                env[l] = v
        t = blk["term"]
        if t["k"] == "call" and t.get("dest") and not t["dest"]["p"]:
            v = None
            if (t.get("decl") or "").endswith("Try::branch") and t.get("args"):
                a = opval(env, t["args"][0])
                if a and a[0] == "variant" and a[1] in ("Ok", "Some"):
                    v = ("variant", "Continue")
                elif a and a[0] == "variant" and a[1] in ("Err", "None"):
                    v = ("variant", "Break")
            elif (t.get("decl") or "").endswith("FromResidual::from_residual"):
                # what `?` hands back on its failure edge is the failure: Err(..) of a Result, None of an Option
                dty = str(t.get("dest_ty") or "")
                if dty.startswith("core::result::Result<"):
                    v = ("variant", "Err")
                elif dty.startswith("core::option::Option<"):
                    v = ("variant", "None")
            if v is None or t["dest"]["l"] in escaped:
                env.pop(t["dest"]["l"], None)
            else:
                env[t["dest"]["l"]] = v
        return env

    def succs(b, env):
        """[(successor, env on that edge)]"""
        t = fn.blocks[b]["term"]
        if t["k"] == "switch":
            from l4sa.core import SwitchInfo
            v = opval(env, t["discr"])
            si = SwitchInfo(fn, b)
            if v is not None and v[0] == "pos":
                keep = [(tt, env) for lab, tt in si.labelled_edges() if lab not in (0, "0")]
                if keep:
                    return keep
            elif v is not None and v[0] != "tuple":
                want = v[1]
                if si.is_bool and si.negated and isinstance(want, bool):
                    want = not want
                tg = [tt for lab, tt in si.labelled_edges() if lab == want or (v[0] == "int" and str(lab) == str(want))]
                if len(tg) == 1:
                    return [(tg[0], env)]
                if v[0] == "int":
                    oth = [tt for lab, tt in si.labelled_edges() if lab == "otherwise"]
                    if len(oth) == 1 and not tg:
                        return [(oth[0], env)]
            # an unknown enum value becomes known on the edge taken: `match r { Ok(..) => .., Err(e) => break Err(e) }`
            pl = t["discr"].get("copy") or t["discr"].get("move")
            src = None
            if pl and not pl["p"]:
                for st in fn.blocks[b]["stmts"]:
                    if st["k"] == "assign" and st["lhs"]["l"] == pl["l"] and not st["lhs"]["p"] and st["rv"]["k"] == "discr" and not st["rv"]["place"]["p"]:
                        src = st["rv"]["place"]["l"]
            if src is not None and src not in escaped and not si.is_bool:
                out = []
                # the value tested may be a copy made for the test (`split.map_or(..)` on a Copy option used again later):
                # what is learnt about the copy is learnt about the original, as long as neither is assigned more than once
                roots = [src]
                cur_ = src
                for _ in range(4):
                    ds_ = [d for d in fn.defs(cur_) if not d[0]]
                    if len(ds_) != 1 or ds_[0][3] != "rv" or ds_[0][4]["k"] != "use":
                        break
                    pl_ = ds_[0][4]["a"].get("copy") or ds_[0][4]["a"].get("move")
                    if pl_ is None or pl_["p"] or pl_["l"] in escaped or (1 <= pl_["l"] <= fn.nargs):
                        break
                    if len([d for d in fn.defs(pl_["l"]) if not d[0]]) != 1:
                        break
                    cur_ = pl_["l"]
                    roots.append(cur_)
                for lab, tt in si.labelled_edges():
                    e2 = dict(env)
                    if isinstance(lab, str):
                        for r_ in roots:
                            e2[r_] = ("variant", lab)
                    out.append((tt, e2))
                return out
        return [(x, env) for x in fn.succ[b]]

    from collections import deque
    hit = set()
    seen = set()
    qd = deque()
    if start not in must:
        qd.append((start, ()))
    n = 0
    while qd:
        b, envt = qd.popleft()
        if (b, envt) in seen:
            continue
        seen.add((b, envt))
        n += 1
        if n > limit:
            return skipping_paths(fn, start, must_blocks, stop_blocks, cut_edges)
        if b in stop_blocks and b != start:
            hit.add(b)
            continue
        env = step(dict(envt), fn.blocks[b])
        for sx, en in succs(b, env):
            if (b, sx) in cut or sx in must:
                continue
            qd.append((sx, tuple(sorted(en.items(), key=lambda kv: (kv[0], str(kv[1]))))))
    return hit
