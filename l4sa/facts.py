"""Fact generation: copy /repo's working tree to a scratch dir, run the l4facts
driver under cargo +nightly check with the configuration's flags, cache the
fact file keyed by the tree's content hash.  /repo is never written."""
import fcntl
import hashlib
import json
import os
import shutil
import subprocess
import sys
import tempfile
import time
import uuid

VERIF = os.path.dirname(os.path.dirname(os.path.abspath(__file__)))
REPO = os.environ.get("VERIF_REPO", "/repo")
DRIVER = os.path.join(VERIF, "driver", "target", "release", "l4facts")
CACHE = os.path.join(VERIF, ".cache")
TARGET = os.path.join(CACHE, "target-nightly")
FACTS_DIR = os.path.join(VERIF, "out", "facts")

ALL_FEATURES_NOBG = None  # computed lazily from Cargo.toml

CONFIGS = {
    "default": {"flags": []},
    "release": {"flags": ["--release"]},
    "full": {"flags": ["--all-features"]},
}


class FactError(Exception):
    pass


def _tree_files(repo):
    out = []
    for top in ("src",):
        for dp, dn, fn in os.walk(os.path.join(repo, top)):
            dn.sort()
            for f in sorted(fn):
                out.append(os.path.join(dp, f))
    for f in ("Cargo.toml", "Cargo.lock", "build.rs"):
        p = os.path.join(repo, f)
        if os.path.exists(p):
            out.append(p)
    return out


def tree_hash(repo=REPO):
    h = hashlib.sha256()
    for p in _tree_files(repo):
        h.update(os.path.relpath(p, repo).encode())
        h.update(b"\0")
        with open(p, "rb") as f:
            h.update(f.read())
        h.update(b"\0")
    return h.hexdigest()


def _driver_hash():
    with open(DRIVER, "rb") as f:
        return hashlib.sha256(f.read()).hexdigest()


def nobg_features(repo=REPO):
    """All cargo features except background_rotation (and umbrella features that
    imply it)."""
    import re
    txt = open(os.path.join(repo, "Cargo.toml")).read()
    m = re.search(r"^\[features\]\s*$(.*?)(^\[|\Z)", txt, re.S | re.M)
    feats = {}
    if m:
        body = m.group(1)
        for fm in re.finditer(r"^([A-Za-z0-9_\-]+)\s*=\s*\[(.*?)\]", body, re.S | re.M):
            feats[fm.group(1)] = re.findall(r'"([^"]+)"', fm.group(2))
    bad = {"background_rotation"}
    changed = True
    while changed:
        changed = False
        for k, v in feats.items():
            if k not in bad and any(x in bad for x in v):
                bad.add(k)
                changed = True
    return sorted(k for k in feats if k not in bad)


def config_flags(config, repo=REPO):
    if config in CONFIGS:
        return list(CONFIGS[config]["flags"])
    if config == "nobg-full":
        return ["--no-default-features", "--features", ",".join(nobg_features(repo))]
    if config.startswith("single:"):
        return ["--no-default-features", "--features", config.split(":", 1)[1]]
    raise FactError("unknown config %s" % config)


def sysroot():
    return subprocess.check_output(["rustc", "+nightly", "--print", "sysroot"], text=True).strip()


def ensure_driver():
    if not os.path.exists(DRIVER):
        env = dict(os.environ, CARGO_NET_OFFLINE="true")
        r = subprocess.run(["cargo", "build", "--release", "--offline"],
                           cwd=os.path.join(VERIF, "driver"), env=env,
                           stdout=subprocess.PIPE, stderr=subprocess.STDOUT, text=True)
        if r.returncode != 0 or not os.path.exists(DRIVER):
            raise FactError("driver build failed:\n" + r.stdout[-4000:])


def generate(config="default", repo=REPO, crates="log4rs", extra_src=None):
    """Run the driver on a scratch copy of `repo`; return parsed facts."""
    ensure_driver()
    os.makedirs(CACHE, exist_ok=True)
    os.makedirs(FACTS_DIR, exist_ok=True)
    key = hashlib.sha256((tree_hash(repo) + _driver_hash() + config + crates).encode()).hexdigest()[:32]
    cached = os.path.join(FACTS_DIR, key + ".json")
    if os.path.exists(cached) and not os.environ.get("VERIF_NO_CACHE"):
        with open(cached) as f:
            facts = json.load(f)
        facts["meta"]["cache"] = "hit"
        facts["meta"]["tree_sha256"] = key
        return facts
    scratch = tempfile.mkdtemp(prefix="l4sa-")
    lockf = open(os.path.join(CACHE, "lock"), "w")
    try:
        fcntl.flock(lockf, fcntl.LOCK_EX)
        # double-check after acquiring the lock
        if os.path.exists(cached) and not os.environ.get("VERIF_NO_CACHE"):
            with open(cached) as f:
                facts = json.load(f)
            facts["meta"]["cache"] = "hit"
            facts["meta"]["tree_sha256"] = key
            return facts
        src = os.path.join(scratch, "src")
        out = os.path.join(scratch, "out")
        os.makedirs(out)

        def ign(d, names):
            if os.path.abspath(d) == os.path.abspath(repo):
                return [n for n in names if n in ("target", ".git", "log")]
            return []
        shutil.copytree(repo, src, ignore=ign, symlinks=True)
        nonce = uuid.uuid4().hex
        prof = "release" if config == "release" else "debug"
        fp = os.path.join(TARGET, prof, ".fingerprint")
        if os.path.isdir(fp):
            for n in os.listdir(fp):
                if n.startswith("log4rs-"):
                    shutil.rmtree(os.path.join(fp, n), ignore_errors=True)
        env = dict(os.environ)
        env.update({
            "LD_LIBRARY_PATH": os.path.join(sysroot(), "lib"),
            "RUSTFLAGS": "-Zmir-opt-level=0 -Awarnings",
            "RUSTC_WORKSPACE_WRAPPER": DRIVER,
            "CARGO_TARGET_DIR": TARGET,
            "CARGO_INCREMENTAL": "0",
            "CARGO_NET_OFFLINE": "true",
            "L4FACTS_OUT": out,
            "L4FACTS_NONCE": nonce,
            "L4FACTS_CONFIG": config,
            "L4FACTS_CRATES": crates,
        })
        env.pop("RUSTC_WRAPPER", None)
        cmd = ["cargo", "+nightly", "check", "--offline", "--lib"] + config_flags(config, repo)
        t0 = time.time()
        r = subprocess.run(cmd, cwd=src, env=env, stdout=subprocess.PIPE,
                           stderr=subprocess.STDOUT, text=True)
        if r.returncode != 0:
            raise FactError("cargo check failed for config %s:\n%s" % (config, r.stdout[-6000:]))
        ff = os.path.join(out, crates.split(",")[0] + ".json")
        if not os.path.exists(ff):
            raise FactError("driver did not write a fact file (stale fingerprint?)\n" + r.stdout[-2000:])
        with open(ff) as f:
            facts = json.load(f)
        if facts["meta"].get("nonce") != nonce:
            raise FactError("fact file nonce mismatch")
        facts["meta"]["gen_s"] = round(time.time() - t0, 2)
        tmp = cached + ".tmp%d" % os.getpid()
        shutil.copyfile(ff, tmp)
        os.replace(tmp, cached)
        # bound the cache: keep the 40 most recent fact files
        ents = sorted((os.path.getmtime(os.path.join(FACTS_DIR, n)), n) for n in os.listdir(FACTS_DIR))
        for _, n in ents[:-40]:
            try:
                os.remove(os.path.join(FACTS_DIR, n))
            except OSError:
                pass
        facts["meta"]["cache"] = "miss"
        facts["meta"]["tree_sha256"] = key
        return facts
    finally:
        try:
            fcntl.flock(lockf, fcntl.LOCK_UN)
        except Exception:
            pass
        lockf.close()
        shutil.rmtree(scratch, ignore_errors=True)


if __name__ == "__main__":
    cfg = sys.argv[1] if len(sys.argv) > 1 else "default"
    f = generate(cfg)
    print(json.dumps(f["meta"]))
    print(len(f["fns"]), "bodies")
