"""Loops over a literal table as the straight-line code they denote.

    for (a, b, v) in [("kb", "kib", K), ("mb", "mib", K * K)] { if unit == a || unit == b { return Some(v) } }

is, element by element, the chain of tests a rule for "which key gives which value" reads; a table that is an array
aggregate built in the function (or a constant whose allocation the fact extractor decoded) has a known, small number of
known elements.  The pass clones the loop body once per element, binds the iterator's item to that element, chains the
clones (back edge of clone i -> clone i+1, the last one to the exhausted exit) and leaves every other edge alone.

This is loop unrolling with a trip count read off a literal, nothing is evaluated: the clones contain the same calls and
comparisons as the body, with the element in place of the iterator item."""
import copy as _copy

from . import core
from .core import Fn, _block_places

ITER_CTORS = ("core::slice::<impl [T]>::iter", "core::iter::traits::collect::IntoIterator::into_iter")
NEXT = "core::iter::traits::iterator::Iterator::next"
MAX_ELEMS = 24
MAX_BODY = 60


def _defs(blocks, l):
    out = []
    for b in blocks:
        if b.get("cleanup"):
            continue
        for st in b["stmts"]:
            if st["k"] == "assign" and st["lhs"]["l"] == l and not st["lhs"]["p"]:
                out.append(("rv", b["id"], st["rv"]))
        t = b["term"]
        if t["k"] == "call" and t["dest"]["l"] == l and not t["dest"]["p"]:
            out.append(("call", b["id"], t))
    return out


def _op_local(op):
    pl = op.get("copy") or op.get("move") if isinstance(op, dict) else None
    return pl["l"] if pl and not pl["p"] else None


def _table_of(blocks, l, nargs, depth=10):
    """(owner local, n) if local `l` is (a reference to / an unsized view of / a copy of) an array aggregate local
    with n elements that is assigned once and never borrowed mutably"""
    for _ in range(depth):
        if l is None or 1 <= l <= nargs:
            return None
        ds = _defs(blocks, l)
        if len(ds) != 1 or ds[0][0] != "rv":
            return None
        rv = ds[0][2]
        if rv["k"] == "agg" and rv.get("agg") == "array":
            if not (1 <= len(rv["fields"]) <= MAX_ELEMS):
                return None
            for b in blocks:
                for st in b["stmts"]:
                    if st["k"] == "assign" and st["rv"]["k"] in ("ref", "rawptr") and st["rv"]["place"]["l"] == l and (st["rv"].get("mut") or st["rv"]["k"] == "rawptr"):
                        return None
            return l, len(rv["fields"]), rv["fields"]
        if rv["k"] == "use" and rv["a"].get("const") is not None:
            # a constant table whose allocation was decoded by the fact extractor
            c = rv["a"]["const"]
            t_ = c.get("tree") if isinstance(c.get("tree"), dict) else None
            if t_ is not None and t_.get("tree") == "array" and 1 <= len(t_.get("elems", [])) <= MAX_ELEMS:
                return l, len(t_["elems"]), [{"const": (e_ if "kind" in e_ else {"kind": "tree", "tree": e_, "has_ptrs": True})} for e_ in t_["elems"]]
            return None
        if rv["k"] == "use":
            pl = rv["a"].get("copy") or rv["a"].get("move")
            if pl and len(pl["p"]) == 1 and isinstance(pl["p"][0], dict) and "f" in pl["p"][0] and str(pl["p"][0]["f"]).isdigit():
                # a field of a tuple built once (the argument tuple of a spliced closure call)
                td = _defs(blocks, pl["l"])
                if len(td) == 1 and td[0][0] == "rv" and td[0][2]["k"] == "agg" and td[0][2].get("agg") == "tuple" and int(pl["p"][0]["f"]) < len(td[0][2]["fields"]):
                    l = _op_local(td[0][2]["fields"][int(pl["p"][0]["f"])])
                    continue
                return None
            l = _op_local(rv["a"])
            continue
        if rv["k"] == "cast" and ("Unsize" in (rv.get("kind") or "") or "PointerCoercion" in (rv.get("kind") or "")):
            l = _op_local(rv["a"])
            continue
        if rv["k"] == "ref" and not rv.get("mut") and rv["place"]["p"] in ([], ["*"]):
            l = rv["place"]["l"]      # &table, or a reborrow &*r of a reference to it
            continue
        return None
    return None


import os as _os


def _dbg(msg):
    if _os.environ.get('L4SA_UNROLL_DEBUG'):
        print('unroll:', msg)


def unroll_literal_loops(prog, fn):
    blocks = [_copy.copy(b) for b in fn.blocks]
    locals_ = list(fn.locals)
    done = []
    succ_of = lambda t: [t[k] for k in ("target",) if t.get(k) is not None] + [a["target"] for a in t.get("arms", [])] + ([t["otherwise"]] if t.get("otherwise") is not None else [])
    for hb in list(range(len(blocks))):
        t = blocks[hb]["term"]
        if blocks[hb].get("cleanup") or t["k"] != "call" or t.get("decl") != NEXT or t.get("target") is None or t["dest"]["p"] or not t.get("args"):
            continue
        o = t["dest"]["l"]
        # receiver: &mut it, it = slice::iter(view of the table) / into_iter(&table)
        rl = _op_local(t["args"][0])
        rds = _defs(blocks, rl) if rl is not None else []
        for _ in range(3):      # &mut *r with r = &mut it
            if len(rds) == 1 and rds[0][0] == "rv" and rds[0][2]["k"] == "ref" and rds[0][2]["place"]["p"] == ["*"]:
                rds = _defs(blocks, rds[0][2]["place"]["l"])
                _dbg("bb%d: skip at line %d" % (hb, 104))
                continue
            break
        if len(rds) != 1 or rds[0][0] != "rv" or rds[0][2]["k"] != "ref" or rds[0][2]["place"]["p"]:
            _dbg("bb%d: skip at line %d" % (hb, 107))
            continue
        itl = rds[0][2]["place"]["l"]
        ids = _defs(blocks, itl)
        for _ in range(4):      # `match into_iter(x) { mut iter => .. }` moves the iterator into its binding
            if len(ids) == 1 and ids[0][0] == "rv" and ids[0][2]["k"] == "use" and _op_local(ids[0][2]["a"]) is not None:
                ids = _defs(blocks, _op_local(ids[0][2]["a"]))
                _dbg("bb%d: skip at line %d" % (hb, 113))
                continue
            break
        # `for` loops move the iterator through into_iter once more
        for _ in range(3):
            if len(ids) == 1 and ids[0][0] == "call" and ids[0][2].get("decl") == "core::iter::traits::collect::IntoIterator::into_iter" and ids[0][2].get("args"):
                inner = _op_local(ids[0][2]["args"][0])
                ind = _defs(blocks, inner) if inner is not None else []
                if len(ind) == 1 and ind[0][0] == "call" and ind[0][2].get("decl") in ITER_CTORS:
                    ids = ind
                    _dbg("bb%d: skip at line %d" % (hb, 122))
                    continue
            break
        if len(ids) != 1 or ids[0][0] != "call" or ids[0][2].get("decl") not in ITER_CTORS or not ids[0][2].get("args"):
            _dbg("bb%d: skip at line %d" % (hb, 125))
            continue
        aty = ((ids[0][2].get("arg_tys") or [""])[0] or "")
        by_ref = not aty.startswith("[")          # `for x in ARRAY` hands the elements over by value, `.iter()` / `&ARRAY` by reference
        a0 = ids[0][2]["args"][0]
        if a0.get("const") is not None:
            t_ = a0["const"].get("tree") if isinstance(a0["const"].get("tree"), dict) else None
            tab = None
            if t_ is not None and t_.get("tree") == "array" and 1 <= len(t_.get("elems", [])) <= MAX_ELEMS:
                tab = (None, len(t_["elems"]), [{"const": (e_ if "kind" in e_ else {"kind": "tree", "tree": e_, "has_ptrs": True})} for e_ in t_["elems"]])
        else:
            tab = _table_of(blocks, _op_local(a0), fn.nargs)
        if tab is None:
            _dbg("bb%d: skip at line %d" % (hb, 137))
            continue
        owner, n, elems = tab
        # header shape: next -> [discr(o)] switch None/Some
        sw = t["target"]
        st_ = [x_ for x_ in blocks[sw]["stmts"] if x_["k"] == "assign"]
        tt = blocks[sw]["term"]
        if tt["k"] != "switch" or len(st_) != 1 or st_[0]["k"] != "assign" or st_[0]["rv"]["k"] != "discr" or st_[0]["rv"]["place"] != {"l": o, "p": []}:
            _dbg("bb%d: skip at line %d" % (hb, 144))
            continue
        arms = {a["value"]: a["target"] for a in tt.get("arms", [])}
        none_t, some_t = arms.get(0), arms.get(1, tt.get("otherwise"))
        if none_t is None or some_t is None:
            _dbg("bb%d: skip at line %d" % (hb, 148))
            continue
        # loop body: blocks reachable from the Some target without passing the header; the header must be the only way back
        body, todo = set(), [some_t]
        while todo:
            x = todo.pop()
            if x in body or x == hb or x == sw:
                _dbg("bb%d: skip at line %d" % (hb, 154))
                continue
            body.add(x)
            if len(body) > MAX_BODY:
                break
            for s in succ_of(blocks[x]["term"]):
                if not blocks[s].get("cleanup"):
                    todo.append(s)
        if len(body) > MAX_BODY:
            _dbg("bb%d: skip at line %d" % (hb, 162))
            continue
        # blocks of the "body" from which the header cannot be reached again are exits, not body: leave them shared
        def reaches_header(x, seen=None):
            seen = seen or set()
            if x == hb:
                return True
            if x in seen or x not in body:
                return False
            seen.add(x)
            return any(reaches_header(s, seen) for s in succ_of(blocks[x]["term"]))
        # the per-element region: the loop proper plus the exit tails only an element can take (a `break` with the element in
        # hand), up to where they meet the code that also follows exhaustion
        after_none, todo = set(), [none_t]
        while todo:
            x = todo.pop()
            if x in after_none or x == hb or blocks[x].get("cleanup"):
                _dbg("bb%d: skip at line %d" % (hb, 178))
                continue
            after_none.add(x)
            todo.extend(succ_of(blocks[x]["term"]))
        loop_blocks = sorted(x for x in body if reaches_header(x) or x not in after_none)
        if not loop_blocks or some_t not in loop_blocks:
            _dbg("bb%d: skip at line %d" % (hb, 183))
            continue
        # the iterator must not be touched inside the body
        def touches(x):
            b_ = blocks[x]
            if b_["term"]["k"] == "drop":      # dropping the iterator on an early exit is not a use of its state
                b_ = dict(b_, term={"k": "goto", "target": b_["term"].get("target")})
            return any(pl["l"] in (itl, rl) for pl in _block_places(b_))
        if any(touches(x) for x in loop_blocks):
            _dbg("bb%d: skip at line %d" % (hb, 186))
            continue
        # temporaries private to the loop body get their own copy per clone, so that each clone's item is its own value
        inside = set(loop_blocks)
        defined = set()
        for x in loop_blocks:
            for st in blocks[x]["stmts"]:
                if st["k"] == "assign":
                    defined.add(st["lhs"]["l"])
            tm0 = blocks[x]["term"]
            if tm0["k"] == "call":
                defined.add(tm0["dest"]["l"])
        defined.add(o)
        used_outside = set()
        for b in blocks:
            if b["id"] in inside or b["id"] in (hb, sw) or b.get("cleanup"):
                _dbg("bb%d: skip at line %d" % (hb, 201))
                continue
            for pl in _block_places(b):
                used_outside.add(pl["l"])
                for e_ in pl["p"]:
                    if isinstance(e_, dict) and "idx" in e_:
                        used_outside.add(e_["idx"])
        private = sorted(l_ for l_ in defined if l_ not in used_outside and not (0 <= l_ <= fn.nargs))

        def rename(obj, m):
            if isinstance(obj, dict):
                if isinstance(obj.get("l"), int) and obj["l"] in m:
                    obj["l"] = m[obj["l"]]
                if isinstance(obj.get("idx"), int) and obj["idx"] in m:
                    obj["idx"] = m[obj["idx"]]
                for v in obj.values():
                    rename(v, m)
            elif isinstance(obj, list):
                for v in obj:
                    rename(v, m)
        at = t.get("at")
        entries = []
        first_entry = None
        for i in range(n):
            remap = {x: len(blocks) + 1 + k for k, x in enumerate(loop_blocks)}
            el = len(locals_)
            locals_.append("&?")
            lm = {}
            for l_ in private:
                lm[l_] = len(locals_)
                locals_.append(locals_[l_] if l_ < len(locals_) else "?")
            ev = len(locals_)
            locals_.append("?")
            eop = elems[i]
            if not eop.get("const"):
                eop = {"copy": (eop.get("copy") or eop.get("move"))}
            head = {"id": len(blocks), "synthetic": True,
                    "stmts": [{"k": "assign", "lhs": {"l": ev, "p": []}, "rv": {"k": "use", "a": eop}, "at": at},       # the i-th element of the literal
                              ({"k": "assign", "lhs": {"l": el, "p": []}, "rv": {"k": "ref", "mut": False, "place": {"l": ev, "p": []}}, "at": at} if by_ref else
                               {"k": "assign", "lhs": {"l": el, "p": []}, "rv": {"k": "use", "a": {"copy": {"l": ev, "p": []}}}, "at": at}),
                              {"k": "assign", "lhs": {"l": lm.get(o, o), "p": []}, "rv": {"k": "agg", "agg": "adt", "adt": "core::option::Option", "adt_local": False, "variant": "Some",
                                                                                          "field_names": ["0"], "fields": [{"move": {"l": el, "p": []}}]}, "at": at}],
                    "term": {"k": "goto", "target": remap[some_t], "at": at}}
            blocks.append(head)
            entries.append(head["id"])
            for x in loop_blocks:
                nb = _copy.deepcopy(blocks[x])
                nb["id"] = remap[x]
                nb["synthetic"] = True
                rename(nb["stmts"], lm)
                rename(nb["term"], lm)
                tm = nb["term"]
                for k in ("target", "otherwise", "unwind"):
                    if tm.get(k) in remap:
                        tm[k] = remap[tm[k]]
                    elif tm.get(k) == hb and k != "unwind":
                        tm[k] = ("NEXT", i)
                for a in tm.get("arms", []):
                    if a["target"] in remap:
                        a["target"] = remap[a["target"]]
                    elif a["target"] == hb:
                        a["target"] = ("NEXT", i)
                blocks.append(nb)
        # exhausted exit: o = None, then the None arm's target
        ex = {"id": len(blocks), "synthetic": True,
              "stmts": [{"k": "assign", "lhs": {"l": o, "p": []}, "rv": {"k": "agg", "agg": "adt", "adt": "core::option::Option", "adt_local": False, "variant": "None",
                                                                        "field_names": [], "fields": []}, "at": at}],
              "term": {"k": "goto", "target": none_t, "at": at}}
        blocks.append(ex)
        nxt = lambda i: entries[i + 1] if i + 1 < n else ex["id"]
        for b in blocks:
            tm = b["term"]
            for k in ("target", "otherwise"):
                if isinstance(tm.get(k), tuple) and tm[k][0] == "NEXT":
                    tm[k] = nxt(tm[k][1])
            for a in tm.get("arms", []):
                if isinstance(a["target"], tuple) and a["target"][0] == "NEXT":
                    a["target"] = nxt(a["target"][1])
        # the old header now only forwards into the first clone
        nh = dict(blocks[hb])
        nh["term"] = {"k": "goto", "target": entries[0], "at": at}
        blocks[hb] = nh
        done.append("unrolled@bb%d x%d" % (hb, n))
    if not done:
        return fn
    core._thread_jumps(blocks, max_new=800, rounds=160)
    d = {k: v for k, v in fn.d.items() if k not in ("blocks", "locals")}
    d["locals"] = locals_
    d["blocks"] = blocks
    d["arg_count"] = fn.nargs
    nf = Fn(prog, fn.path, d)
    nf.desugared = list(getattr(fn, "desugared", []) or []) + done
    nf.inlined = list(getattr(fn, "inlined", []) or [])
    return nf
