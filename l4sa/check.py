"""Check runner: loads rules/cNN.py, evaluates its rule instances on the facts
of /repo's current working tree, prints VIOLATION / KNOWN-FINDING lines, writes
evidence/<id>.json and replay files, sets the exit code."""
import importlib
import json
import os
import re
import sys
import time
import traceback

from . import core, facts

VERIF = facts.VERIF
KNOWN_FILE = os.path.join(VERIF, "known_findings.json")


class Obligation:
    __slots__ = ("rule", "key", "ok", "fn", "site", "detail", "config", "path")

    def __init__(self, rule, key, ok, fn=None, site=None, detail="", config=None, path=None):
        self.rule = rule
        self.key = key
        self.ok = ok
        self.fn = fn
        self.site = site
        self.detail = detail
        self.config = config
        self.path = path

    def full_key(self, prop):
        return "%s.%s/%s" % (prop, self.rule, self.key)

    def as_dict(self, prop):
        return {"property": prop, "rule": self.rule, "key": self.full_key(prop), "ok": self.ok,
                "function": self.fn, "site": self.site, "detail": self.detail,
                "config": self.config, "witness_path": self.path}


class Rule:
    def __init__(self, ctx, rid, title, config):
        self.ctx = ctx
        self.rid = rid
        self.title = title
        self.config = config
        self.count = 0

    def __enter__(self):
        return self

    def __exit__(self, et, ev, tb):
        if et is None:
            if self.count == 0:
                # a rule that examined nothing never passes
                self.fail("vacuous", detail="rule %s evaluated no instance (fail closed)" % self.rid)
            return False
        if issubclass(et, core.AnchorMissing):
            self.fail("anchor-missing", detail="reason=anchor-missing: %s" % ev)
            return True
        if issubclass(et, core.ShapeUnrecognised):
            self.fail("shape-unrecognised", detail="reason=shape-unrecognised: %s" % ev)
            return True
        if issubclass(et, facts.FactError):
            return False
        if issubclass(et, Exception):
            tbs = "".join(traceback.format_exception(et, ev, tb))[-1500:]
            self.fail("shape-unrecognised", detail="reason=shape-unrecognised (analysis raised %s: %s)\n%s" % (et.__name__, ev, tbs))
            return True
        return False

    def _fnpath(self, fn):
        if fn is None:
            return None
        return fn.path if isinstance(fn, core.Fn) else str(fn)

    def ok(self, key, detail="", fn=None, site=None):
        self.count += 1
        self.ctx.obs.append(Obligation(self.rid, key, True, self._fnpath(fn), site, detail, self.config))

    def fail(self, key, detail="", fn=None, site=None, path=None):
        self.count += 1
        self.ctx.obs.append(Obligation(self.rid, key, False, self._fnpath(fn), site, detail, self.config, path))

    def require(self, cond, key, detail="", fn=None, site=None, fail_detail=None, path=None):
        if cond:
            self.ok(key, detail, fn, site)
        else:
            self.fail(key, fail_detail or detail, fn, site, path)
        return bool(cond)

    def floor(self, name, count, minimum):
        self.require(count >= minimum, "floor:" + name,
                     detail="%s: %d instance(s), floor %d" % (name, count, minimum))
        self.ctx.floors[self.rid + ":" + name] = {"count": count, "floor": minimum}


class Context:
    def __init__(self, prop, tier):
        self.prop = prop
        self.tier = tier
        self.obs = []
        self.floors = {}
        self._progs = {}
        self.configs_used = []
        self.notes = []
        self.extra = {}

    def prog(self, config="default"):
        if config not in self._progs:
            f = facts.generate(config)
            self._progs[config] = core.Program(f)
            rn = getattr(self._progs[config], "renamed", None)
            if rn:
                self.note("config %s: renamed private items analysed under their baseline names: %s" % (config, ", ".join("%s -> %s" % (k, v) for k, v in sorted(rn.items())[:12])))
            self.configs_used.append({"config": config, "cache": f["meta"].get("cache"),
                                      "bodies": len(f["fns"]), "features": f["meta"].get("features"),
                                      "debug_assertions": f["meta"].get("debug_assertions")})
        return self._progs[config]

    def rule(self, rid, title, config="default"):
        pre = getattr(self, "_premise_prefix", None)
        if pre:
            rid = pre + rid.lower()        # a neighbour's whole rule set evaluated as a premise: R17 + N3 -> R17n3
        self.titles = getattr(self, "titles", {})
        self.titles.setdefault(rid, title)
        return Rule(self, rid, title, config)

    def rid(self, rid):
        """the id a rule of this module has in the current run (prefixed when the module is evaluated as a premise)"""
        pre = getattr(self, "_premise_prefix", None)
        return pre + rid.lower() if pre else rid

    def premise(self, prefix):
        """`with ctx.premise("R17"): other.run_cfg(ctx, p, cfg)` - evaluate another property's rules under this property's
        ids (prefix + the rule's own id in lower case); what the other module records in ctx.extra is put back afterwards"""
        ctx = self

        class _P:
            def __enter__(self_):
                self_.old = getattr(ctx, "_premise_prefix", None)
                self_.extra = {k: (dict(v) if isinstance(v, dict) else v) for k, v in ctx.extra.items()}
                ctx._premise_prefix = prefix

            def __exit__(self_, *a):
                ctx._premise_prefix = self_.old
                ctx.extra = self_.extra
                return False
        return _P()

    def note(self, text):
        self.notes.append(text)


def load_known():
    if not os.path.exists(KNOWN_FILE):
        return []
    with open(KNOWN_FILE) as f:
        return json.load(f).get("findings", [])


def safe_name(key):
    return re.sub(r"[^A-Za-z0-9_.\-]+", "_", key)[:180]


def run_property(prop, tier="quick", replay=None):
    t0 = time.time()
    prop = prop.upper()
    mod = importlib.import_module("rules." + prop.lower())
    ctx = Context(prop, tier)
    core.STATS.clear()
    try:
        mod.run(ctx)
    except facts.FactError as e:
        print("ERROR property=%s could not analyse the tree: %s" % (prop, str(e)[-3000:]))
        return 2
    known = {k["key"]: k for k in load_known() if k.get("property") == prop and k.get("status") == "known"}
    viols = {}
    for o in ctx.obs:
        if not o.ok:
            viols.setdefault(o.full_key(prop), o)
    outdir = os.path.join(os.environ.get("VERIF_OUT_DIR") or os.path.join(VERIF, "out"), prop)
    os.makedirs(outdir, exist_ok=True)
    n_unlisted = 0
    n_known = 0
    if replay:
        want = None
        try:
            with open(replay) as f:
                want = json.load(f).get("key")
        except Exception:
            want = replay
        hit = [o for o in ctx.obs if o.full_key(prop) == want]
        print("REPLAY property=%s key=%s" % (prop, want))
        for o in hit:
            print(json.dumps(o.as_dict(prop), indent=1))
        if not hit:
            print("no obligation with that key on the current tree")
        return 1 if any(not o.ok for o in hit) else 0
    # A listed panic-site finding is identified by rule + kind of construct (callee / assertion kind); its
    # enclosing function and operand rendering move when the surrounding code is refactored.  Listed
    # findings that have no exact match on this tree ("vacant") absorb at most the same number of
    # unlisted sites of the same class; any surplus site is a new violation.
    def site_class(key):
        m = re.match(r"^([A-Za-z0-9.]+)/site:(.*?) \| (.*?) \| ", key)
        return (m.group(1), m.group(3)) if m else None
    vacant = {}
    for k in known:
        if k not in viols and site_class(k):
            vacant.setdefault(site_class(k), []).append(k)
    moved = {}
    for key in sorted(viols):
        if key in known:
            continue
        c = site_class(key)
        if c and vacant.get(c):
            moved[key] = vacant[c].pop(0)
    for key, o in sorted(viols.items()):
        if key in known:
            n_known += 1
            print("KNOWN-FINDING: property=%s %s %s" % (prop, key, known[key].get("what", "")))
            continue
        if key in moved:
            n_known += 1
            print("KNOWN-FINDING: property=%s %s %s (same construct, now rendered as %s)" % (prop, moved[key], known[moved[key]].get("what", ""), key))
            continue
        n_unlisted += 1
        rp = os.path.join(outdir, safe_name(key) + ".json")
        with open(rp, "w") as f:
            json.dump(o.as_dict(prop), f, indent=1)
        print("VIOLATION property=%s replay=%s" % (prop, rp))
        print("  rule=%s.%s key=%s" % (prop, o.rule, key))
        if o.fn or o.site:
            print("  at %s (%s)" % (o.site, o.fn))
        for line in (o.detail or "").splitlines()[:12]:
            print("  " + line)
    write_evidence(mod, ctx, prop, tier, time.time() - t0, n_unlisted, n_known, viols, known)
    total = len(ctx.obs)
    good = sum(1 for o in ctx.obs if o.ok)
    print("%s tier=%s: %d/%d obligations hold, %d violation(s) (%d known), configs=%s, %.1fs" % (
        prop, tier, good, total, len(viols), n_known,
        ",".join(c["config"] for c in ctx.configs_used), time.time() - t0))
    return 1 if n_unlisted else 0


def write_evidence(mod, ctx, prop, tier, wall, n_unlisted, n_known, viols, known):
    obs = ctx.obs
    distinct = {}
    for o in obs:
        distinct.setdefault(o.full_key(prop), o)
    samples = []
    seen_rules = set()
    # one sample per rule first, then fill up
    for o in obs:
        if o.rule not in seen_rules:
            seen_rules.add(o.rule)
            samples.append(o.as_dict(prop))
    for o in obs:
        if len(samples) >= 60:
            break
        d = o.as_dict(prop)
        if d not in samples:
            samples.append(d)
    for s in samples:
        if s.get("detail") and len(s["detail"]) > 600:
            s["detail"] = s["detail"][:600] + "…"
    rules = {}
    for o in obs:
        r = rules.setdefault(o.rule, {"title": getattr(ctx, "titles", {}).get(o.rule, ""), "obligations": 0, "hold": 0})
        r["obligations"] += 1
        r["hold"] += 1 if o.ok else 0
    seed = int(os.environ.get("VERIF_SEED", "0") or 0)
    ev = {
        "property_id": prop,
        "tier": tier,
        "seed": seed,
        "level": "other",
        "wall_s": round(wall, 3),
        "violations": n_unlisted,
        "coverage": {
            "explanation": getattr(mod, "EXPLANATION", "").strip(),
            "decided_clauses": getattr(mod, "DECIDED", []),
            "undecided_clauses": getattr(mod, "UNDECIDED", []),
            "obligations": len(obs),
            "discharged": sum(1 for o in obs if o.ok),
            "evaluations": len(obs),
            "distinct_nontrivial": len(distinct),
            "rule": "one evaluation = one rule instance (obligation) decided on the resolved MIR of /repo's current tree in one build configuration; distinct = distinct obligation keys (rule/function/site role), each naming a concrete construct; deterministic, no sampling",
            "samples": samples,
            "per_rule": rules,
            "floors": ctx.floors,
            "configs": ctx.configs_used,
            "functions_analysed": sorted(core.STATS.get("fns", set()))[:400],
            "functions_analysed_count": len(core.STATS.get("fns", set())),
            "call_sites_matched": core.STATS.get("calls", 0),
            "known_findings_reported": n_known,
            "helpers_spliced": sorted({h for pr in ctx._progs.values() for h in getattr(pr, "inlined_helpers", [])}),
            "unlisted_violations": n_unlisted,
            "violation_keys": sorted(viols.keys()),
            "checker_cmd": "bin/check %s --tier %s" % (prop, tier),
            "trusted_base": getattr(mod, "TRUSTED", []),
            "not_analysed": ["cfg(windows) code (not compiled on this host)", "dependency bodies (contracts only)", "tests/benches/examples"],
            "notes": ctx.notes,
            "exhaustive": False,
        },
        "assumptions": getattr(mod, "TRUSTED", []),
    }
    ev["coverage"].update(ctx.extra)
    evdir = os.environ.get("VERIF_EVIDENCE_DIR") or os.path.join(VERIF, "evidence")
    os.makedirs(evdir, exist_ok=True)
    p = os.path.join(evdir, prop + ".json")
    tmp = p + ".tmp%d" % os.getpid()
    with open(tmp, "w") as f:
        json.dump(ev, f, indent=1, default=str)
    os.replace(tmp, p)


def main(argv):
    import argparse
    ap = argparse.ArgumentParser()
    ap.add_argument("prop")
    ap.add_argument("--tier", default=os.environ.get("VERIF_TIER", "quick"))
    ap.add_argument("--replay", default=None)
    a = ap.parse_args(argv)
    if a.tier not in ("quick", "thorough"):
        a.tier = "quick"
    return run_property(a.prop, a.tier, a.replay)
