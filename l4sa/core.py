"""l4sa core: program model over the l4facts fact file.

Everything here is classical static analysis over the resolved MIR: CFG,
dominators, reachability, reaching-definition expression recovery, edge
conditions, call graph.  Nothing executes log4rs code."""
import json
import os
import re
from collections import defaultdict, deque


STATS = {}


class AnchorMissing(Exception):
    """A function / call site / table the rule is anchored at was not found."""


class ShapeUnrecognised(Exception):
    """The anchored code exists but is not in one of the enumerated idioms."""


# --------------------------------------------------------------------------
# expressions (nested tuples)
#   ('const', kind, value)            kind in int|bool|char|str|bytes|enum|zst|ptr|...
#   ('fnref', path)
#   ('param', n)
#   ('local', n)                      a local without definition (should be rare)
#   ('call', callee, (args...), block)
#   ('bin', op, a, b) ('un', op, a) ('cast', kind, a, to)
#   ('ref', e) ('deref', e) ('field', e, name) ('as', e, variant) ('index', e, i)
#   ('discr', e)
#   ('agg', adt, variant, ((fname, e)...)) ('tuple', (e...)) ('array', (e...))
#   ('closure', path, (captures...)) ('repeat', e, n)
#   ('phi', (e...)) ('cycle', n) ('other', text)

TRANSPARENT_CALLS = {
    "core::ops::deref::Deref::deref",
    "core::ops::deref::DerefMut::deref_mut",
    "core::convert::AsRef::as_ref",
    "core::convert::AsMut::as_mut",
    "core::borrow::Borrow::borrow",
    "core::borrow::BorrowMut::borrow_mut",
    "core::clone::Clone::clone",
    "alloc::borrow::ToOwned::to_owned",
    "core::convert::Into::into",
    "core::convert::From::from",
    "alloc::string::String::as_str",
    "alloc::string::String::as_bytes",
    "alloc::vec::Vec::<T, A>::as_slice",
    "core::hint::must_use",
    "std::path::Path::new",
    "std::path::PathBuf::as_path",
    "alloc::string::ToString::to_string",
}


def strip(e, calls=TRANSPARENT_CALLS, casts=True):
    """Peel reference / deref / transparent-call wrappers."""
    while True:
        k = e[0]
        if k in ("ref", "deref"):
            e = e[1]
        elif k == "cast" and casts and (e[1].startswith("PointerCoercion") or e[1] in ("PtrToPtr", "Transmute")):
            e = e[2]
        elif k == "call" and e[1] in calls and e[2]:
            e = e[2][0]
        else:
            return e


def deep_strip(e, calls=TRANSPARENT_CALLS):
    """Remove reference/deref/transparent-call wrappers everywhere in e."""
    if not isinstance(e, tuple) or not e:
        return e
    e = strip(e, calls)
    k = e[0]
    if k == "call":
        return (k, e[1], tuple(deep_strip(a, calls) for a in e[2])) + e[3:]
    if k == "bin":
        return (k, e[1], deep_strip(e[2], calls), deep_strip(e[3], calls))
    if k == "un":
        return (k, e[1], deep_strip(e[2], calls))
    if k == "cast":
        return (k, e[1], deep_strip(e[2], calls), e[3])
    if k in ("field", "as"):
        return (k, deep_strip(e[1], calls), e[2])
    if k == "index":
        return (k, deep_strip(e[1], calls), deep_strip(e[2], calls))
    if k == "discr":
        return (k, deep_strip(e[1], calls))
    if k == "agg":
        return (k, e[1], e[2], tuple((n, deep_strip(v, calls)) for n, v in e[3]))
    if k in ("tuple", "array", "phi"):
        return (k, tuple(deep_strip(v, calls) for v in e[1]))
    if k == "closure":
        return (k, e[1], tuple(deep_strip(v, calls) for v in e[2]))
    return e


def walk(e):
    """All sub-expressions, pre-order."""
    stack = [e]
    while stack:
        x = stack.pop()
        if not isinstance(x, tuple) or not x:
            continue
        yield x
        k = x[0]
        if k == "call":
            stack.extend(x[2])
        elif k in ("bin",):
            stack.extend((x[2], x[3]))
        elif k in ("un",):
            stack.append(x[2])
        elif k == "cast":
            stack.append(x[2])
        elif k in ("ref", "deref", "discr"):
            stack.append(x[1])
        elif k in ("field", "as"):
            stack.append(x[1])
        elif k == "index":
            stack.extend((x[1], x[2]))
        elif k == "agg":
            stack.extend(v for _, v in x[3])
        elif k in ("tuple", "array", "phi"):
            stack.extend(x[1])
        elif k == "closure":
            stack.extend(x[2])
        elif k == "repeat":
            stack.append(x[1])


def mentions(e, pred):
    return any(pred(x) for x in walk(e))


def calls_in(e, callee=None):
    for x in walk(e):
        if x[0] == "call" and (callee is None or _match(x[1], callee)):
            yield x


def consts_in(e):
    for x in walk(e):
        if x[0] == "const":
            yield x


def _match(path, pat):
    if pat is None:
        return True
    if callable(pat):
        return bool(pat(path))
    if isinstance(pat, (set, frozenset, list, tuple)):
        return any(_match(path, p) for p in pat)
    if isinstance(pat, re.Pattern):
        return bool(pat.search(path or ""))
    return path == pat


def show(e, depth=6):
    """Compact rendering for diagnostics."""
    if not isinstance(e, tuple) or not e:
        return repr(e)
    if depth <= 0:
        return "…"
    k = e[0]
    d = depth - 1
    if k == "const":
        return "%r" % (e[2],)
    if k == "fnref":
        return "fn " + e[1]
    if k == "param":
        return "arg%d" % e[1]
    if k == "local":
        return "_"
    if k == "call":
        return "%s(%s)" % (short(e[1]), ", ".join(show(a, d) for a in e[2]))
    if k == "bin":
        return "(%s %s %s)" % (show(e[2], d), e[1], show(e[3], d))
    if k == "un":
        return "%s(%s)" % (e[1], show(e[2], d))
    if k == "cast":
        return "(%s as %s)" % (show(e[2], d), e[3])
    if k == "ref":
        return "&" + show(e[1], d)
    if k == "deref":
        return "*" + show(e[1], d)
    if k == "field":
        return "%s.%s" % (show(e[1], d), e[2])
    if k == "as":
        return "(%s as %s)" % (show(e[1], d), e[2])
    if k == "index":
        return "%s[%s]" % (show(e[1], d), show(e[2], d))
    if k == "discr":
        return "discr(%s)" % show(e[1], d)
    if k == "agg":
        return "%s::%s{%s}" % (short(e[1]), e[2], ", ".join("%s: %s" % (n, show(v, d)) for n, v in e[3]))
    if k in ("tuple", "array"):
        return "(%s)" % ", ".join(show(v, d) for v in e[1])
    if k == "phi":
        alts = [show(v, d) for v in e[1]]
        if not os.environ.get("L4SA_PHI_UNSORTED"):
            alts = sorted(set(alts))   # the order of a join's alternatives is not a property of the program
        return "φ(%s)" % " | ".join(alts)
    if k == "closure":
        return "closure %s[%s]" % (short(e[1]), ", ".join(show(v, d) for v in e[2]))
    if k == "repeat":
        return "[%s; %s]" % (show(e[1], d), e[2])
    if k == "cycle":
        return "↺"
    if k == "partial":
        return "{%s := %s}" % ("".join(e[1]), show(e[2], d))
    if k == "ovf":
        return "overflowed(%s)" % show(e[1], d)
    if k == "opaque":
        return "opaque(%s)" % show(e[1], d)
    if k == "setdiscr":
        return "variant=%s" % e[1]
    return "%s" % (e[0],)


def short(path):
    if not path:
        return str(path)
    path = re.sub(r"::<[^<>]*(<[^<>]*>[^<>]*)*>", "", path)
    m = re.findall(r"[A-Za-z_][A-Za-z_0-9]*", path)
    return "::".join(m[-2:]) if len(m) >= 2 else path


# --------------------------------------------------------------------------


class CallSite:
    __slots__ = ("fn", "block", "t")

    def __init__(self, fn, block, t):
        self.fn = fn
        self.block = block
        self.t = t

    @property
    def decl(self):
        return self.t.get("decl")

    @property
    def resolved(self):
        return self.t.get("resolved") if self.t.get("dispatch") == "static" else None

    @property
    def callee(self):
        """Resolved callee when it is a local function, else the declared
        (trait-level / inherent) path, which is canonical for external items."""
        t = self.t
        if t.get("dispatch") == "static" and t.get("resolved_local"):
            return t.get("resolved")
        return t.get("decl")

    @property
    def dispatch(self):
        return self.t.get("dispatch")

    @property
    def at(self):
        return self.t.get("at")

    @property
    def target(self):
        return self.t.get("target")

    @property
    def args(self):
        return self.t.get("args", [])

    def arg(self, i):
        return self.fn.expr(self.t["args"][i])

    def arg_exprs(self):
        return [self.fn.expr(a) for a in self.t.get("args", [])]

    @property
    def dest(self):
        return self.t.get("dest")

    def matches(self, pat):
        return _match(self.decl, pat) or _match(self.resolved, pat)

    def __repr__(self):
        return "<call %s in %s bb%d @%s>" % (self.callee, self.fn.path, self.block, self.at)


class Fn:
    def __init__(self, prog, path, d):
        self.prog = prog
        self.path = path
        self.d = d
        self.blocks = d["blocks"]
        self.nargs = d["arg_count"]
        self.locals = d["locals"]
        self.n = len(self.blocks)
        self.cleanup = {b["id"] for b in self.blocks if b.get("cleanup")}
        self.succ = {}
        self.usucc = {}
        # tiny constant propagation for single-assignment bool/int temporaries (cfg!(..), !cfg!(..))
        ndef = defaultdict(int)
        cdef = {}
        for b in self.blocks:
            for st in b["stmts"]:
                if st["k"] == "assign":
                    l = st["lhs"]["l"]
                    ndef[l] += 1
                    if not st["lhs"]["p"]:
                        cdef[l] = st["rv"]
            if b["term"]["k"] == "call":
                ndef[b["term"]["dest"]["l"]] += 1

        def const_of(op, depth=0):
            c = op.get("const")
            if c is not None:
                if c.get("kind") == "bool":
                    return 1 if c.get("value") else 0
                if c.get("kind") == "int" and isinstance(c.get("value"), int):
                    return c["value"]
                return None
            pl = op.get("copy") or op.get("move")
            if pl is None or pl["p"] or depth > 4 or ndef.get(pl["l"]) != 1 or pl["l"] not in cdef or 1 <= pl["l"] <= d["arg_count"]:
                return None
            rv = cdef[pl["l"]]
            if rv["k"] == "use":
                return const_of(rv["a"], depth + 1)
            if rv["k"] == "un" and rv["op"] == "Not" and rv.get("ty") == "bool":
                v = const_of(rv["a"], depth + 1)
                return None if v is None else (0 if v else 1)
            return None
        for b in self.blocks:
            t = b["term"]
            k = t["k"]
            s = []
            if k == "goto":
                s = [t["target"]]
            elif k == "switch":
                s = [a["target"] for a in t["arms"]] + [t["otherwise"]]
                v = const_of(t["discr"])
                if v is not None:
                    # constant scrutinee (cfg!(..) etc.): only the matching edge is feasible
                    hit = [a["target"] for a in t["arms"] if a["value"] == v]
                    s = hit[:1] if hit else [t["otherwise"]]
            elif k in ("drop", "assert"):
                s = [t["target"]]
            elif k == "call":
                s = [t["target"]] if t.get("target") is not None else []
            seen = []
            for x in s:
                if x not in seen:
                    seen.append(x)
            self.succ[b["id"]] = seen
            self.usucc[b["id"]] = t.get("unwind") if isinstance(t.get("unwind"), int) else None
        self.pred = defaultdict(list)
        for a, ss in self.succ.items():
            for s in ss:
                self.pred[s].append(a)
        self._dom = None
        self._defs = None
        self._ecache = {}
        self.span = d.get("span")
        self.kind = d.get("kind")
        self.vis = d.get("vis")
        self.vars = {}
        for name, pl in d.get("vars", {}).items():
            if not pl["p"]:
                self.vars.setdefault(pl["l"], name)

    # ---- basic access
    def term(self, b):
        return self.blocks[b]["term"]

    def stmts(self, b):
        return self.blocks[b]["stmts"]

    def reachable_blocks(self):
        if getattr(self, "_rb", None) is not None:
            return self._rb
        self._rb = self._reachable_blocks()
        return self._rb

    def _reachable_blocks(self):
        seen = {0}
        q = deque([0])
        while q:
            x = q.popleft()
            for s in self.succ[x]:
                if s not in seen:
                    seen.add(s)
                    q.append(s)
        return seen

    def return_blocks(self):
        rb = self.reachable_blocks()
        return [b["id"] for b in self.blocks if b["term"]["k"] == "return" and b["id"] in rb]

    def calls(self, callee=None, reachable_only=True):
        rb = self.reachable_blocks() if reachable_only else None
        out = []
        for b in self.blocks:
            t = b["term"]
            if t["k"] == "call" and "decl" in t:
                if rb is not None and b["id"] not in rb:
                    continue
                cs = CallSite(self, b["id"], t)
                if callee is None or cs.matches(callee):
                    out.append(cs)
        if callee is not None:
            STATS["calls"] = STATS.get("calls", 0) + len(out)
            STATS.setdefault("fns", set()).add(self.path)
        return out

    def indirect_calls(self):
        rb = self.reachable_blocks()
        return [CallSite(self, b["id"], b["term"]) for b in self.blocks
                if b["term"]["k"] == "call" and "decl" not in b["term"] and b["id"] in rb]

    def call1(self, callee, what=None):
        cs = self.calls(callee)
        if len(cs) != 1:
            raise AnchorMissing("%s: expected exactly one call to %s, found %d" % (self.path, what or callee, len(cs)))
        return cs[0]

    def asserts(self):
        rb = self.reachable_blocks()
        return [(b["id"], b["term"]) for b in self.blocks if b["term"]["k"] == "assert" and b["id"] in rb]

    def assigns(self):
        """(block, idx, stmt) of assignment statements on normal-flow blocks."""
        rb = self.reachable_blocks()
        for b in self.blocks:
            if b["id"] not in rb:
                continue
            for i, s in enumerate(b["stmts"]):
                if s["k"] == "assign":
                    yield b["id"], i, s

    # ---- dominators (iterative, on normal-flow CFG)
    def _compute_dom(self):
        order = []
        seen = set()

        def dfs(start):
            stack = [(start, iter(self.succ[start]))]
            seen.add(start)
            while stack:
                node, it = stack[-1]
                adv = False
                for s in it:
                    if s not in seen:
                        seen.add(s)
                        stack.append((s, iter(self.succ[s])))
                        adv = True
                        break
                if not adv:
                    order.append(node)
                    stack.pop()
        dfs(0)
        rpo = list(reversed(order))
        idx = {b: i for i, b in enumerate(rpo)}
        idom = {0: 0}
        changed = True
        while changed:
            changed = False
            for b in rpo[1:]:
                ps = [p for p in self.pred[b] if p in idom]
                if not ps:
                    continue
                new = ps[0]
                for p in ps[1:]:
                    a, c = p, new
                    while a != c:
                        while idx[a] > idx[c]:
                            a = idom[a]
                        while idx[c] > idx[a]:
                            c = idom[c]
                    new = a
                if idom.get(b) != new:
                    idom[b] = new
                    changed = True
        self._dom = idom
        self._rpo = rpo

    def dominates(self, a, b):
        """block a dominates block b (reflexive)."""
        if self._dom is None:
            self._compute_dom()
        if b not in self._dom:
            return False
        x = b
        while True:
            if x == a:
                return True
            if x == 0:
                return a == 0
            x = self._dom[x]

    def reach(self, src, avoid=(), include_src=False):
        """Blocks reachable from the successors of src (or src itself) along
        normal flow without entering blocks in `avoid`."""
        avoid = set(avoid)
        seen = set()
        q = deque()
        starts = [src] if include_src else self.succ[src]
        for s in starts:
            if s not in avoid and s not in seen:
                seen.add(s)
                q.append(s)
        while q:
            x = q.popleft()
            for s in self.succ[x]:
                if s not in avoid and s not in seen:
                    seen.add(s)
                    q.append(s)
        return seen

    def can_reach(self, a, b, avoid=()):
        return b in self.reach(a, avoid)

    def in_loop(self, b):
        return b in self.reach(b)

    def back_edges(self):
        out = []
        for a, ss in self.succ.items():
            for s in ss:
                if self.dominates(s, a):
                    out.append((a, s))
        return out

    # ---- definitions and expression recovery
    def _compute_defs(self):
        defs = defaultdict(list)  # local -> [(proj(list), block, idx, kind, payload)]
        rb = self.reachable_blocks()
        for b in self.blocks:
            if b["id"] not in rb:
                continue  # normal flow only: cleanup/unwind blocks are not part of the analysed behaviour
            for i, s in enumerate(b["stmts"]):
                if s["k"] == "assign":
                    defs[s["lhs"]["l"]].append((s["lhs"]["p"], b["id"], i, "rv", s["rv"]))
                elif s["k"] == "set_discr":
                    defs[s["lhs"]["l"]].append((s["lhs"]["p"], b["id"], i, "set_discr", s["variant"]))
            t = b["term"]
            if t["k"] == "call":
                d = t["dest"]
                defs[d["l"]].append((d["p"], b["id"], len(b["stmts"]), "call", t))
        self._defs = defs

    def defs(self, local):
        if self._defs is None:
            self._compute_defs()
        return self._defs.get(local, [])

    def expr(self, x, depth=48):
        """Expression for an operand dict ({'copy'|'move'|'const': ..}) or a place dict."""
        if "const" in x:
            return self._const(x["const"])
        pl = x.get("copy") or x.get("move") or x
        return self._place_expr(pl, frozenset(), depth)

    def expr_at(self, x, at, depth=48):
        """expr(x) as it stands in block `at`: a definition of the local in a block from which `at` cannot be reached takes no
        part (followed through plain whole-local copies, discriminant reads and negations).  After jump threading the
        definitions on the threaded-away edges are exactly such definitions."""
        if "const" in x:
            return self._const(x["const"])
        pl = x.get("copy") or x.get("move") or x
        return self._place_expr_at(pl["l"], pl["p"], at, depth, 0)

    def _reaches(self, a, b):
        c = self.__dict__.setdefault("_reach0", {})
        if a not in c:
            c[a] = self.reach(a)
        return a == b or b in c[a]

    def _place_expr_at(self, l, proj, at, depth, hops):
        whole = lambda: self._place_expr({"l": l, "p": proj}, frozenset(), depth)
        if (1 <= l <= self.nargs) or hops > 8:
            return whole()
        alldefs = self.defs(l)
        if not alldefs or any(dp for (dp, b, i, kind, payload) in alldefs):
            return whole()
        live = [d for d in alldefs if self._reaches(d[1], at)]
        if not live:
            return whole()

        def opnd(op, b):
            if "const" in op:
                return self._const(op["const"])
            q_ = op.get("copy") or op.get("move")
            return self._place_expr_at(q_["l"], q_["p"], b, depth - 1, hops + 1)
        cands = []
        for (dp, b, i, kind, payload) in live:
            if kind == "rv" and payload["k"] == "use":
                base = opnd(payload["a"], b)
            elif kind == "rv" and payload["k"] == "un":
                base = ("un", payload["op"], opnd(payload["a"], b))
            elif kind == "rv" and payload["k"] == "discr":
                base = ("discr", self._place_expr_at(payload["place"]["l"], payload["place"]["p"], b, depth - 1, hops + 1))
            elif kind == "rv":
                base = self._rvalue(payload, frozenset([l]), depth - 1, b)
            elif kind == "call":
                base = self._call_expr(payload, b, frozenset([l]), depth - 1)
            else:
                return whole()
            cands.append(_apply_proj(base, proj, self, frozenset([l]), depth))
        uniq = []
        for c in cands:
            if c not in uniq:
                uniq.append(c)
        if len(uniq) > 1 and NEVER in uniq:
            uniq.remove(NEVER)
        return uniq[0] if len(uniq) == 1 else ("phi", tuple(uniq))

    def root_defs(self, local):
        """Definitions (block, expr) of `local`, looking through chains of plain
        whole-local copies/moves, so that the per-edge definitions of a user
        variable are seen individually instead of as one phi."""
        seen = set()
        while local not in seen:
            seen.add(local)
            ds = [d for d in self.defs(local) if not d[0]]
            if len(ds) == 1 and ds[0][3] == "rv" and ds[0][4]["k"] == "use":
                pl = ds[0][4]["a"].get("copy") or ds[0][4]["a"].get("move")
                if pl and not pl["p"] and not (1 <= pl["l"] <= self.nargs):
                    local = pl["l"]
                    continue
            break
        out = []
        for (dp, b, i, kind, payload) in self.defs(local):
            if dp:
                continue
            if kind == "rv":
                out.append((b, self._rvalue(payload, frozenset([local]), 40, b)))
            elif kind == "call":
                out.append((b, self._call_expr(payload, b, frozenset([local]), 40)))
        return out

    def lvalue(self, place, depth=48):
        """Address-like expression of an assigned place: the base local's value
        expression with the projections applied symbolically (no def lookup of
        the projected place itself)."""
        base = self._place_expr({"l": place["l"], "p": []}, frozenset(), depth)
        return _apply_proj(base, place["p"], self, frozenset(), depth)

    def local_expr(self, l, depth=48):
        return self._place_expr({"l": l, "p": []}, frozenset(), depth)

    def _const(self, c):
        k = c.get("kind")
        if "tree" in c and isinstance(c["tree"], dict) and (c.get("has_ptrs") or "bytes" not in c):
            t_ = self._tree(c["tree"])
            if t_ is not None:
                return t_
        if k == "fn":
            return ("fnref", c["path"])
        if "promoted" in c and c.get("item"):
            pf = self.prog.fns.get("%s::{promoted#%d}" % (c["item"], c["promoted"]))
            if pf is not None and pf is not self:
                return pf.local_expr(0)
        if k in ("int", "bool", "char", "str", "scalar"):
            return ("const", k, c.get("value"))
        if k == "enum":
            return ("const", "enum", c.get("variant"))
        if k in ("bytes", "ptr", "indirect"):
            b = c.get("bytes")
            if c.get("static"):
                return ("const", "static", c["static"])
            if b is None or c.get("has_ptrs"):
                return ("const", "opaque", c.get("ty"))
            return ("const", "bytes", bytes(b))
        if k == "zst":
            return ("const", "zst", c.get("ty"))
        if k == "unevaluated":
            return ("const", "unevaluated", c.get("item"))
        return ("const", k, c.get("text") or c.get("ty"))

    def _tree(self, t):
        """a constant allocation the fact extractor decoded (lookup tables): arrays and tuples of leaf constants"""
        if t.get("tree") == "array":
            el = [self._tree(x) for x in t.get("elems", [])]
            return None if any(x is None for x in el) else ("array", tuple(el))
        if t.get("tree") == "tuple":
            el = [self._tree(x) for x in t.get("elems", [])]
            return None if any(x is None for x in el) else ("tuple", tuple(el))
        if "kind" in t:
            return self._const(t)
        return None

    def _place_expr(self, pl, seen, depth):
        l = pl["l"]
        proj = pl["p"]
        if depth <= 0:
            return ("other", "depth")
        key = None
        if not seen:
            key = (l, _pkey(proj))
            if key in self._ecache:
                return self._ecache[key]
        res = self._place_expr_inner(l, proj, seen, depth)
        if key is not None:
            self._ecache[key] = res
        return res

    def _place_expr_inner(self, l, proj, seen, depth):
        if l in seen:
            return _apply_proj(("cycle", l), proj, self, seen, depth)
        seen2 = seen | {l}
        cands = []
        alldefs = self.defs(l)
        if 1 <= l <= self.nargs:
            cands.append(_apply_proj(("param", l), proj, self, seen2, depth))
        for (dp, b, i, kind, payload) in alldefs:
            # definition applies if its lhs projection is a prefix of the requested one
            if len(dp) <= len(proj) and all(_pelem_eq(dp[j], proj[j]) for j in range(len(dp))):
                rest = proj[len(dp):]
                if kind == "rv":
                    base = self._rvalue(payload, seen2, depth - 1, b)
                elif kind == "call":
                    base = self._call_expr(payload, b, seen2, depth - 1)
                else:
                    base = ("setdiscr", payload)
                cands.append(_apply_proj(base, rest, self, seen2, depth))
            elif len(dp) > len(proj) and all(_pelem_eq(dp[j], proj[j]) for j in range(len(proj))) \
                    and "*" not in [x for x in dp[len(proj):] if isinstance(x, str)]:
                # a sub-place is assigned: whole value partially defined here
                if kind == "rv":
                    sub = self._rvalue(payload, seen2, depth - 1, b)
                elif kind == "call":
                    sub = self._call_expr(payload, b, seen2, depth - 1)
                else:
                    sub = ("setdiscr", payload)
                cands.append(("partial", _pkey(dp[len(proj):]), sub))
        if not cands:
            return _apply_proj(("local", l), proj, self, seen2, depth)
        # dedupe
        uniq = []
        for c in cands:
            if c not in uniq:
                uniq.append(c)
        if len(uniq) > 1 and NEVER in uniq:
            uniq.remove(NEVER)
        if len(uniq) == 1:
            return uniq[0]
        return ("phi", tuple(uniq))

    def _call_expr(self, t, b, seen, depth):
        callee = t.get("resolved") if (t.get("dispatch") == "static" and t.get("resolved_local")) else None
        callee = callee or t.get("decl") or "<indirect>"
        args = tuple(self._operand(a, seen, depth) for a in t.get("args", []))
        if "decl" not in t and "func" in t:
            f = self._operand(t["func"], seen, depth)
            return ("call", "<indirect>", (f,) + args, b)
        return ("call", callee, args, b)

    def _operand(self, op, seen, depth):
        if "const" in op:
            return self._const(op["const"])
        pl = op.get("copy") or op.get("move")
        return self._place_expr(pl, seen, depth)

    def _rvalue(self, rv, seen, depth, b):
        k = rv["k"]
        if k == "use":
            return self._operand(rv["a"], seen, depth)
        if k == "ref":
            e = self._place_expr(rv["place"], seen, depth)
            if e[0] == "deref":
                return e[1]  # reborrow
            return ("ref", e)
        if k == "rawptr":
            return ("ref", self._place_expr(rv["place"], seen, depth))
        if k == "cast":
            return ("cast", rv["kind"], self._operand(rv["a"], seen, depth), rv["to"])
        if k == "bin":
            return ("bin", rv["op"], self._operand(rv["a"], seen, depth), self._operand(rv["b"], seen, depth))
        if k == "un":
            return ("un", rv["op"], self._operand(rv["a"], seen, depth))
        if k == "discr":
            return ("discr", self._place_expr(rv["place"], seen, depth))
        if k == "repeat":
            return ("repeat", self._operand(rv["a"], seen, depth), rv.get("n"))
        if k == "agg":
            fs = tuple(self._operand(f, seen, depth) for f in rv["fields"])
            a = rv["agg"]
            if a == "adt":
                names = rv.get("field_names", [])
                if len(names) != len(fs):
                    names = [str(i) for i in range(len(fs))]
                return ("agg", rv["adt"], rv["variant"], tuple(zip(names, fs)))
            if a == "tuple":
                return ("tuple", fs)
            if a == "array":
                return ("array", fs)
            if a in ("closure", "coroutine"):
                return ("closure", rv["closure"], fs)
            return ("other", "agg:" + a)
        if k == "tls":
            return ("const", "static", rv["static"])
        return ("other", rv.get("text", k))

    # ---- switch edges and conditions
    def switch_label(self, b, target_or_value):
        """Human/semantic label for an arm of the switch terminating block b."""
        t = self.term(b)
        assert t["k"] == "switch"
        return SwitchInfo(self, b)

    def conditions(self, target, exclude_self=True):
        """Necessary branch conditions for reaching block `target` from entry:
        list of (switch_block, SwitchInfo, allowed_edges) where allowed_edges is
        the strict subset of that switch's edges from which target is reachable."""
        out = []
        for b in self.blocks:
            t = b["term"]
            if t["k"] != "switch":
                continue
            s = b["id"]
            if s == target and exclude_self:
                continue
            if not self.dominates(s, target):
                continue
            si = SwitchInfo(self, s)
            allowed = []
            for (val, tgt) in si.edges:
                if tgt == target or target in self.reach(tgt, avoid={s}, include_src=True):
                    allowed.append((val, tgt))
            if len(allowed) < len(si.edges):
                out.append((s, si, allowed))
        return out


class SwitchInfo:
    """Decoded SwitchInt: the scrutinee expression and per-edge labels."""

    def __init__(self, fn, b):
        self.fn = fn
        self.b = b
        t = fn.term(b)
        self.t = t
        self.discr = fn.expr_at(t["discr"], b)
        self.ty = t.get("discr_ty")
        self.edges = [(a["value"], a["target"]) for a in t["arms"]] + [("otherwise", t["otherwise"])]
        self.variants = None
        # find the Discriminant rvalue feeding the switch, for variant names
        d = self.discr
        if d[0] == "discr":
            self.variants = self._variants_of(t["discr"])
        self.is_bool = self.ty == "bool"
        # `let dup = !set.insert(x); if dup {..}`: a negation kept in a variable.  The switch is read as a switch on the negated
        # value with its labels swapped, so that `if !c` and `let n = !c; if n` are the same test.
        self.negated = False
        while self.is_bool:
            d = strip(self.discr)
            if d[0] == "un" and d[1] == "Not":
                self.discr = d[2]
                self.negated = not self.negated
            else:
                break

    def _variants_of(self, op):
        pl = op.get("copy") or op.get("move")
        if not pl:
            return None
        for (dp, b, i, kind, payload) in self.fn.defs(pl["l"]):
            if kind == "rv" and payload["k"] == "discr":
                return payload.get("variants")
        return None

    def label(self, val):
        if self.is_bool and self.negated:
            raw = self._label(val)
            return (not raw) if isinstance(raw, bool) else raw
        return self._label(val)

    def _label(self, val):
        if val == "otherwise":
            if self.is_bool:
                vals = [v for v, _ in self.edges if v != "otherwise"]
                if vals == [0]:
                    return True
                if vals == [1]:
                    return False
            if self.variants:
                named = {self.variants.get(str(v)) for v, _ in self.edges if v != "otherwise"}
                rest = [n for n in self.variants.values() if n not in named]
                if len(rest) == 1:
                    return rest[0]
                return ("otherwise", tuple(sorted(rest)))
            return "otherwise"
        if self.is_bool:
            return bool(val)
        if self.variants:
            return self.variants.get(str(val), val)
        return val

    def labelled_edges(self):
        return [(self.label(v), t) for v, t in self.edges]

    def target_of(self, label):
        for v, t in self.edges:
            if self.label(v) == label:
                return t
        return None


def _pkey(proj):
    out = []
    for p in proj:
        if isinstance(p, str):
            out.append(p)
        elif "f" in p:
            out.append("." + p["f"])
        elif "as" in p:
            out.append("as " + p["as"])
        elif "idx" in p:
            out.append("[_]")
        elif "ci" in p:
            out.append("[%d]" % p["ci"])
        else:
            out.append(str(sorted(p.items())))
    return tuple(out)


def _pelem_eq(a, b):
    if isinstance(a, str) or isinstance(b, str):
        return a == b
    if "f" in a and "f" in b:
        return a["f"] == b["f"]
    if "as" in a and "as" in b:
        return a["as"] == b["as"]
    return a == b


NEVER = ("never",)


def _apply_proj(e, proj, fn, seen, depth):
    for p in proj:
        if e == NEVER:
            return e
        if isinstance(p, str):
            if p == "*":
                if e[0] == "ref":
                    e = e[1]
                else:
                    e = ("deref", e)
            else:
                e = ("opaque", e)
        elif e[0] == "phi" and isinstance(p, dict) and ("as" in p or "f" in p) and not any(a[0] == "partial" for a in e[1]) \
                and any(a[0] in ("agg", "tuple") or (a[0] == "as" and a[1][0] == "agg") for a in e[1]):
            # a join of values built in place (`Some(x)` on one edge, `None` on the other): project each alternative,
            # dropping those that were built as another variant than the one read
            alts = []
            for a in e[1]:
                v = _apply_proj(a, [p], fn, seen, depth)
                if v != NEVER and v not in alts:
                    alts.append(v)
            e = NEVER if not alts else alts[0] if len(alts) == 1 else ("phi", tuple(alts))
        elif "f" in p:
            name = p["f"]
            if e[0] == "phi" and any(a[0] == "partial" for a in e[1]):
                # a field of a value joined with partial stores into it: the store into this very field supplies the
                # field's value, stores into other fields do not affect it
                key = "." + name
                alts = []
                for a in e[1]:
                    if a[0] == "partial":
                        if a[1] and a[1][0] == key:
                            alts.append(a[2] if len(a[1]) == 1 else ("partial", a[1][1:], a[2]))
                        continue
                    alts.append(_apply_proj(a, [p], fn, seen, depth))
                uniq = []
                for a in alts:
                    if a not in uniq:
                        uniq.append(a)
                e = uniq[0] if len(uniq) == 1 else ("phi", tuple(uniq))
                continue
            if e[0] == "agg":
                hit = [v for n, v in e[3] if n == name]
                e = hit[0] if hit else ("field", e, name)
            elif e[0] == "as" and e[1][0] == "agg" and e[1][2] == e[2]:
                hit = [v for n, v in e[1][3] if n == name]
                e = hit[0] if hit else ("field", e, name)
            elif e[0] == "tuple" and name.isdigit() and int(name) < len(e[1]):
                e = e[1][int(name)]
            elif e[0] == "closure" and name.isdigit() and int(name) < len(e[2]):
                e = e[2][int(name)]      # a captured variable of a closure value built in this function
            elif e[0] == "bin" and e[1].endswith("WithOverflow"):
                if name == "0":
                    e = ("bin", e[1][:-len("WithOverflow")], e[2], e[3])
                else:
                    e = ("ovf", e)
            elif name in ("0", "1") and e[0] == "field" and e[2] == "0" and e[1][0] == "as" and e[1][2] == "Some" and e[1][1][0] == "call" \
                    and e[1][1][1] == "core::option::Option::<T>::zip" and len(e[1][1][2]) == 2:
                # `a.zip(b)` is Some((x, y)) exactly when a is Some(x) and b is Some(y): a component of the pair is that payload
                e = ("field", ("as", e[1][1][2][int(name)], "Some"), "0")
            else:
                e = ("field", e, name)
        elif "as" in p and p["as"] == "Continue" and e[0] == "call" and e[1] == "core::ops::try_trait::Try::branch" and e[2] \
                and any(a[0] == "agg" for a in (e[2][0][1] if e[2][0][0] == "phi" else (e[2][0],))):
            # `Ok(x)?` is x: the success payload of Try::branch of a value built in place is that value's payload; the
            # alternatives built as Err/None (or coming out of from_residual) never continue
            outs = []
            for alt in (e[2][0][1] if e[2][0][0] == "phi" else (e[2][0],)):
                if alt[0] == "agg":
                    if alt[2] in ("Ok", "Some"):
                        outs.append(("as", alt, alt[2]))
                elif alt[0] == "call" and alt[1].endswith("::from_residual"):
                    continue
                else:
                    outs.append(("as", ("call", e[1], (alt,)) + tuple(e[3:]), "Continue"))
            uniq = []
            for o_ in outs:
                if o_ not in uniq:
                    uniq.append(o_)
            e = NEVER if not uniq else uniq[0] if len(uniq) == 1 else ("phi", tuple(uniq))
        elif "as" in p:
            if e[0] == "agg" and isinstance(e[2], str) and e[2] != p["as"]:
                e = NEVER       # the downcast of a value built as another variant: this definition cannot be the one read here
            else:
                e = ("as", e, p["as"])
        elif "idx" in p:
            e = ("index", e, fn._place_expr({"l": p["idx"], "p": []}, seen, depth - 1))
        elif "ci" in p:
            e = ("index", e, ("const", "int", p["ci"]))
        else:
            e = ("opaque", e)
    return e


# --------------------------------------------------------------------------
# comparison normal form


CMP_CALLS = {
    "core::cmp::PartialOrd::lt": "Lt", "core::cmp::PartialOrd::le": "Le",
    "core::cmp::PartialOrd::gt": "Gt", "core::cmp::PartialOrd::ge": "Ge",
    "core::cmp::PartialEq::eq": "Eq", "core::cmp::PartialEq::ne": "Ne",
}
_NEG = {"Lt": "Ge", "Le": "Gt", "Gt": "Le", "Ge": "Lt", "Eq": "Ne", "Ne": "Eq"}
_SWAP = {"Gt": "Lt", "Ge": "Le", "Lt": "Gt", "Le": "Ge", "Eq": "Eq", "Ne": "Ne"}


def cmp_nf(e, truth=True):
    """Normal form of a boolean comparison expression holding with value `truth`:
    returns (op, lhs, rhs) with op in {'Lt','Le','Eq','Ne'} (Gt/Ge are swapped), or None."""
    neg = not truth
    while True:
        e = strip(e, calls=set())
        if e[0] == "un" and e[1] == "Not":
            neg = not neg
            e = e[2]
            continue
        break
    op = None
    if e[0] == "bin" and e[1] in _NEG:
        op, a, b = e[1], e[2], e[3]
    elif e[0] == "call" and len(e[2]) == 2 and ("PartialOrd" in e[1] or "PartialEq" in e[1]):
        name = e[1].rsplit("::", 1)[-1]
        op = {"lt": "Lt", "le": "Le", "gt": "Gt", "ge": "Ge", "eq": "Eq", "ne": "Ne"}.get(name)
        a, b = e[2]
    if op is None:
        return None
    if neg:
        op = _NEG[op]
    if op in ("Gt", "Ge"):
        op = _SWAP[op]
        a, b = b, a
    return (op, a, b)


# --------------------------------------------------------------------------


def _adt_shape(a, selfpath):
    """shape of a type for rename matching: kind, variant names (enums), field types in order with the type's own
    path abstracted; field names are not part of it"""
    rx = re.compile(r"(?<![A-Za-z0-9_:])" + re.escape(selfpath) + r"(?![A-Za-z0-9_])")
    return json.dumps([a.get("kind"), [[("" if a.get("kind") != "enum" else v["name"]), [rx.sub("Self", f["ty"]) for f in v["fields"]]] for v in a.get("variants", [])]])


def canonicalise_names(facts):
    """Private items that were merely renamed get their baseline names back before any rule runs.

    rules/baseline_adts.json and rules/baseline_fns.json record the types and functions of the pinned tree.  A type that
    is not in the baseline while exactly one baseline type of the same module with the same shape (kind, variants, field
    types in order) has vanished is that type under a new name; likewise a non-trait function with the same parent and
    the same signature as exactly one vanished function.  Fields of a struct that kept its field types but not its
    field names are mapped positionally.  The renames are applied to the fact file itself (paths are replaced as whole
    path tokens), so every rule, allow-list key and finding key sees the names it was written for.  Nothing is decided
    by this step: the bodies analysed are the current ones."""
    here = os.path.join(os.path.dirname(os.path.dirname(os.path.abspath(__file__))), "rules")
    pa, pf = os.path.join(here, "baseline_adts.json"), os.path.join(here, "baseline_fns.json")
    if facts.get("meta", {}).get("crate") != "log4rs" or not (os.path.exists(pa) and os.path.exists(pf)):
        return facts, {}
    base_adts, base_fns = json.load(open(pa)), json.load(open(pf))
    renames = {}

    def parent(p):
        return p.rsplit("::", 1)[0] if "::" in p else ""

    def apply_paths(facts, mapping):
        if not mapping:
            return facts
        txt = json.dumps(facts)
        for new, old in sorted(mapping.items(), key=lambda kv: -len(kv[0])):
            n_, o_ = json.dumps(new)[1:-1], json.dumps(old)[1:-1]
            # a crate-root item is a bare identifier: it must not be the tail of a longer path
            before = r"(?<![A-Za-z0-9_])" if "::" in new else r"(?<![A-Za-z0-9_:])"
            txt = re.sub(before + re.escape(n_) + r"(?![A-Za-z0-9_])", lambda m: o_, txt)
        facts = json.loads(txt)
        # the constructor of a struct carries the struct's own short name
        short_ = {old: (new.rsplit("::", 1)[-1], old.rsplit("::", 1)[-1]) for new, old in mapping.items() if old in facts.get("adts", {})}
        if short_:
            for pth, (ns_, os_) in short_.items():
                for v in facts["adts"][pth].get("variants", []):
                    if v.get("name") == ns_ and facts["adts"][pth].get("kind") != "enum":
                        v["name"] = os_

            def fix(o):
                if isinstance(o, dict):
                    if o.get("adt") in short_ and o.get("variant") == short_[o["adt"]][0]:
                        o["variant"] = short_[o["adt"]][1]
                    for v in o.values():
                        fix(v)
                elif isinstance(o, list):
                    for v in o:
                        fix(v)
            fix(facts["fns"])
        return facts
    # 1. types
    cur = facts["adts"]
    gone = [p for p in base_adts if p not in cur]
    new = [p for p in cur if p not in base_adts]
    amap = {}
    if gone and new:
        gs = {}
        for g in gone:
            gs.setdefault((parent(g), _adt_shape(base_adts[g], g)), []).append(g)
        ns = {}
        for n in new:
            ns.setdefault((parent(n), _adt_shape(cur[n], n)), []).append(n)
        for k, nl in ns.items():
            if len(nl) == 1 and len(gs.get(k, [])) == 1:
                amap[nl[0]] = gs[k][0]
    if amap:
        facts = apply_paths(facts, amap)
        renames.update(amap)
    # 2. functions (after the type renames, so that signatures and impl paths agree again)
    curf = {p: d for p, d in facts["fns"].items() if d.get("kind") in ("Fn", "AssocFn")}
    gone = [p for p in base_fns if p not in curf]
    new = [p for p, d in curf.items() if p not in base_fns and not d.get("impl_trait")]
    fmap = {}
    if gone and new:
        gs = {}
        for g in gone:
            gs.setdefault((parent(g), _norm_sig(base_fns[g])), []).append(g)
        ns = {}
        for n in new:
            ns.setdefault((parent(n), _norm_sig(curf[n].get("sig", ""))), []).append(n)
        for k, nl in ns.items():
            if len(nl) == 1 and len(gs.get(k, [])) == 1:
                fmap[nl[0]] = gs[k][0]
    if fmap:
        facts = apply_paths(facts, fmap)
        renames.update(fmap)
    # 2b. variants of enums that kept their variants' positions and payload types
    vmap = {}
    for pth, a in facts["adts"].items():
        b = base_adts.get(pth)
        if not b or a.get("kind") != "enum" or len(a.get("variants", [])) != len(b.get("variants", [])):
            continue
        va, vb = a["variants"], b["variants"]
        if {v["name"] for v in va} == {v["name"] for v in vb}:
            continue
        okv = all([f["ty"] for f in x["fields"]] == [f["ty"] for f in y["fields"]] for x, y in zip(va, vb))
        kept = sum(1 for x, y in zip(va, vb) if x["name"] == y["name"])
        if okv and kept >= len(va) - 2 and not ({x["name"] for x, y in zip(va, vb) if x["name"] != y["name"]} & {v["name"] for v in vb}):
            for x, y in zip(va, vb):
                if x["name"] != y["name"]:
                    vmap[(pth, x["name"])] = y["name"]
    if vmap:
        def vfix(o):
            if isinstance(o, dict):
                a_ = o.get("adt")
                if a_ is not None and (a_, o.get("variant")) in vmap:
                    o["variant"] = vmap[(a_, o["variant"])]
                if a_ is not None and isinstance(o.get("variants"), dict):
                    o["variants"] = {k: vmap.get((a_, v), v) for k, v in o["variants"].items()}
                if o.get("kind") == "enum" and "variant" in o and isinstance(o.get("ty"), str):
                    for (ap, nv), ov in vmap.items():
                        if o["variant"] == nv and ap in o["ty"]:
                            o["variant"] = ov
                for v in o.values():
                    vfix(v)
            elif isinstance(o, list):
                for i, v in enumerate(o):
                    if isinstance(v, dict) and "as" in v and len(v) == 1 and i + 1 < len(o) and isinstance(o[i + 1], dict) and (o[i + 1].get("adt"), v["as"]) in vmap:
                        v["as"] = vmap[(o[i + 1]["adt"], v["as"])]
                    vfix(v)
        vfix(facts["fns"])
        for (pth, n), o in vmap.items():
            for v in facts["adts"][pth]["variants"]:
                if v["name"] == n:
                    v["name"] = o
            renames["%s::%s" % (pth, n)] = "%s::%s" % (pth, o)
    # 3. fields of structs that kept their field types
    fld = {}
    for pth, a in facts["adts"].items():
        b = base_adts.get(pth)
        if not b or a.get("kind") != "struct" or len(a.get("variants", [])) != 1 or len(b.get("variants", [])) != 1:
            continue
        fa, fb = a["variants"][0]["fields"], b["variants"][0]["fields"]
        if len(fa) != len(fb) or [x["ty"] for x in fa] != [x["ty"] for x in fb]:
            continue
        for x, y in zip(fa, fb):
            if x["name"] != y["name"]:
                fld[(pth, x["name"])] = y["name"]
    if fld:
        def walk_json(o):
            if isinstance(o, dict):
                if "f" in o and "adt" in o and (o["adt"], o["f"]) in fld:
                    o["f"] = fld[(o["adt"], o["f"])]
                if o.get("k") == "agg" and o.get("agg") == "adt" and "field_names" in o:
                    o["field_names"] = [fld.get((o.get("adt"), n), n) for n in o["field_names"]]
                for v in o.values():
                    walk_json(v)
            elif isinstance(o, list):
                for v in o:
                    walk_json(v)
        walk_json(facts["fns"])
        for (pth, n), o in fld.items():
            for x in facts["adts"][pth]["variants"][0]["fields"]:
                if x["name"] == n:
                    x["name"] = o
            renames["%s.%s" % (pth, n)] = "%s.%s" % (pth, o)
    return facts, renames


class Program:
    def __init__(self, facts):
        facts, self.renamed = canonicalise_names(facts)
        self.facts = facts
        self.meta = facts["meta"]
        self.adts = facts["adts"]
        self.impls = facts["impls"]
        self.traits = facts["traits"]
        self.consts = facts["consts"]
        self.fns = {p: Fn(self, p, d) for p, d in facts["fns"].items()}
        self._cg = None
        self.inlined_helpers = []
        self._inline_new_helpers()

    def _inline_new_helpers(self):
        """Private functions that do not exist in the frozen baseline decomposition (rules/baseline_fns.json)
        are treated as freshly extracted helpers and spliced into their callers; a function that merely
        replaced a vanished baseline function with the same signature and parent is a rename and is kept."""
        import json as _json, os as _os
        bp = _os.path.join(_os.path.dirname(_os.path.dirname(_os.path.abspath(__file__))), "rules", "baseline_fns.json")
        if not _os.path.exists(bp) or self.meta.get("crate") != "log4rs":
            return
        base = _json.load(open(bp))
        cur = {p: f for p, f in self.fns.items() if f.kind in ("Fn", "AssocFn")}
        new = [p for p, f in cur.items() if p not in base and not f.d.get("impl_trait") and not (f.vis or "").startswith("Public")]
        if not new:
            return
        gone = [p for p in base if p not in cur]

        def parent(p):
            return p.rsplit("::", 1)[0]
        gone_sigs = {(parent(p), _norm_sig(base[p])) for p in gone}
        helpers = set()
        for p in new:
            if (parent(p), _norm_sig(cur[p].d.get("sig", ""))) in gone_sigs:
                continue   # rename of an existing helper
            helpers.add(p)
        if not helpers:
            return
        self.inlined_helpers = sorted(helpers)
        for p in list(self.fns):
            f = self.fns[p]
            if p in helpers:
                continue
            if any(c.t.get("resolved") in helpers for c in f.calls(reachable_only=False)):
                self.fns[p] = inline_private_helpers(self, f, only=helpers, depth=3)
        # a helper whose every use is a (now spliced) direct call is represented completely by its
        # callers: hide it so whole-program site scans see each construct once, in its caller.
        still = set()
        for p, f in self.fns.items():
            if p in helpers:
                continue
            for b in f.blocks:
                t = b["term"]
                if t["k"] == "call" and (t.get("resolved") in helpers or t.get("decl") in helpers):
                    still.add(t.get("resolved") if t.get("resolved") in helpers else t.get("decl"))
                ops = list(t.get("args", [])) if t["k"] == "call" else []
                for s in b["stmts"]:
                    if s["k"] == "assign":
                        ops.extend(_rv_operands(s["rv"]))
                for op in ops:
                    c = op.get("const") if isinstance(op, dict) else None
                    if c and c.get("kind") == "fn":
                        for k in ("path", "resolved"):
                            if c.get(k) in helpers:
                                still.add(c[k])
        # helpers only used by helpers that stay visible must stay too
        changed = True
        while changed:
            changed = False
            for h in list(still):
                for c in self.fns[h].calls(reachable_only=False):
                    r = c.t.get("resolved")
                    if r in helpers and r not in still:
                        still.add(r)
                        changed = True
        # a new function that stays visible (it is passed around as a value, e.g. `Lazy::new(init_fn)`) is a caller too:
        # the helpers it calls are spliced into it
        for h in sorted(still):
            if any(c.t.get("resolved") in helpers and c.t.get("resolved") != h for c in self.fns[h].calls(reachable_only=False)):
                self.fns[h] = inline_private_helpers(self, self.fns[h], only=helpers - {h}, depth=3)
        self.hidden_fns = {}
        for h in sorted(helpers - still):
            self.hidden_fns[h] = self.fns.pop(h)
        for q, f in self.fns.items():
            for key in ("closure_of", "closure_parent"):
                h = f.d.get(key)
                if h in self.hidden_fns:
                    hosts = [x for x, g in self.fns.items() if h in (getattr(g, "inlined", None) or ()) and g.kind != "Closure"]
                    if len(hosts) == 1:
                        f.d[key] = hosts[0]

    def fn(self, path):
        f = self.fns.get(path)
        if f is None:
            raise AnchorMissing("function %s not found" % path)
        STATS.setdefault("fns", set()).add(path)
        return f

    def fn_inl(self, path, wanted=None, depth=2):
        """fn(path) with private helpers (that contain calls matching `wanted`) inlined."""
        f = self.fn(path)
        key = (path, tuple(wanted) if wanted else None, depth)
        cache = self.__dict__.setdefault("_inl", {})
        if key not in cache:
            cache[key] = inline_private_helpers(self, f, wanted=wanted, depth=depth)
        return cache[key]

    def fn_loops(self, path):
        """fn(path) with iterator-adaptor chains over closure literals / function items (map, filter_map, filter,
        inspect ... collect-into-Vec, for_each, fold) rewritten as the explicit loops they denote."""
        f = self.fn(path)
        cache = self.__dict__.setdefault("_loops", {})
        if path not in cache:
            cache[path] = desugar_option_calls(self, desugar_adaptors(self, inline_closure_calls(self, f)))
        return cache[path]

    def fn_results(self, path):
        """fn_loops(path) with `Result::map / and_then / map_err` over closure literals written out as the matches they denote
        as well (a value built inside `.open(..).map(|file| Appender { .. })` is then a value built in this function)."""
        f = self.fn(path)
        cache = self.__dict__.setdefault("_results", {})
        if path not in cache:
            cache[path] = desugar_option_calls(self, desugar_adaptors(self, inline_closure_calls(self, f), results=True))
        return cache[path]

    def fn_threaded(self, path):
        """fn_loops(path) with jump threading applied in any case: a flag set to a constant on each exit of a scan and tested
        afterwards (`let ok = loop { .. break true .. break false }; if ok { .. }`) becomes the direct edges."""
        cache = self.__dict__.setdefault("_threaded", {})
        if path not in cache:
            f = self.fn_loops(path)
            blocks = [_copy.copy(b) for b in f.blocks]
            _thread_jumps(blocks)
            d = {k: v for k, v in f.d.items() if k not in ("blocks",)}
            d["blocks"] = blocks
            d["locals"] = list(f.locals)
            d["arg_count"] = f.nargs
            nf = Fn(self, f.path, d)
            nf.desugared = list(getattr(f, "desugared", []) or [])
            nf.inlined = list(getattr(f, "inlined", []) or [])
            cache[path] = nf
        return cache[path]

    def fn_unrolled(self, path):
        """fn_loops(path) with loops over literal tables (array aggregates, decoded constant arrays) unrolled element by element"""
        from . import unroll
        cache = self.__dict__.setdefault("_unrolled", {})
        if path not in cache:
            cache[path] = unroll.unroll_literal_loops(self, self.fn_loops(path))
        return cache[path]

    def fn_closure_calls(self, path):
        """fn(path) with direct calls of closure literals built in it (`let f = |x| ..; f(a)`) spliced in: a local
        closure called by name is a local helper function."""
        f = self.fn(path)
        cache = self.__dict__.setdefault("_cc", {})
        if path not in cache:
            cache[path] = inline_closure_calls(self, f)
        return cache[path]

    def has_fn(self, path):
        return path in self.fns

    def find_fns(self, pat):
        return [f for p, f in self.fns.items() if _match(p, pat)]

    def adt(self, path):
        a = self.adts.get(path)
        if a is None:
            raise AnchorMissing("type %s not found" % path)
        return a

    def impls_of(self, trait):
        return [i for i in self.impls if i.get("trait") == trait]

    def trait_method_impls(self, method_path):
        """All local implementations of trait method `trait::path::method`."""
        tr, _, name = method_path.rpartition("::")
        out = []
        for i in self.impls_of(tr):
            for m in i["methods"]:
                if m.rsplit("::", 1)[-1] == name and m in self.fns:
                    out.append(self.fns[m])
        # default body
        if method_path in self.fns:
            out.append(self.fns[method_path])
        return out

    def closures_of(self, fnpath):
        owners = {fnpath} | set(getattr(self.fns.get(fnpath), "inlined", ()) or ())
        return [f for f in self.fns.values() if f.d.get("closure_of") in owners]

    # ---- call graph
    def _local_adts_rx(self):
        if getattr(self, "_adt_rx", None) is None:
            names = sorted(self.adts.keys(), key=len, reverse=True)
            self._adt_rx = re.compile("(?<![A-Za-z0-9_:])(" + "|".join(re.escape(n) for n in names) + ")(?![A-Za-z0-9_])") if names else None
            by = defaultdict(list)
            for i in self.impls:
                if i.get("self_adt") and i.get("self_local") and i.get("trait") and i["trait"] not in self.traits:
                    by[i["self_adt"]].append(i)
            self._ext_trait_impls = by
        return self._adt_rx

    def callees(self, f, cut_traits=(), impl_filter=None):
        """Local functions f may transfer control to.  Trait-object / generic
        dispatch on a trait in `cut_traits` is not followed, except to
        implementors accepted by impl_filter(self_ty, method_path)."""
        out = set()
        rx = self._local_adts_rx()
        for cs in f.calls(reachable_only=True):
            t = cs.t
            disp = t.get("dispatch")
            if disp == "static" and t.get("resolved_local") and t["resolved"] in self.fns:
                out.add(t["resolved"])
            elif t.get("decl_trait") and disp in ("virtual", "unresolved"):
                tr = t["decl_trait"]
                name = t["decl"].rsplit("::", 1)[-1]
                for i in self.impls_of(tr):
                    if tr in cut_traits:
                        if impl_filter is None or not impl_filter(i.get("self_ty") or "", tr):
                            continue
                    ms = [m for m in i["methods"] if m in self.fns]
                    hit = [m for m in ms if m.rsplit("::", 1)[-1] == name]
                    # a provided (default) method of an external trait may call any required method
                    out.update(hit if hit else ms)
                if t["decl"] in self.fns and tr not in cut_traits:
                    out.add(t["decl"])
            elif disp == "static" and t.get("decl_local") and t["decl"] in self.fns:
                out.add(t["decl"])
            if not t.get("resolved_local") and not t.get("decl_local") and rx is not None:
                # external generic code may call back into local impls of external traits
                # for any local type it is instantiated with (Iterator::next, Display::fmt, ...)
                txt = " ".join(t.get("generic_args", []))
                for adt in set(rx.findall(txt)):
                    for i in self._ext_trait_impls.get(adt, []):
                        for m in i["methods"]:
                            if m in self.fns:
                                out.add(m)
        # closures constructed here and function items referenced as values
        rb = f.reachable_blocks()
        for b in f.blocks:
            if b["id"] not in rb:
                continue
            for s in b["stmts"]:
                if s["k"] == "assign":
                    rv = s["rv"]
                    if rv["k"] == "agg" and rv.get("agg") in ("closure", "coroutine") and rv["closure"] in self.fns:
                        out.add(rv["closure"])
                    for op in _rv_operands(rv):
                        c = op.get("const")
                        if c and c.get("kind") == "fn":
                            if c.get("local") and c["path"] in self.fns:
                                out.add(c["path"])
                            if c.get("resolved_local") and c.get("resolved") in self.fns:
                                out.add(c["resolved"])
            t = b["term"]
            if t["k"] == "call":
                for op in t.get("args", []):
                    c = op.get("const")
                    if c and c.get("kind") == "fn":
                        if c.get("local") and c["path"] in self.fns:
                            out.add(c["path"])
                        if c.get("resolved_local") and c.get("resolved") in self.fns:
                            out.add(c["resolved"])
        return out

    def cone(self, entries, cut_traits=(), stop=(), impl_filter=None):
        """Local functions reachable from the entry paths."""
        seen = set()
        q = deque()
        for e in entries:
            p = e.path if isinstance(e, Fn) else e
            if p not in self.fns:
                raise AnchorMissing("cone entry %s not found" % p)
            if p not in seen:
                seen.add(p)
                q.append(p)
        while q:
            p = q.popleft()
            if p in stop:
                continue
            for c in self.callees(self.fns[p], cut_traits, impl_filter):
                if c not in seen:
                    seen.add(c)
                    q.append(c)
        return seen

    def callers_of(self, callee):
        out = []
        for f in self.fns.values():
            for cs in f.calls(callee):
                out.append(cs)
        return out

    def all_calls(self, callee, within=None):
        out = []
        for p, f in self.fns.items():
            if within is not None and p not in within:
                continue
            out.extend(f.calls(callee))
        return out

    def aggregates(self, adt, within=None):
        """All sites constructing `adt` with an aggregate: (fn, block, stmt_index, rv)."""
        out = []
        for p, f in self.fns.items():
            if within is not None and p not in within:
                continue
            rb = f.reachable_blocks()
            for b in f.blocks:
                if b["id"] not in rb:
                    continue
                for i, s in enumerate(b["stmts"]):
                    if s["k"] == "assign" and s["rv"]["k"] == "agg" and s["rv"].get("adt") == adt:
                        out.append((f, b["id"], i, s["rv"]))
        return out

    def field_writes(self, adt, field):
        """Assignments whose lhs ends in a projection to adt.field: (fn, block, idx, stmt)."""
        out = []
        for p, f in self.fns.items():
            rb = f.reachable_blocks()
            for b in f.blocks:
                if b["id"] not in rb:
                    continue
                for i, s in enumerate(b["stmts"]):
                    if s["k"] != "assign":
                        continue
                    pr = s["lhs"]["p"]
                    for e in pr:
                        if isinstance(e, dict) and e.get("f") == field and e.get("adt") == adt:
                            out.append((f, b["id"], i, s))
                            break
        return out

    def field_reads(self, adt, field):
        """Functions mentioning adt.field in any place (read or borrowed)."""
        out = []
        for p, f in self.fns.items():
            hit = False
            for b in f.blocks:
                for pl in _block_places(b):
                    for e in pl["p"]:
                        if isinstance(e, dict) and e.get("f") == field and e.get("adt") == adt:
                            hit = True
            if hit:
                out.append(f)
        return out


def _rv_operands(rv):
    k = rv["k"]
    if k in ("use", "cast", "un", "repeat"):
        return [rv["a"]]
    if k == "bin":
        return [rv["a"], rv["b"]]
    if k == "agg":
        return rv["fields"]
    return []


def _rv_places(rv):
    out = []
    for op in _rv_operands(rv):
        pl = op.get("copy") or op.get("move")
        if pl:
            out.append(pl)
    if rv["k"] in ("ref", "rawptr", "discr"):
        out.append(rv["place"])
    return out


def _block_places(b):
    out = []
    for s in b["stmts"]:
        if s["k"] == "assign":
            out.append(s["lhs"])
            out.extend(_rv_places(s["rv"]))
        elif s["k"] == "set_discr":
            out.append(s["lhs"])
    t = b["term"]
    if t["k"] == "call":
        for op in t.get("args", []):
            pl = op.get("copy") or op.get("move")
            if pl:
                out.append(pl)
        out.append(t["dest"])
    elif t["k"] == "switch":
        pl = t["discr"].get("copy") or t["discr"].get("move")
        if pl:
            out.append(pl)
    elif t["k"] == "drop":
        out.append(t["place"])
    return out


# --------------------------------------------------------------------------
# bounded inlining of private crate-local helpers (so that extracting a helper
# does not change a rule's verdict)

import copy as _copy


def _renum_place(pl, lo):
    out = {"l": pl["l"] + lo, "p": []}
    for e in pl["p"]:
        if isinstance(e, dict) and "idx" in e:
            e = dict(e)
            e["idx"] = e["idx"] + lo
        out["p"].append(e)
    return out


def _renum_operand(op, lo):
    if "copy" in op:
        return {"copy": _renum_place(op["copy"], lo)}
    if "move" in op:
        return {"move": _renum_place(op["move"], lo)}
    return op


def _renum_rv(rv, lo):
    rv = dict(rv)
    for k in ("a", "b"):
        if k in rv and isinstance(rv[k], dict):
            rv[k] = _renum_operand(rv[k], lo)
    if "place" in rv:
        rv["place"] = _renum_place(rv["place"], lo)
    if "fields" in rv:
        rv["fields"] = [_renum_operand(f, lo) for f in rv["fields"]]
    return rv


def _renum_block(b, lo, bo, ret_to, dest, origin=None):
    nb = {"id": b["id"] + bo, "stmts": []}
    if b.get("origin") or origin:
        nb["origin"] = b.get("origin") or origin
    if b.get("cleanup"):
        nb["cleanup"] = True
    for s in b["stmts"]:
        s = dict(s)
        if s["k"] == "assign":
            s["lhs"] = _renum_place(s["lhs"], lo)
            s["rv"] = _renum_rv(s["rv"], lo)
        elif s["k"] == "set_discr":
            s["lhs"] = _renum_place(s["lhs"], lo)
        elif s["k"] == "dead":
            s["l"] = s["l"] + lo
        nb["stmts"].append(s)
    t = dict(b["term"])
    k = t["k"]
    if k == "return":
        nb["stmts"].append({"k": "assign", "lhs": dest, "rv": {"k": "use", "a": {"move": {"l": lo, "p": []}}}, "at": t.get("at")})
        t = {"k": "goto", "target": ret_to, "at": t.get("at")} if ret_to is not None else {"k": "unreachable", "at": t.get("at")}
    else:
        if "target" in t and isinstance(t["target"], int):
            t["target"] = t["target"] + bo
        if "otherwise" in t:
            t["otherwise"] = t["otherwise"] + bo
        if "arms" in t:
            t["arms"] = [dict(a, target=a["target"] + bo) for a in t["arms"]]
        if isinstance(t.get("unwind"), int):
            t["unwind"] = t["unwind"] + bo
        if "discr" in t:
            t["discr"] = _renum_operand(t["discr"], lo)
        if "args" in t:
            t["args"] = [_renum_operand(a, lo) for a in t["args"]]
        if "dest" in t:
            t["dest"] = _renum_place(t["dest"], lo)
        if "place" in t:
            t["place"] = _renum_place(t["place"], lo)
        if "cond" in t:
            t["cond"] = _renum_operand(t["cond"], lo)
        if "ops" in t:
            t["ops"] = [_renum_operand(o, lo) for o in t["ops"]]
        if "func" in t and isinstance(t["func"], dict):
            t["func"] = _renum_operand(t["func"], lo)
    nb["term"] = t
    return nb


def _norm_sig(sig):
    return re.sub(r"'[a-z_0-9]+", "'_", sig or "")


def inline_private_helpers(prog, fn, wanted=None, depth=2, max_blocks=120, only=None):
    """Synthetic Fn with calls to private, non-recursive, crate-local helper functions spliced in.
    `wanted`: only helpers whose (static) cone contains a call matching one of these callee patterns
    are inlined; None = every eligible helper."""
    d = {k: v for k, v in fn.d.items() if k not in ("blocks", "locals")}
    locals_ = list(fn.locals)
    blocks = [_copy.copy(b) for b in fn.blocks]
    inlined = []

    def eligible(path, stack):
        cf = prog.fns.get(path)
        if cf is None or path in stack or path == fn.path:
            return None
        if only is not None and path not in only:
            return None
        if cf.kind not in ("Fn", "AssocFn") or cf.d.get("impl_trait"):
            return None
        if (cf.vis or "").startswith("Public"):
            return None
        if cf.n > max_blocks:
            return None
        if wanted is not None:
            # direct static call closure only (no trait dispatch, no callbacks)
            seen, todo = {path}, [path]
            while todo:
                x = todo.pop()
                for c in prog.fns[x].calls():
                    t = c.t
                    if t.get("dispatch") == "static" and t.get("resolved_local") and t["resolved"] in prog.fns and t["resolved"] not in seen \
                            and prog.fns[t["resolved"]].kind in ("Fn", "AssocFn") and not prog.fns[t["resolved"]].d.get("impl_trait"):
                        seen.add(t["resolved"])
                        todo.append(t["resolved"])
            if not any(prog.fns[x].calls(w) for x in seen for w in wanted):
                return None
        return cf

    work = [(i, (fn.path,), 0) for i in range(len(blocks))]
    while work:
        bi, stack, dep = work.pop()
        t = blocks[bi]["term"]
        if t["k"] != "call" or t.get("dispatch") != "static" or not t.get("resolved_local") or dep >= depth:
            continue
        cf = eligible(t["resolved"], stack)
        if cf is None:
            continue
        lo, bo = len(locals_), len(blocks)
        locals_.extend(cf.locals)
        nb = dict(blocks[bi])
        nb["stmts"] = list(nb["stmts"])
        for i, a in enumerate(t.get("args", [])):
            nb["stmts"].append({"k": "assign", "lhs": {"l": lo + 1 + i, "p": []}, "rv": {"k": "use", "a": a}, "at": t.get("at")})
        nb["term"] = {"k": "goto", "target": bo, "at": t.get("at")}
        blocks[bi] = nb
        for cb in cf.blocks:
            blocks.append(_renum_block(cb, lo, bo, t.get("target"), t["dest"], origin=cf.path))
        inlined.append(cf.path)
        for j in range(bo, len(blocks)):
            work.append((j, stack + (cf.path,), dep + 1))
    if not inlined:
        return fn
    _devirtualise(prog, blocks)
    _thread_jumps(blocks)
    d["locals"] = locals_
    d["blocks"] = blocks
    d["arg_count"] = fn.nargs
    nf = Fn(prog, fn.path, d)
    nf.inlined = inlined
    return nf


def _devirtualise(prog, blocks):
    """After splicing, a helper's function-pointer parameter is a local assigned once from a function item
    (`group(args, params, FormattedChunk::Highlight)`): the call through it is a call of that item; when the item is a
    tuple-variant constructor of a local type, the call is the aggregate it builds."""
    defs = {}
    for b in blocks:
        if b.get("cleanup"):
            continue
        for st in b["stmts"]:
            if st["k"] == "assign" and not st["lhs"]["p"]:
                defs.setdefault(st["lhs"]["l"], []).append(st["rv"])
        t = b["term"]
        if t["k"] == "call" and not t["dest"]["p"]:
            defs.setdefault(t["dest"]["l"], []).append(None)
    n = 0
    for i, b in enumerate(blocks):
        t = b["term"]
        if b.get("cleanup") or t["k"] != "call" or t.get("dispatch") != "fnptr" or "func" not in t or t.get("target") is None:
            continue
        pl = t["func"].get("copy") or t["func"].get("move")
        item = None
        for _ in range(8):
            if pl is None or pl["p"]:
                break
            ds = defs.get(pl["l"], [])
            if len(ds) != 1 or ds[0] is None:
                break
            rv = ds[0]
            if rv["k"] == "use":
                pl = rv["a"].get("copy") or rv["a"].get("move")
                continue
            if rv["k"] == "cast" and "ReifyFnPointer" in (rv.get("kind") or "") and rv["a"].get("const", {}).get("kind") == "fn":
                item = rv["a"]["const"]
            break
        if item is None:
            continue
        path = item.get("path") or ""
        par, _, last = path.rpartition("::")
        adt = prog.adts.get(par)
        nb = dict(b)
        if adt is not None and any(v["name"] == last for v in adt.get("variants", [])) and path not in prog.fns:
            v = [v for v in adt["variants"] if v["name"] == last][0]
            if len(v["fields"]) != len(t["args"]):
                continue
            nb["stmts"] = list(b["stmts"]) + [{"k": "assign", "lhs": t["dest"], "rv": {"k": "agg", "agg": "adt", "adt": par, "adt_local": True, "variant": last,
                                                                                         "field_names": [f_["name"] for f_ in v["fields"]], "fields": list(t["args"])}, "at": t.get("at")}]
            nb["term"] = {"k": "goto", "target": t["target"], "at": t.get("at")}
        elif item.get("resolved_local") and (item.get("resolved") or path) in prog.fns:
            tgt = item.get("resolved") or path
            nt = {k_: v_ for k_, v_ in t.items() if k_ != "func"}
            nt.update({"decl": path, "decl_local": True, "dispatch": "static", "resolved": tgt, "resolved_local": True, "generic_args": []})
            nb["term"] = nt
        else:
            continue
        blocks[i] = nb
        n += 1
    return n


# --------------------------------------------------------------------------
# jump threading after inlining: a helper that returns a constant on each of its
# exits (`return true` / `return false`) followed by a switch on that value in
# the caller is the same program as branching directly; the spliced CFG is
# rewritten so (tail duplication of the statement-only chain between the join
# and the switch) and every path analysis sees the direct branch.

_PURE_RV = ("use", "un", "cast", "discr")


def _succ_fields(t):
    out = []
    k = t["k"]
    if k == "goto":
        out.append(("target", None))
    elif k == "switch":
        out.extend(("arms", i) for i in range(len(t["arms"])))
        out.append(("otherwise", None))
    elif k in ("drop", "assert"):
        out.append(("target", None))
    elif k == "call" and t.get("target") is not None:
        out.append(("target", None))
    return out


def _get_succ(t, fld):
    return t["arms"][fld[1]]["target"] if fld[0] == "arms" else t[fld[0]]


def _set_succ(t, fld, v):
    if fld[0] == "arms":
        t["arms"] = [dict(a) for a in t["arms"]]
        t["arms"][fld[1]]["target"] = v
    else:
        t[fld[0]] = v


def _op_const(op):
    c = op.get("const") if isinstance(op, dict) else None
    if c is None:
        return None
    if c.get("kind") == "bool":
        return 1 if c.get("value") else 0
    if c.get("kind") == "int" and isinstance(c.get("value"), int):
        return c["value"]
    return None


def _thread_jumps(blocks, max_new=240, rounds=48):
    TRY_BRANCH = "core::ops::try_trait::Try::branch"

    def simple_block(b):
        t = b["term"]
        if b.get("cleanup"):
            return False
        if t["k"] == "call":
            if t.get("decl") != TRY_BRANCH or t.get("target") is None:
                return False
        elif t["k"] not in ("goto", "drop", "switch"):
            return False
        for st in b["stmts"]:
            if st["k"] == "assign":
                if st["lhs"]["p"] or st["rv"]["k"] not in _PURE_RV + ("agg",):     # building a value has no effect: the block may be duplicated
                    return False
            elif st["k"] == "set_discr":
                return False
        return True

    def place_val(env, pl):
        v = env.get(pl["l"])
        for e in pl["p"]:
            if v is None or not isinstance(v, tuple):
                return None
            if isinstance(e, dict) and "as" in e:
                if v[1] != e["as"]:
                    return None
            elif isinstance(e, dict) and "f" in e:
                try:
                    v = v[2][int(e["f"])]
                except Exception:
                    return None
            else:
                return None
        return v

    def val(env, op):
        c = _op_const(op)
        if c is not None:
            return c
        pl = op.get("copy") or op.get("move")
        if pl is None:
            return None
        return place_val(env, pl)

    # a local whose address is taken mutably (a `&mut` borrow, a raw pointer, a unique closure capture) can change
    # behind the interpreter's back: never tracked
    escaped = set()
    for b_ in blocks:
        for st_ in b_["stmts"]:
            if st_["k"] == "assign" and st_["rv"]["k"] in ("ref", "rawptr") and (st_["rv"].get("mut") or st_["rv"]["k"] == "rawptr"):
                escaped.add(st_["rv"]["place"]["l"])

    def run(env, b):
        """interpret block b over env: local -> int constant | ('variant', name, [payload values])"""
        for st in b["stmts"]:
            if st["k"] != "assign":
                continue
            if st["lhs"]["p"] or st["lhs"]["l"] in escaped:
                env[st["lhs"]["l"]] = None
                continue
            rv = st["rv"]
            v = None
            if rv["k"] == "use":
                v = val(env, rv["a"])
            elif rv["k"] == "un" and rv.get("op") == "Not" and rv.get("ty") == "bool":
                x = val(env, rv["a"])
                v = None if not isinstance(x, int) else (0 if x else 1)
            elif rv["k"] == "agg" and rv.get("agg") == "adt" and rv.get("variant"):
                v = ("variant", rv["variant"], [val(env, f) for f in rv.get("fields", [])])
            elif rv["k"] == "discr":
                x = place_val(env, rv["place"])
                if isinstance(x, tuple):
                    inv = {n: int(k) for k, n in (rv.get("variants") or {}).items()}
                    v = inv.get(x[1])
            env[st["lhs"]["l"]] = v
        t = b["term"]
        if t["k"] == "call":
            v = None
            if t.get("decl") == TRY_BRANCH and t.get("args"):
                x = val(env, t["args"][0])
                if isinstance(x, tuple) and x[1] in ("Ok", "Some"):
                    v = ("variant", "Continue", list(x[2][:1]))
                elif isinstance(x, tuple) and x[1] in ("Err", "None"):
                    v = ("variant", "Break", [("variant", x[1], list(x[2]))])
            elif t.get("decl") == "core::ops::try_trait::FromResidual::from_residual":
                # `?` on the failure edge: Result's residual is always an Err, Option's always None
                sty = t.get("self_ty") or ""
                if sty.startswith("core::result::Result<"):
                    v = ("variant", "Err", [None])
                elif sty.startswith("core::option::Option<"):
                    v = ("variant", "None", [])
            if not t["dest"]["p"]:
                env[t["dest"]["l"]] = v

    def tail_env(P, depth=12):
        """values known at the end of P (looking back through single-predecessor chains)"""
        chain = [P]
        cur = P
        while depth > 0:
            ps = sorted(set(preds.get(cur, [])))
            if len(ps) != 1 or ps[0] in chain:
                break
            cur = ps[0]
            chain.append(cur)
            depth -= 1
        env = {}
        for x in reversed(chain):
            run(env, blocks[x])
        return env

    added = 0
    for _ in range(rounds):
        preds = defaultdict(list)
        for b in blocks:
            if b.get("cleanup"):
                continue
            for fld in _succ_fields(b["term"]):
                preds[_get_succ(b["term"], fld)].append(b["id"])
        changed = False
        for S in list(blocks):
            if added >= max_new:
                break
            t = S["term"]
            if t["k"] != "switch" or S.get("cleanup") or not simple_block(S):
                continue
            pl = t["discr"].get("copy") or t["discr"].get("move")
            if pl is None or pl["p"]:
                continue
            def clone_for(P, chain, dest):
                base = len(blocks)
                for i, x in enumerate(chain):
                    nb = dict(blocks[x])
                    nb["id"] = base + i
                    nb["stmts"] = list(nb["stmts"])
                    nt = dict(nb["term"])
                    if x == S["id"]:
                        nt = {"k": "goto", "target": dest, "at": nt.get("at")}
                    else:
                        for fld in _succ_fields(nt):
                            if _get_succ(nt, fld) == chain[i + 1]:
                                _set_succ(nt, fld, base + i + 1)
                    nb["term"] = nt
                    blocks.append(nb)
                pt = dict(blocks[P]["term"])
                for fld in _succ_fields(pt):
                    if _get_succ(pt, fld) == chain[0]:
                        _set_succ(pt, fld, base)
                nbp = dict(blocks[P])
                nbp["term"] = pt
                blocks[P] = nbp
                return len(chain)

            def explore(chain):
                """find one predecessor path into `chain` on which the scrutinee is a known constant"""
                head = chain[0]
                hp = sorted(set(preds.get(head, [])))
                for P in hp:
                    if P in chain:
                        continue
                    env = tail_env(P)
                    for x in chain:
                        run(env, blocks[x])
                    v = env.get(pl["l"])
                    if isinstance(v, int):
                        # only worth it if some other path reaches S too (otherwise constant folding suffices)
                        hit = [a["target"] for a in t["arms"] if a["value"] == v]
                        return P, chain, (hit[0] if hit else t["otherwise"])
                for P in hp:
                    if P in chain or len(chain) >= 8:
                        continue
                    pb = blocks[P]
                    if simple_block(pb) and pb["term"]["k"] != "switch":
                        r_ = explore([P] + chain)
                        if r_:
                            return r_
                return None
            if len(set(preds.get(S["id"], []))) == 0:
                continue
            found = explore([S["id"]])
            if found:
                P, chain, dest = found
                # a single-path scrutinee needs no duplication when S has one predecessor chain only
                multi = any(len(set(preds.get(x, []))) > 1 for x in chain)
                if multi:
                    added += clone_for(P, chain, dest)
                    changed = True
                else:
                    # S is reached along this one path only: the switch folds to its taken edge
                    nb = dict(S)
                    nb["term"] = {"k": "goto", "target": dest, "at": t.get("at")}
                    blocks[S["id"]] = nb
                    changed = True
            if changed:
                break
        if not changed:
            break


# --------------------------------------------------------------------------
# iterator adaptor chains as loops
#
#   base.filter_map(|x| f(x)).collect::<Vec<_>>()      ==   let mut v = Vec::new(); for x in base { if let Some(y) = f(x) { v.push(y) } }
#   base.map(g).fold(init, h)                           ==   let mut a = init; for x in base { a = h(a, g(x)) }
#   base.for_each(|x| k(x))                             ==   for x in base { k(x) }
#
# The rewrite is a model of std's adaptors (trusted, like every other std contract used here); closure literals are
# spliced in, function items become calls.  Chains it does not understand are left untouched.

ITER = "core::iter::traits::iterator::Iterator::"
LAZY = ("map", "filter_map", "filter", "inspect")
CONSUMERS = ("collect", "for_each", "fold", "any", "all", "find", "find_map", "position", "nth", "count", "try_for_each", "partition")
#   base.partition(p)  (into two Vecs)  ==  let (mut a, mut b) = (Vec::new(), Vec::new()); for x in base { if p(&x) { a.push(x) } else { b.push(x) } }; (a, b)
#   v.extend(base.map(f)..)  (v a Vec)  ==  for x in base.map(f).. { v.push(x) }
EXTEND = "core::iter::traits::collect::Extend::extend"
BY_REF_CONSUMERS = ("any", "all", "find", "find_map", "position", "nth", "try_for_each")
PRED_CONSUMERS = ("for_each", "any", "all", "find", "find_map", "position", "try_for_each", "partition")
#   base.try_for_each(f)  (Result)  ==   loop { match base.next() { None => break Ok(()), Some(x) => { let r = f(x); if r.is_err() { break r } } } }
#   base.any(p)        ==   loop { match base.next() { None => break false, Some(x) => if p(x) { break true } } }      (all: dually)
#   base.find(p)       ==   loop { match base.next() { None => break None, Some(x) => if p(&x) { break Some(x) } } }
#   base.find_map(f)   ==   loop { match base.next() { None => break None, Some(x) => if let Some(y) = f(x) { break Some(y) } } }
#   base.position(p)   ==   let mut i = 0; loop { match base.next() { None => break None, Some(x) => if p(x) { break Some(i) } else { i += 1 } } }
#   base.nth(n)        ==   let mut k = n; loop { match base.next() { None => break None, Some(x) => if k == 0 { break Some(x) } else { k -= 1 } } }
#   base.count()       ==   let mut c = 0; loop { match base.next() { None => break c, Some(_) => c += 1 } }


def _vec_elem(ty):
    """T of the first `alloc::vec::Vec<T..>` in a type's text"""
    ty = str(ty or "")
    i = ty.find("alloc::vec::Vec<")
    if i < 0:
        return "?"
    j = i + len("alloc::vec::Vec<")
    depth, k = 1, j
    while k < len(ty) and depth:
        if ty[k] == "<":
            depth += 1
        elif ty[k] == ">":
            depth -= 1
        elif ty[k] == "," and depth == 1:
            break
        k += 1
    if depth == 0:
        return ty[j:k - 1].strip()
    return ty[j:k].strip() if (k < len(ty) and ty[k] == ",") else "?"


def _as_copy(op):
    pl = op.get("copy") or op.get("move")
    return {"copy": pl} if pl is not None else op


def desugar_adaptors(prog, fn, results=False, _depth=0):
    blocks = [_copy.copy(b) for b in fn.blocks]
    locals_ = list(fn.locals)
    done = []

    def new_local(ty="?"):
        locals_.append(ty)
        return len(locals_) - 1

    def new_block(stmts, term, at=None):
        b = {"id": len(blocks), "stmts": stmts, "term": term, "synthetic": True}
        blocks.append(b)
        return b["id"]

    def assign(l, rv, at=None):
        return {"k": "assign", "lhs": {"l": l, "p": []}, "rv": rv, "at": at}

    def opt_some(op):
        return {"k": "agg", "agg": "adt", "adt": "core::option::Option", "adt_local": False, "variant": "Some", "field_names": ["0"], "fields": [op]}

    def opt_none():
        return {"k": "agg", "agg": "adt", "adt": "core::option::Option", "adt_local": False, "variant": "None", "field_names": [], "fields": []}

    def single_def_call(l):
        hits = [b for b in blocks if not b.get("cleanup") and b["term"]["k"] == "call" and b["term"]["dest"]["l"] == l and not b["term"]["dest"]["p"]]
        stm = [1 for b in blocks for st in b["stmts"] if st["k"] == "assign" and st["lhs"]["l"] == l]
        return hits[0] if len(hits) == 1 and not stm else None

    def callable_of(op):
        c = op.get("const")
        if c is not None:
            return ("fn", c) if c.get("kind") == "fn" else None
        pl = op.get("copy") or op.get("move")
        if pl is None or pl["p"]:
            return None
        defs = [(b, st) for b in blocks if not b.get("cleanup") for st in b["stmts"] if st["k"] == "assign" and st["lhs"]["l"] == pl["l"] and not st["lhs"]["p"]]
        if len(defs) == 1 and defs[0][1]["rv"]["k"] == "agg" and defs[0][1]["rv"].get("agg") == "closure" and defs[0][1]["rv"]["closure"] in prog.fns:
            return ("closure", defs[0][1]["rv"]["closure"], pl["l"])
        return None

    def emit_call(callable_, args, dest, target, at, by_ref=()):
        """blocks computing dest = callable(args...) then going to `target`; returns entry block id"""
        if callable_[0] == "fn":
            c = callable_[1]
            path = c.get("resolved") if c.get("resolved_local") else c.get("path")
            par_, _, vn_ = (path or "").rpartition("::")
            adt_ = prog.adts.get(par_) if path not in prog.fns else None
            if adt_ is not None and any(v_.get("name") == vn_ for v_ in adt_.get("variants", [])):
                # a tuple-variant constructor used as a function (`.map(ConfigError::NonexistentAppender)`): the value it builds
                return new_block([assign(dest, {"k": "agg", "agg": "adt", "adt": par_, "adt_local": True, "variant": vn_, "field_names": [str(i_) for i_ in range(len(args))],
                                                "fields": [{"move": {"l": a, "p": []}} for a in args]}, at)], {"k": "goto", "target": target, "at": at})
            t = {"k": "call", "decl": c.get("path"), "decl_local": bool(c.get("local")), "dispatch": "static", "resolved": path,
                 "resolved_local": bool(c.get("resolved_local") or c.get("local")), "args": [{"move": {"l": a, "p": []}} for a in args], "arg_tys": [], "generic_args": [],
                 "dest": {"l": dest, "p": []}, "target": target, "unwind": None, "at": at}
            return new_block([], t)
        _, cpath, clocal = callable_
        cf = prog.fns[cpath]
        lo, bo = len(locals_), len(blocks) + 1
        pre = []
        envty = cf.locals[1] if len(cf.locals) > 1 else ""
        if envty.startswith("&"):
            pre.append(assign(lo + 1, {"k": "ref", "mut": envty.startswith("&mut"), "place": {"l": clocal, "p": []}}, at))
        else:
            pre.append(assign(lo + 1, {"k": "use", "a": {"copy": {"l": clocal, "p": []}}}, at))
        for i, a in enumerate(args):
            pre.append(assign(lo + 2 + i, {"k": "use", "a": {"move": {"l": a, "p": []}}}, at))
        locals_.extend(cf.locals)
        entry = new_block(pre, {"k": "goto", "target": bo, "at": at})
        assert entry + 1 == bo
        for cb in cf.blocks:
            nb = _renum_block(cb, lo, bo, target, {"l": dest, "p": []}, origin=cpath)
            nb["synthetic"] = True
            blocks.append(nb)
        return entry

    for bi in range(len(fn.blocks)):
        t = blocks[bi]["term"]
        if not blocks[bi].get("cleanup") and t["k"] == "call" and t.get("decl") in ("core::option::Option::<T>::map", "core::option::Option::<T>::and_then") \
                and t.get("target") is not None and not t["dest"]["p"] and len(t.get("args", [])) == 2:
            #   o.map(f)       ==  match o { Some(x) => Some(f(x)), None => None }
            #   o.and_then(f)  ==  match o { Some(x) => f(x), None => None }
            ca = callable_of(t["args"][1])
            o_ = t["args"][0].get("move") or t["args"][0].get("copy")
            if ca is not None and o_ is not None:
                at = t.get("at")
                dest = t["dest"]["l"]
                dd, x_, r_ = new_local("isize"), new_local(), new_local()
                unreach = new_block([], {"k": "unreachable", "at": at})
                if t["decl"].endswith("::map"):
                    after = new_block([assign(dest, opt_some({"move": {"l": r_, "p": []}}), at)], {"k": "goto", "target": t["target"], "at": at})
                else:
                    after = new_block([assign(dest, {"k": "use", "a": {"move": {"l": r_, "p": []}}}, at)], {"k": "goto", "target": t["target"], "at": at})
                call_entry = emit_call(ca, [x_], r_, after, at)
                some = new_block([assign(x_, {"k": "use", "a": {"move": {"l": o_["l"], "p": list(o_["p"]) + [{"as": "Some"}, {"f": "0", "adt": "core::option::Option"}]}}}, at)],
                                 {"k": "goto", "target": call_entry, "at": at})
                none = new_block([assign(dest, opt_none(), at)], {"k": "goto", "target": t["target"], "at": at})
                sw = new_block([assign(dd, {"k": "discr", "place": o_, "ty": "core::option::Option<?>", "adt": "core::option::Option", "variants": {"0": "None", "1": "Some"}}, at)],
                               {"k": "switch", "discr": {"move": {"l": dd, "p": []}}, "discr_ty": "isize", "arms": [{"value": 0, "target": none}, {"value": 1, "target": some}], "otherwise": unreach, "at": at})
                nb = dict(blocks[bi])
                nb["term"] = {"k": "goto", "target": sw, "at": at}
                blocks[bi] = nb
                done.append("%s@bb%d" % (t["decl"].rsplit("::", 1)[-1], bi))
            continue
        if results and not blocks[bi].get("cleanup") and t["k"] == "call" and t.get("decl") in ("core::result::Result::<T, E>::map", "core::result::Result::<T, E>::and_then", "core::result::Result::<T, E>::map_err") \
                and t.get("target") is not None and not t["dest"]["p"] and len(t.get("args", [])) == 2:
            #   r.map(f)      ==  match r { Ok(x) => Ok(f(x)), Err(e) => Err(e) }
            #   r.and_then(f) ==  match r { Ok(x) => f(x),     Err(e) => Err(e) }
            #   r.map_err(f)  ==  match r { Ok(x) => Ok(x),    Err(e) => Err(f(e)) }
            ca = callable_of(t["args"][1])
            o_ = t["args"][0].get("move") or t["args"][0].get("copy")
            if ca is not None and ca[0] != "fn" and o_ is not None:
                at = t.get("at")
                dest = t["dest"]["l"]
                which = t["decl"].rsplit("::", 1)[-1]
                dd, x_, r_ = new_local("isize"), new_local(), new_local()

                def res_agg2(variant, op):
                    return {"k": "agg", "agg": "adt", "adt": "core::result::Result", "adt_local": False, "variant": variant, "field_names": ["0"], "fields": [op]}
                unreach = new_block([], {"k": "unreachable", "at": at})
                run_on = "Err" if which == "map_err" else "Ok"
                keep = "Ok" if which == "map_err" else "Err"
                if which == "and_then":
                    after = new_block([assign(dest, {"k": "use", "a": {"move": {"l": r_, "p": []}}}, at)], {"k": "goto", "target": t["target"], "at": at})
                else:
                    after = new_block([assign(dest, res_agg2(run_on, {"move": {"l": r_, "p": []}}), at)], {"k": "goto", "target": t["target"], "at": at})
                call_entry = emit_call(ca, [x_], r_, after, at)
                runb = new_block([assign(x_, {"k": "use", "a": {"move": {"l": o_["l"], "p": list(o_["p"]) + [{"as": run_on}, {"f": "0", "adt": "core::result::Result"}]}}}, at)],
                                 {"k": "goto", "target": call_entry, "at": at})
                keepb = new_block([assign(dest, res_agg2(keep, {"move": {"l": o_["l"], "p": list(o_["p"]) + [{"as": keep}, {"f": "0", "adt": "core::result::Result"}]}}), at)],
                                  {"k": "goto", "target": t["target"], "at": at})
                arms = [{"value": 0, "target": runb if run_on == "Ok" else keepb}, {"value": 1, "target": runb if run_on == "Err" else keepb}]
                sw = new_block([assign(dd, {"k": "discr", "place": o_, "ty": "core::result::Result<?>", "adt": "core::result::Result", "variants": {"0": "Ok", "1": "Err"}}, at)],
                               {"k": "switch", "discr": {"move": {"l": dd, "p": []}}, "discr_ty": "isize", "arms": arms, "otherwise": unreach, "at": at})
                nb = dict(blocks[bi])
                nb["term"] = {"k": "goto", "target": sw, "at": at}
                blocks[bi] = nb
                done.append("result_%s@bb%d" % (which, bi))
                continue
        if not blocks[bi].get("cleanup") and t["k"] == "call" and t.get("decl") in ("core::option::Option::<T>::ok_or_else", "core::option::Option::<T>::ok_or") \
                and t.get("target") is not None and not t["dest"]["p"] and len(t.get("args", [])) == 2:
            #   o.ok_or_else(f)  ==  match o { Some(x) => Ok(x), None => Err(f()) }        o.ok_or(e)  ==  .. None => Err(e)
            lazy = t["decl"].endswith("ok_or_else")
            ca = callable_of(t["args"][1]) if lazy else None
            o_ = t["args"][0].get("move") or t["args"][0].get("copy")
            if o_ is not None and (ca is not None or not lazy):
                at = t.get("at")
                dest = t["dest"]["l"]
                dd, r_ = new_local("isize"), new_local()

                def res_agg(variant, op):
                    return {"k": "agg", "agg": "adt", "adt": "core::result::Result", "adt_local": False, "variant": variant, "field_names": ["0"], "fields": [op]}
                unreach = new_block([], {"k": "unreachable", "at": at})
                some = new_block([assign(dest, res_agg("Ok", {"move": {"l": o_["l"], "p": list(o_["p"]) + [{"as": "Some"}, {"f": "0", "adt": "core::option::Option"}]}}), at)],
                                 {"k": "goto", "target": t["target"], "at": at})
                if lazy:
                    after = new_block([assign(dest, res_agg("Err", {"move": {"l": r_, "p": []}}), at)], {"k": "goto", "target": t["target"], "at": at})
                    none = emit_call(ca, [], r_, after, at)
                else:
                    none = new_block([assign(dest, res_agg("Err", t["args"][1]), at)], {"k": "goto", "target": t["target"], "at": at})
                sw = new_block([assign(dd, {"k": "discr", "place": o_, "ty": "core::option::Option<?>", "adt": "core::option::Option", "variants": {"0": "None", "1": "Some"}}, at)],
                               {"k": "switch", "discr": {"move": {"l": dd, "p": []}}, "discr_ty": "isize", "arms": [{"value": 0, "target": none}, {"value": 1, "target": some}], "otherwise": unreach, "at": at})
                nb = dict(blocks[bi])
                nb["term"] = {"k": "goto", "target": sw, "at": at}
                blocks[bi] = nb
                done.append("%s@bb%d" % (t["decl"].rsplit("::", 1)[-1], bi))
            continue
        if not blocks[bi].get("cleanup") and t["k"] == "call" and t.get("decl") == "core::option::Option::<T>::filter" \
                and t.get("target") is not None and not t["dest"]["p"] and len(t.get("args", [])) == 2:
            #   o.filter(p)  ==  match o { Some(x) => if p(&x) { Some(x) } else { None }, None => None }
            ca = callable_of(t["args"][1])
            o_ = t["args"][0].get("move") or t["args"][0].get("copy")
            if ca is not None and o_ is not None:
                at = t.get("at")
                dest = t["dest"]["l"]
                dd, x_, rx, r_ = new_local("isize"), new_local(), new_local("&?"), new_local("bool")
                unreach = new_block([], {"k": "unreachable", "at": at})
                none = new_block([assign(dest, opt_none(), at)], {"k": "goto", "target": t["target"], "at": at})
                keep = new_block([assign(dest, opt_some({"move": {"l": x_, "p": []}}), at)], {"k": "goto", "target": t["target"], "at": at})
                sw2 = new_block([], {"k": "switch", "discr": {"move": {"l": r_, "p": []}}, "discr_ty": "bool", "arms": [{"value": 0, "target": none}], "otherwise": keep, "at": at})
                call_entry = emit_call(ca, [rx], r_, sw2, at)
                some = new_block([assign(x_, {"k": "use", "a": {"copy": {"l": o_["l"], "p": list(o_["p"]) + [{"as": "Some"}, {"f": "0", "adt": "core::option::Option"}]}}}, at),
                                  assign(rx, {"k": "ref", "mut": False, "place": {"l": x_, "p": []}}, at)], {"k": "goto", "target": call_entry, "at": at})
                sw = new_block([assign(dd, {"k": "discr", "place": o_, "ty": "core::option::Option<?>", "adt": "core::option::Option", "variants": {"0": "None", "1": "Some"}}, at)],
                               {"k": "switch", "discr": {"move": {"l": dd, "p": []}}, "discr_ty": "isize", "arms": [{"value": 0, "target": none}, {"value": 1, "target": some}], "otherwise": unreach, "at": at})
                nb = dict(blocks[bi])
                nb["term"] = {"k": "goto", "target": sw, "at": at}
                blocks[bi] = nb
                done.append("filter@bb%d" % bi)
            continue
        if not blocks[bi].get("cleanup") and t["k"] == "call" and t.get("decl") == "core::option::Option::<T>::map_or" \
                and t.get("target") is not None and not t["dest"]["p"] and len(t.get("args", [])) == 3:
            #   o.map_or(d, f)  ==  match o { Some(x) => f(x), None => d }     (d is a value already computed)
            ca = callable_of(t["args"][2])
            o_ = t["args"][0].get("move") or t["args"][0].get("copy")
            if ca is not None and o_ is not None:
                at = t.get("at")
                dest = t["dest"]["l"]
                dd, x_, r_ = new_local("isize"), new_local(), new_local()
                unreach = new_block([], {"k": "unreachable", "at": at})
                after = new_block([assign(dest, {"k": "use", "a": {"move": {"l": r_, "p": []}}}, at)], {"k": "goto", "target": t["target"], "at": at})
                call_entry = emit_call(ca, [x_], r_, after, at)
                some = new_block([assign(x_, {"k": "use", "a": {"move": {"l": o_["l"], "p": list(o_["p"]) + [{"as": "Some"}, {"f": "0", "adt": "core::option::Option"}]}}}, at)],
                                 {"k": "goto", "target": call_entry, "at": at})
                none = new_block([assign(dest, {"k": "use", "a": t["args"][1]}, at)], {"k": "goto", "target": t["target"], "at": at})
                sw = new_block([assign(dd, {"k": "discr", "place": o_, "ty": "core::option::Option<?>", "adt": "core::option::Option", "variants": {"0": "None", "1": "Some"}}, at)],
                               {"k": "switch", "discr": {"move": {"l": dd, "p": []}}, "discr_ty": "isize", "arms": [{"value": 0, "target": none}, {"value": 1, "target": some}], "otherwise": unreach, "at": at})
                nb = dict(blocks[bi])
                nb["term"] = {"k": "goto", "target": sw, "at": at}
                blocks[bi] = nb
                done.append("map_or@bb%d" % bi)
            continue
        is_extend = t["k"] == "call" and t.get("decl") == EXTEND and len(t.get("args", [])) == 2 and str((t.get("arg_tys") or [""])[0]).startswith("&mut alloc::vec::Vec<")
        if blocks[bi].get("cleanup") or t["k"] != "call" or not ((t.get("decl") or "").startswith(ITER) or is_extend) or t.get("target") is None:
            continue
        kind = "extend" if is_extend else t["decl"][len(ITER):]
        if kind not in CONSUMERS and not is_extend:
            continue
        if kind == "partition" and not (t.get("dest_ty") or "").startswith("(alloc::vec::Vec<"):
            continue
        into_map = kind == "collect" and (t.get("dest_ty") or "").startswith("std::collections::hash::map::HashMap<") and (t.get("dest_ty") or "").count(",") == 1
        if kind == "collect" and not ((t.get("dest_ty") or "").startswith("alloc::vec::Vec<") or into_map):
            continue
        if kind == "try_for_each" and not (t.get("dest_ty") or "").startswith("core::result::Result<(), "):
            continue
        # walk the lazy chain backwards
        stages = []
        cur = t["args"][1] if kind == "extend" else t["args"][0]
        chain_blocks = []
        ok = True
        if kind in BY_REF_CONSUMERS:
            # these take `&mut self`: the receiver is a borrow of the local holding the adaptor chain
            pl0 = cur.get("copy") or cur.get("move")
            rd = [st for b in blocks if not b.get("cleanup") for st in b["stmts"] if st["k"] == "assign" and pl0 and st["lhs"]["l"] == pl0["l"] and not st["lhs"]["p"]] if pl0 and not pl0["p"] else []
            tc = [b for b in blocks if not b.get("cleanup") and b["term"]["k"] == "call" and pl0 and b["term"]["dest"]["l"] == pl0["l"]]
            if len(rd) == 1 and not tc and rd[0]["rv"]["k"] == "ref" and rd[0]["rv"].get("mut") and not rd[0]["rv"]["place"]["p"]:
                owner = rd[0]["rv"]["place"]["l"]
                # the iterator must not be used again after the call (the loop model consumes it)
                uses = sum(1 for b in blocks if not b.get("cleanup") for pl_ in _block_places(b) if pl_["l"] == owner) - sum(1 for b in blocks if not b.get("cleanup") and b["term"]["k"] == "drop" and b["term"]["place"]["l"] == owner)
                if uses > 2:
                    continue
                cur = {"move": {"l": owner, "p": []}}
            else:
                continue
        while True:
            pl = cur.get("copy") or cur.get("move")
            if pl is None or pl["p"]:
                ok = False
                break
            db = single_def_call(pl["l"])
            if db is None:
                break
            dk = (db["term"].get("decl") or "")
            if dk.startswith(ITER) and dk[len(ITER):] in LAZY:
                ca = callable_of(db["term"]["args"][1])
                if ca is None:
                    ok = False
                    break
                stages.insert(0, (dk[len(ITER):], ca, db["id"]))
                chain_blocks.append(db["id"])
                cur = db["term"]["args"][0]
                continue
            break
        if not ok:
            continue
        base = (cur.get("copy") or cur.get("move"))
        if base is None or base["p"]:
            continue
        cons_callable = None
        if kind in PRED_CONSUMERS:
            cons_callable = callable_of(t["args"][1])
        elif kind == "fold":
            cons_callable = callable_of(t["args"][2])
        if kind in PRED_CONSUMERS + ("fold",) and cons_callable is None:
            continue
        if kind in ("collect", "nth", "count", "extend") and not stages:
            continue
        at = t.get("at")
        dest = t["dest"]["l"]
        if t["dest"]["p"]:
            continue
        # --- build the loop
        it, d, rb = new_local("core::option::Option<?>"), new_local("isize"), new_local("&mut ?")
        unreach = new_block([], {"k": "unreachable", "at": at})
        exit_stmts = []
        acc = None
        if kind == "fold":
            acc = new_local()
            exit_stmts.append(assign(dest, {"k": "use", "a": {"move": {"l": acc, "p": []}}}, at))
        elif kind in ("for_each", "extend"):
            exit_stmts.append(assign(dest, {"k": "use", "a": {"const": {"kind": "zst", "ty": "()"}}}, at))
        elif kind == "partition":
            va, vb_ = new_local("alloc::vec::Vec<?>"), new_local("alloc::vec::Vec<?>")
            exit_stmts.append(assign(dest, {"k": "agg", "agg": "tuple", "fields": [{"move": {"l": va, "p": []}}, {"move": {"l": vb_, "p": []}}]}, at))
        elif kind in ("any", "all"):
            exit_stmts.append(assign(dest, {"k": "use", "a": {"const": {"kind": "bool", "value": kind == "all", "ty": "bool"}}}, at))
        elif kind in ("find", "find_map", "position", "nth"):
            exit_stmts.append(assign(dest, opt_none(), at))
        elif kind == "try_for_each":
            exit_stmts.append(assign(dest, {"k": "agg", "agg": "adt", "adt": "core::result::Result", "adt_local": False, "variant": "Ok", "field_names": ["0"],
                                            "fields": [{"const": {"kind": "zst", "ty": "()"}}]}, at))
        elif kind == "count":
            acc = new_local("usize")
            exit_stmts.append(assign(dest, {"k": "use", "a": {"move": {"l": acc, "p": []}}}, at))
        if kind in ("position", "nth"):
            acc = new_local("usize")
        X = new_block(exit_stmts, {"k": "goto", "target": t["target"], "at": at})
        H = new_block([assign(rb, {"k": "ref", "mut": True, "place": {"l": base["l"], "p": []}}, at)], None)
        H2 = new_block([assign(d, {"k": "discr", "place": {"l": it, "p": []}, "ty": "core::option::Option<?>", "adt": "core::option::Option", "variants": {"0": "None", "1": "Some"}}, at)], None)
        blocks[H]["term"] = {"k": "call", "decl": ITER + "next", "decl_local": False, "decl_trait": "core::iter::traits::iterator::Iterator", "dispatch": "static",
                             "resolved": ITER + "next", "resolved_local": False, "args": [{"move": {"l": rb, "p": []}}],
                             "arg_tys": ["&mut " + (locals_[base["l"]] if isinstance(locals_[base["l"]], str) else "?")], "generic_args": [],
                             "dest": {"l": it, "p": []}, "target": H2, "unwind": None, "at": at}
        x = new_local()
        S0 = new_block([assign(x, {"k": "use", "a": {"copy": {"l": it, "p": [{"as": "Some"}, {"f": "0", "adt": "core::option::Option"}]}}}, at)], None)
        blocks[H2]["term"] = {"k": "switch", "discr": {"move": {"l": d, "p": []}}, "discr_ty": "isize",
                              "arms": [{"value": 0, "target": X}, {"value": 1, "target": S0}], "otherwise": unreach, "at": at}
        # stages are emitted back to front so that each knows its continuation
        # first create the consumer step
        tail_entry = None
        xs = [x] + [new_local() for _ in stages]
        xn = xs[-1]
        if kind == "collect" and into_map:
            #   it.collect::<HashMap<K, V>>()   ==   let mut m = HashMap::new(); for (k, v) in it { m.insert(k, v); }
            rbv, unit, kk, vv = new_local("&mut ?"), new_local("?"), new_local(), new_local()
            pb = new_block([assign(rbv, {"k": "ref", "mut": True, "place": {"l": dest, "p": []}}, at),
                            assign(kk, {"k": "use", "a": {"move": {"l": xn, "p": [{"f": "0"}]}}}, at),
                            assign(vv, {"k": "use", "a": {"move": {"l": xn, "p": [{"f": "1"}]}}}, at)], None)
            blocks[pb]["term"] = {"k": "call", "decl": "std::collections::hash::map::HashMap::<K, V, S, A>::insert", "decl_local": False, "self_adt": "std::collections::hash::map::HashMap",
                                  "dispatch": "static", "resolved": "std::collections::hash::map::HashMap::<K, V, S, A>::insert", "resolved_local": False,
                                  "args": [{"move": {"l": rbv, "p": []}}, {"move": {"l": kk, "p": []}}, {"move": {"l": vv, "p": []}}],
                                  "arg_tys": ["&mut " + (t.get("dest_ty") or "")], "generic_args": [], "dest": {"l": unit, "p": []}, "target": H, "unwind": None, "at": at}
            tail_entry = pb
        elif kind == "collect":
            rbv, unit = new_local("&mut ?"), new_local("()")
            pb = new_block([assign(rbv, {"k": "ref", "mut": True, "place": {"l": dest, "p": []}}, at)], None)
            blocks[pb]["term"] = {"k": "call", "decl": "alloc::vec::Vec::<T, A>::push", "decl_local": False, "self_adt": "alloc::vec::Vec", "dispatch": "static",
                                  "resolved": "alloc::vec::Vec::<T, A>::push", "resolved_local": False, "args": [{"move": {"l": rbv, "p": []}}, {"move": {"l": xn, "p": []}}],
                                  "arg_tys": ["&mut " + str(t.get("dest_ty") or "?"), _vec_elem(t.get("dest_ty"))], "generic_args": [], "dest": {"l": unit, "p": []}, "target": H, "unwind": None, "at": at}
            tail_entry = pb
        elif kind == "for_each":
            unit = new_local("()")
            tail_entry = emit_call(cons_callable, [xn], unit, H, at)
        elif kind == "extend":
            unit = new_local("()")
            pb = new_block([], None)
            blocks[pb]["term"] = {"k": "call", "decl": "alloc::vec::Vec::<T, A>::push", "decl_local": False, "self_adt": "alloc::vec::Vec", "dispatch": "static",
                                  "resolved": "alloc::vec::Vec::<T, A>::push", "resolved_local": False, "args": [_as_copy(t["args"][0]), {"move": {"l": xn, "p": []}}],
                                  "arg_tys": [str((t.get("arg_tys") or ["?"])[0]), _vec_elem((t.get("arg_tys") or ["?"])[0])], "generic_args": [], "dest": {"l": unit, "p": []}, "target": H, "unwind": None, "at": at}
            tail_entry = pb
        elif kind == "partition":
            r, rx = new_local("bool"), new_local("&?")

            def push_to(v):
                rbv, unit = new_local("&mut ?"), new_local("()")
                pb = new_block([assign(rbv, {"k": "ref", "mut": True, "place": {"l": v, "p": []}}, at)], None)
                blocks[pb]["term"] = {"k": "call", "decl": "alloc::vec::Vec::<T, A>::push", "decl_local": False, "self_adt": "alloc::vec::Vec", "dispatch": "static",
                                      "resolved": "alloc::vec::Vec::<T, A>::push", "resolved_local": False, "args": [{"move": {"l": rbv, "p": []}}, {"move": {"l": xn, "p": []}}],
                                      "arg_tys": ["&mut alloc::vec::Vec<%s>" % _vec_elem(t.get("dest_ty")), _vec_elem(t.get("dest_ty"))], "generic_args": [], "dest": {"l": unit, "p": []}, "target": H, "unwind": None, "at": at}
                return pb
            yes, no = push_to(va), push_to(vb_)
            sw = new_block([], {"k": "switch", "discr": {"move": {"l": r, "p": []}}, "discr_ty": "bool", "arms": [{"value": 0, "target": no}], "otherwise": yes, "at": at})
            ce = emit_call(cons_callable, [rx], r, sw, at)
            tail_entry = new_block([assign(rx, {"k": "ref", "mut": False, "place": {"l": xn, "p": []}}, at)], {"k": "goto", "target": ce, "at": at})
        elif kind == "fold":
            tmp = new_local()
            back = new_block([assign(acc, {"k": "use", "a": {"move": {"l": tmp, "p": []}}}, at)], {"k": "goto", "target": H, "at": at})
            tail_entry = emit_call(cons_callable, [acc, xn], tmp, back, at)
        elif kind in ("any", "all"):
            r = new_local("bool")
            hit = new_block([assign(dest, {"k": "use", "a": {"const": {"kind": "bool", "value": kind == "any", "ty": "bool"}}}, at)], {"k": "goto", "target": t["target"], "at": at})
            sw = new_block([], {"k": "switch", "discr": {"move": {"l": r, "p": []}}, "discr_ty": "bool",
                                "arms": [{"value": 0, "target": H if kind == "any" else hit}], "otherwise": hit if kind == "any" else H, "at": at})
            tail_entry = emit_call(cons_callable, [xn], r, sw, at)
        elif kind == "try_for_each":
            r, dd = new_local(t.get("dest_ty") or "core::result::Result<?>"), new_local("isize")
            hit = new_block([assign(dest, {"k": "use", "a": {"move": {"l": r, "p": []}}}, at)], {"k": "goto", "target": t["target"], "at": at})
            sw = new_block([assign(dd, {"k": "discr", "place": {"l": r, "p": []}, "ty": "core::result::Result<?>", "adt": "core::result::Result", "variants": {"0": "Ok", "1": "Err"}}, at)],
                           {"k": "switch", "discr": {"move": {"l": dd, "p": []}}, "discr_ty": "isize", "arms": [{"value": 0, "target": H}, {"value": 1, "target": hit}], "otherwise": unreach, "at": at})
            tail_entry = emit_call(cons_callable, [xn], r, sw, at)
        elif kind == "find":
            r, rx = new_local("bool"), new_local("&?")
            hit = new_block([assign(dest, opt_some({"move": {"l": xn, "p": []}}), at)], {"k": "goto", "target": t["target"], "at": at})
            sw = new_block([], {"k": "switch", "discr": {"move": {"l": r, "p": []}}, "discr_ty": "bool", "arms": [{"value": 0, "target": H}], "otherwise": hit, "at": at})
            ce = emit_call(cons_callable, [rx], r, sw, at)
            tail_entry = new_block([assign(rx, {"k": "ref", "mut": False, "place": {"l": xn, "p": []}}, at)], {"k": "goto", "target": ce, "at": at})
        elif kind == "find_map":
            r, dd = new_local("core::option::Option<?>"), new_local("isize")
            hit = new_block([assign(dest, {"k": "use", "a": {"move": {"l": r, "p": []}}}, at)], {"k": "goto", "target": t["target"], "at": at})
            sw = new_block([assign(dd, {"k": "discr", "place": {"l": r, "p": []}, "ty": "core::option::Option<?>", "adt": "core::option::Option", "variants": {"0": "None", "1": "Some"}}, at)],
                           {"k": "switch", "discr": {"move": {"l": dd, "p": []}}, "discr_ty": "isize", "arms": [{"value": 0, "target": H}, {"value": 1, "target": hit}], "otherwise": unreach, "at": at})
            tail_entry = emit_call(cons_callable, [xn], r, sw, at)
        elif kind == "position":
            r = new_local("bool")
            hit = new_block([assign(dest, opt_some({"copy": {"l": acc, "p": []}}), at)], {"k": "goto", "target": t["target"], "at": at})
            step = new_block([assign(acc, {"k": "bin", "op": "Add", "a": {"copy": {"l": acc, "p": []}}, "b": {"const": {"kind": "int", "value": 1, "ty": "usize"}}, "ty": "usize"}, at)],
                             {"k": "goto", "target": H, "at": at})
            sw = new_block([], {"k": "switch", "discr": {"move": {"l": r, "p": []}}, "discr_ty": "bool", "arms": [{"value": 0, "target": step}], "otherwise": hit, "at": at})
            tail_entry = emit_call(cons_callable, [xn], r, sw, at)
        elif kind == "nth":
            z = new_local("bool")
            hit = new_block([assign(dest, opt_some({"move": {"l": xn, "p": []}}), at)], {"k": "goto", "target": t["target"], "at": at})
            step = new_block([assign(acc, {"k": "bin", "op": "Sub", "a": {"copy": {"l": acc, "p": []}}, "b": {"const": {"kind": "int", "value": 1, "ty": "usize"}}, "ty": "usize"}, at)],
                             {"k": "goto", "target": H, "at": at})
            tail_entry = new_block([assign(z, {"k": "bin", "op": "Eq", "a": {"copy": {"l": acc, "p": []}}, "b": {"const": {"kind": "int", "value": 0, "ty": "usize"}}, "ty": "usize"}, at)],
                                   {"k": "switch", "discr": {"move": {"l": z, "p": []}}, "discr_ty": "bool", "arms": [{"value": 0, "target": step}], "otherwise": hit, "at": at})
        elif kind == "count":
            tail_entry = new_block([assign(acc, {"k": "bin", "op": "Add", "a": {"copy": {"l": acc, "p": []}}, "b": {"const": {"kind": "int", "value": 1, "ty": "usize"}}, "ty": "usize"}, at)],
                                   {"k": "goto", "target": H, "at": at})
        nxt = tail_entry
        for k in range(len(stages) - 1, -1, -1):
            skind, ca, sblock = stages[k]
            xin, xout = xs[k], xs[k + 1]
            r = new_local()
            if skind == "map":
                after = new_block([assign(xout, {"k": "use", "a": {"move": {"l": r, "p": []}}}, at)], {"k": "goto", "target": nxt, "at": at})
                nxt = emit_call(ca, [xin], r, after, at)
            elif skind == "filter_map":
                dd = new_local("isize")
                some = new_block([assign(xout, {"k": "use", "a": {"copy": {"l": r, "p": [{"as": "Some"}, {"f": "0", "adt": "core::option::Option"}]}}}, at)],
                                 {"k": "goto", "target": nxt, "at": at})
                sw = new_block([assign(dd, {"k": "discr", "place": {"l": r, "p": []}, "ty": "core::option::Option<?>", "adt": "core::option::Option", "variants": {"0": "None", "1": "Some"}}, at)],
                               {"k": "switch", "discr": {"move": {"l": dd, "p": []}}, "discr_ty": "isize", "arms": [{"value": 0, "target": H}, {"value": 1, "target": some}], "otherwise": unreach, "at": at})
                nxt = emit_call(ca, [xin], r, sw, at)
            elif skind in ("filter", "inspect"):
                rx = new_local("&?")
                keep = new_block([assign(xout, {"k": "use", "a": {"move": {"l": xin, "p": []}}}, at)], {"k": "goto", "target": nxt, "at": at})
                if skind == "filter":
                    after = new_block([], {"k": "switch", "discr": {"move": {"l": r, "p": []}}, "discr_ty": "bool", "arms": [{"value": 0, "target": H}], "otherwise": keep, "at": at})
                else:
                    after = keep
                call_entry = emit_call(ca, [rx], r, after, at)
                nxt = new_block([assign(rx, {"k": "ref", "mut": False, "place": {"l": xin, "p": []}}, at)], {"k": "goto", "target": call_entry, "at": at})
        blocks[S0]["term"] = {"k": "goto", "target": nxt, "at": at}
        # --- entry: initialise, then enter the loop; the adaptor calls themselves disappear
        pre = list(blocks[bi]["stmts"])
        nb = dict(blocks[bi])
        if kind in ("fold", "nth"):
            pre.append(assign(acc, {"k": "use", "a": t["args"][1]}, at))
        elif kind in ("position", "count"):
            pre.append(assign(acc, {"k": "use", "a": {"const": {"kind": "int", "value": 0, "ty": "usize"}}}, at))
        nb["stmts"] = pre
        if kind == "collect" and into_map:
            vb = new_block([], {"k": "call", "decl": "std::collections::hash::map::HashMap::<K, V>::new", "decl_local": False, "self_adt": "std::collections::hash::map::HashMap",
                                "dispatch": "static", "resolved": "std::collections::hash::map::HashMap::<K, V>::new", "resolved_local": False, "args": [], "arg_tys": [], "generic_args": [],
                                "dest": {"l": dest, "p": []}, "dest_ty": t.get("dest_ty"), "target": H, "unwind": None, "at": at})
            nb["term"] = {"k": "goto", "target": vb, "at": at}
        elif kind == "collect":
            vb = new_block([], {"k": "call", "decl": "alloc::vec::Vec::<T>::new", "decl_local": False, "self_adt": "alloc::vec::Vec", "dispatch": "static",
                                "resolved": "alloc::vec::Vec::<T>::new", "resolved_local": False, "args": [], "arg_tys": [], "generic_args": [],
                                "dest": {"l": dest, "p": []}, "target": H, "unwind": None, "at": at})
            nb["term"] = {"k": "goto", "target": vb, "at": at}
        elif kind == "partition":
            def vec_new(l, tgt):
                return new_block([], {"k": "call", "decl": "alloc::vec::Vec::<T>::new", "decl_local": False, "self_adt": "alloc::vec::Vec", "dispatch": "static",
                                      "resolved": "alloc::vec::Vec::<T>::new", "resolved_local": False, "args": [], "arg_tys": [], "generic_args": [],
                                      "dest": {"l": l, "p": []}, "target": tgt, "unwind": None, "at": at})
            nb["term"] = {"k": "goto", "target": vec_new(va, vec_new(vb_, H)), "at": at}
        else:
            nb["term"] = {"k": "goto", "target": H, "at": at}
        blocks[bi] = nb
        for sb in chain_blocks:
            cbk = dict(blocks[sb])
            cbk["term"] = {"k": "goto", "target": blocks[sb]["term"]["target"], "at": at}
            blocks[sb] = cbk
        done.append("%s@bb%d[%s]" % (kind, bi, ",".join(s_[0] for s_ in stages)))
    if not done:
        return fn
    _thread_jumps(blocks)       # `match it.find(..) { Some(x) => .., None => .. }`: each loop exit goes to its own arm
    d = {k: v for k, v in fn.d.items() if k not in ("blocks", "locals")}
    d["locals"] = locals_
    d["blocks"] = blocks
    d["arg_count"] = fn.nargs
    nf = Fn(prog, fn.path, d)
    nf.desugared = list(getattr(fn, "desugared", []) or []) + done
    nf.inlined = list(getattr(fn, "inlined", []) or [])
    # a closure body spliced in by this pass (the argument of `try_for_each`, of `map_or`, ..) may itself use combinators
    if _depth < 3:
        return desugar_adaptors(prog, nf, results, _depth + 1)
    return nf


# --------------------------------------------------------------------------
# Option combinators as the matches they denote
#
#   o.unwrap_or(d)    ==   match o { Some(v) => v, None => d }
#   o.is_some()       ==   match o { Some(_) => true, None => false }          (is_none dually)
#
# (the value-taking combinators only: the closure-taking ones keep their call form)

OPT = "core::option::Option::<T>::"


def desugar_option_calls(prog, fn):
    blocks = [_copy.copy(b) for b in fn.blocks]
    locals_ = list(fn.locals)
    done = []

    def new_local(ty="?"):
        locals_.append(ty)
        return len(locals_) - 1

    def new_block(stmts, term):
        b = {"id": len(blocks), "stmts": stmts, "term": term, "synthetic": True}
        blocks.append(b)
        return b["id"]

    def assign(l, rv, at=None):
        return {"k": "assign", "lhs": {"l": l, "p": []}, "rv": rv, "at": at}

    RES = "core::result::Result::<T, E>::"
    for bi in range(len(fn.blocks)):
        t = blocks[bi]["term"]
        if not blocks[bi].get("cleanup") and t["k"] == "call" and (t.get("decl") or "") in (RES + "is_ok", RES + "is_err") and t.get("target") is not None and not t["dest"]["p"] and len(t["args"]) == 1:
            # r.is_ok() / r.is_err() on a named Result: the match on its discriminant
            r_ = t["args"][0].get("move") or t["args"][0].get("copy")
            if r_ is not None and not r_["p"]:
                rd = [st for b in blocks if not b.get("cleanup") for st in b["stmts"] if st["k"] == "assign" and st["lhs"]["l"] == r_["l"] and not st["lhs"]["p"]]
                rc = [b for b in blocks if not b.get("cleanup") and b["term"]["k"] == "call" and b["term"]["dest"]["l"] == r_["l"]]
                if len(rd) == 1 and not rc and rd[0]["rv"]["k"] == "ref":
                    place = rd[0]["rv"]["place"]
                    at = t.get("at")
                    dest = t["dest"]["l"]
                    want_ok = t["decl"].endswith("is_ok")
                    dd = new_local("isize")
                    unreach = new_block([], {"k": "unreachable", "at": at})
                    okb = new_block([assign(dest, {"k": "use", "a": {"const": {"kind": "bool", "value": want_ok, "ty": "bool"}}}, at)], {"k": "goto", "target": t["target"], "at": at})
                    errb = new_block([assign(dest, {"k": "use", "a": {"const": {"kind": "bool", "value": not want_ok, "ty": "bool"}}}, at)], {"k": "goto", "target": t["target"], "at": at})
                    sw = new_block([assign(dd, {"k": "discr", "place": place, "ty": "core::result::Result<?>", "adt": "core::result::Result", "variants": {"0": "Ok", "1": "Err"}}, at)],
                                   {"k": "switch", "discr": {"move": {"l": dd, "p": []}}, "discr_ty": "isize", "arms": [{"value": 0, "target": okb}, {"value": 1, "target": errb}], "otherwise": unreach, "at": at})
                    nb = dict(blocks[bi])
                    nb["term"] = {"k": "goto", "target": sw, "at": at}
                    blocks[bi] = nb
                    done.append("%s@bb%d" % (t["decl"].rsplit("::", 1)[-1], bi))
            continue
        if blocks[bi].get("cleanup") or t["k"] != "call" or not (t.get("decl") or "").startswith(OPT) or t.get("target") is None or t["dest"]["p"]:
            continue
        kind = t["decl"][len(OPT):]
        at = t.get("at")
        dest = t["dest"]["l"]
        if kind == "unwrap_or" and len(t["args"]) == 2:
            o = t["args"][0].get("move") or t["args"][0].get("copy")
            if o is None:
                continue
            place = o
        elif kind in ("is_some", "is_none") and len(t["args"]) == 1:
            r = t["args"][0].get("move") or t["args"][0].get("copy")
            if r is None or r["p"]:
                continue
            rd = [st for b in blocks if not b.get("cleanup") for st in b["stmts"] if st["k"] == "assign" and st["lhs"]["l"] == r["l"] and not st["lhs"]["p"]]
            rc = [b for b in blocks if not b.get("cleanup") and b["term"]["k"] == "call" and b["term"]["dest"]["l"] == r["l"]]
            if len(rd) != 1 or rc or rd[0]["rv"]["k"] != "ref":
                continue
            place = rd[0]["rv"]["place"]
        else:
            continue
        dd = new_local("isize")
        unreach = new_block([], {"k": "unreachable", "at": at})
        if kind == "unwrap_or":
            some = new_block([assign(dest, {"k": "use", "a": {"move": {"l": place["l"], "p": list(place["p"]) + [{"as": "Some"}, {"f": "0", "adt": "core::option::Option"}]}}}, at)],
                             {"k": "goto", "target": t["target"], "at": at})
            none = new_block([assign(dest, {"k": "use", "a": t["args"][1]}, at)], {"k": "goto", "target": t["target"], "at": at})
        else:
            some = new_block([assign(dest, {"k": "use", "a": {"const": {"kind": "bool", "value": kind == "is_some", "ty": "bool"}}}, at)], {"k": "goto", "target": t["target"], "at": at})
            none = new_block([assign(dest, {"k": "use", "a": {"const": {"kind": "bool", "value": kind == "is_none", "ty": "bool"}}}, at)], {"k": "goto", "target": t["target"], "at": at})
        sw = new_block([assign(dd, {"k": "discr", "place": place, "ty": "core::option::Option<?>", "adt": "core::option::Option", "variants": {"0": "None", "1": "Some"}}, at)],
                       {"k": "switch", "discr": {"move": {"l": dd, "p": []}}, "discr_ty": "isize", "arms": [{"value": 0, "target": none}, {"value": 1, "target": some}], "otherwise": unreach, "at": at})
        nb = dict(blocks[bi])
        nb["term"] = {"k": "goto", "target": sw, "at": at}
        blocks[bi] = nb
        done.append("%s@bb%d" % (kind, bi))
    if not done:
        return fn
    _thread_jumps(blocks)
    d = {k: v for k, v in fn.d.items() if k not in ("blocks", "locals")}
    d["locals"] = locals_
    d["blocks"] = blocks
    d["arg_count"] = fn.nargs
    nf = Fn(prog, fn.path, d)
    nf.desugared = list(getattr(fn, "desugared", []) or []) + done
    nf.inlined = list(getattr(fn, "inlined", []) or [])
    return nf


FN_CALLS = ("core::ops::function::Fn::call", "core::ops::function::FnMut::call_mut", "core::ops::function::FnOnce::call_once")


def inline_closure_calls(prog, fn, depth=2):
    blocks = [_copy.copy(b) for b in fn.blocks]
    locals_ = list(fn.locals)
    done = []
    work = [(i, 0) for i in range(len(blocks))]
    while work:
        bi, dep = work.pop()
        t = blocks[bi]["term"]
        if blocks[bi].get("cleanup") or t["k"] != "call" or t.get("decl") not in FN_CALLS or t.get("dispatch") != "static" or not t.get("resolved_local") or dep >= depth:
            continue
        cf = prog.fns.get(t.get("resolved"))
        if cf is None or cf.kind != "Closure" or len(t.get("args", [])) != 2 or t.get("target") is None:
            continue
        host = cf.d.get("closure_of")
        if host != fn.path and host not in (getattr(fn, "inlined", None) or []):
            continue
        tup = t["args"][1]
        tpl = tup.get("copy") or tup.get("move")
        nparams = cf.nargs - 1
        if nparams > 0 and (tpl is None or tpl["p"]):
            continue
        lo, bo = len(locals_), len(blocks)
        locals_.extend(cf.locals)
        nb = dict(blocks[bi])
        nb["stmts"] = list(nb["stmts"])
        at = t.get("at")
        nb["stmts"].append({"k": "assign", "lhs": {"l": lo + 1, "p": []}, "rv": {"k": "use", "a": t["args"][0]}, "at": at})
        for i in range(nparams):
            nb["stmts"].append({"k": "assign", "lhs": {"l": lo + 2 + i, "p": []},
                                "rv": {"k": "use", "a": {"copy": {"l": tpl["l"], "p": [{"f": str(i)}]}}}, "at": at})
        nb["term"] = {"k": "goto", "target": bo, "at": at}
        blocks[bi] = nb
        for cb in cf.blocks:
            blocks.append(_renum_block(cb, lo, bo, t["target"], t["dest"], origin=cf.path))
        done.append(cf.path)
        for j in range(bo, len(blocks)):
            work.append((j, dep + 1))
    if not done:
        return fn
    _thread_jumps(blocks)
    d = {k: v for k, v in fn.d.items() if k not in ("blocks", "locals")}
    d["locals"] = locals_
    d["blocks"] = blocks
    d["arg_count"] = fn.nargs
    nf = Fn(prog, fn.path, d)
    nf.inlined = list(getattr(fn, "inlined", []) or []) + done
    nf.closure_calls_inlined = done
    return nf
