"""G7: guarded-table extraction for decision chains (string compares against
constants, enum discriminant switches), with constant folding."""
from .core import SwitchInfo, strip, deep_strip, walk, show, ShapeUnrecognised

STR_EQ_CALLS = {
    "core::str::<impl str>::eq_ignore_ascii_case": "ci",
    "core::cmp::PartialEq::eq": "eq",
    "core::str::traits::<impl core::cmp::PartialEq for str>::eq": "eq",
}


def fold_int(e):
    """Constant-fold an integer expression of consts and Add/Sub/Mul/Shl; None if not constant."""
    e = strip(e, calls=set())
    if e[0] == "const" and e[1] == "int" and isinstance(e[2], int):
        return e[2]
    if e[0] == "cast":
        return fold_int(e[2])
    if e[0] == "bin":
        a, b = fold_int(e[2]), fold_int(e[3])
        if a is None or b is None:
            return None
        op = e[1].replace("WithOverflow", "").replace("Unchecked", "")
        if op == "Add":
            return a + b
        if op == "Sub":
            return a - b
        if op == "Mul":
            return a * b
        if op == "Shl":
            return a << b
        if op == "Div" and b:
            return a // b
    return None


def string_key_tests(fn):
    """[(switch_block, key_string, mode, subject_expr, true_target, false_target)] for every
    boolean switch on a string comparison against a constant."""
    out = []
    rb = fn.reachable_blocks()
    for blk in fn.blocks:
        if blk["term"]["k"] != "switch" or blk["id"] not in rb:
            continue
        si = SwitchInfo(fn, blk["id"])
        if not si.is_bool:
            continue
        d = strip(si.discr, calls=set())
        neg = False
        while d[0] == "un" and d[1] == "Not":
            neg = not neg
            d = strip(d[2], calls=set())
        if d[0] == "phi":
            # `a == "x" || a == "y"` returned by a spliced helper: the constant alternatives belong to the edges that were
            # threaded away; what is still tested here is the remaining comparison
            rest = [strip(a, calls=set()) for a in d[1] if not (strip(a, calls=set())[0] == "const" and strip(a, calls=set())[1] == "bool")]
            if len(rest) == 1:
                d = rest[0]
        if d[0] != "call" or len(d[2]) != 2:
            continue
        mode = STR_EQ_CALLS.get(d[1])
        if mode is None:
            continue
        a, b = deep_strip(d[2][0]), deep_strip(d[2][1])
        key, subj = None, None
        if b[0] == "const" and b[1] == "str":
            key, subj = b[2], a
        elif a[0] == "const" and a[1] == "str":
            key, subj = a[2], b
        if key is None:
            continue
        tt, ft = si.target_of(not neg), si.target_of(neg)
        out.append((blk["id"], key, mode, subj, tt, ft))
    return out


def first_sinks(fn, start, test_blocks, sink_blocks):
    """Sinks reachable from `start` without crossing another key test, minimal
    w.r.t. reachability (the first ones met)."""
    r = fn.reach(start, avoid=set(test_blocks), include_src=True)
    hits = [s for s in sink_blocks if s in r]
    first = []
    for s in hits:
        if not any(o != s and s in fn.reach(o, avoid=set(test_blocks)) and o not in fn.reach(s, avoid=set(test_blocks)) for o in hits):
            first.append(s)
    return first


def key_table(fn, tests, sink_blocks):
    """key -> sorted list of first sink blocks on the key's true edge."""
    tb = [t[0] for t in tests]
    tab = {}
    for (b, key, mode, subj, tt, ft) in tests:
        tab.setdefault(key, [])
        for s in first_sinks(fn, tt, tb, sink_blocks):
            if s not in tab[key]:
                tab[key].append(s)
    return tab


def fallthrough_target(fn, tests):
    """The false edge target of the last test in the chain (no other test reachable from it)."""
    tb = {t[0] for t in tests}
    outs = []
    for (b, key, mode, subj, tt, ft) in tests:
        r = fn.reach(ft, include_src=True)
        if not (r & (tb - {b})):
            outs.append(ft)
    return outs
