"""G9: panic/abort-site inventory over a cone of functions, with discharge by
dominating guards (must-facts over the CFG), value sets, or a justified
allow-list keyed by construct."""
import json
import os
import re

from . import q
from .core import (AnchorMissing, ShapeUnrecognised, CallSite, SwitchInfo, strip, deep_strip, walk, show,
                   cmp_nf, short, _rv_places)

VERIF = os.path.dirname(os.path.dirname(os.path.abspath(__file__)))

# external callees whose contract is "may panic" (exact declared path, or prefix ending with *)
MAY_PANIC = {
    "core::option::Option::<T>::unwrap": "None",
    "core::option::Option::<T>::expect": "None",
    "core::option::Option::<T>::unwrap_unchecked": "None (UB)",
    "core::result::Result::<T, E>::unwrap": "Err",
    "core::result::Result::<T, E>::expect": "Err",
    "core::result::Result::<T, E>::unwrap_err": "Ok",
    "core::result::Result::<T, E>::expect_err": "Ok",
    "chrono::offset::LocalResult::<T>::unwrap": "None or Ambiguous local time",
    "chrono::offset::MappedLocalTime::<T>::unwrap": "None or Ambiguous local time",
    "core::ops::index::Index::index": "out of range / not a char boundary / missing key",
    "core::ops::index::IndexMut::index_mut": "out of range / not a char boundary",
    "core::str::<impl str>::split_at": "not a char boundary",
    "core::str::<impl str>::split_at_mut": "not a char boundary",
    "core::slice::<impl [T]>::split_at": "mid > len",
    "core::slice::<impl [T]>::copy_from_slice": "length mismatch",
    "core::slice::<impl [T]>::chunks": "chunk size 0",
    "core::slice::<impl [T]>::swap": "out of range",
    "core::cell::RefCell::<T>::borrow": "already mutably borrowed",
    "core::cell::RefCell::<T>::borrow_mut": "already borrowed",
    "chrono::time_delta::TimeDelta::weeks": "out of range",
    "chrono::time_delta::TimeDelta::days": "out of range",
    "chrono::time_delta::TimeDelta::hours": "out of range",
    "chrono::time_delta::TimeDelta::minutes": "out of range",
    "chrono::time_delta::TimeDelta::seconds": "out of range",
    "chrono::time_delta::TimeDelta::milliseconds": "out of range",
    "rand::rng::Rng::gen_range": "empty range",
    "core::fmt::rt::Argument::<'_>::from_usize": "a run-time width or precision above u16::MAX panics in core::fmt",
    "std::io::stdio::_print": "stdout write failure",
    "std::io::stdio::_eprint": "stderr write failure",
    "std::thread::local::LocalKey::<T>::with": "TLS destroyed",
    "std::sync::once::Once::call_once": "poisoned / re-entrant",
    "alloc::vec::Vec::<T, A>::remove": "out of range",
    "alloc::vec::Vec::<T, A>::swap_remove": "out of range",
    "alloc::vec::Vec::<T, A>::insert": "out of range",
    "alloc::vec::Vec::<T, A>::drain": "range out of bounds",
    "alloc::vec::Vec::<T, A>::split_off": "out of range",
    "alloc::string::String::remove": "out of range / boundary",
    "alloc::string::String::insert": "boundary",
    "alloc::string::String::insert_str": "boundary",
    "alloc::string::String::truncate": "boundary",
    "alloc::string::String::drain": "boundary",
    "alloc::string::String::split_off": "boundary",
    "alloc::string::String::replace_range": "boundary",
    "core::iter::traits::iterator::Iterator::step_by": "step 0",
    "core::num::<impl usize>::pow": "overflow (debug)",
    "core::num::<impl u64>::pow": "overflow (debug)",
    "core::num::<impl i64>::abs": "overflow (debug)",
    "core::num::<impl i32>::abs": "overflow (debug)",
    "core::char::methods::<impl char>::to_digit": "radix > 36",
    "core::char::methods::<impl char>::from_digit": "radix > 36",
    "std::time::SystemTime::elapsed": None,  # returns Result; listed for completeness (not a panic)
    "core::panicking::*": "explicit panic",
    "std::rt::begin_panic": "explicit panic",
    "std::panicking::begin_panic": "explicit panic",
    "core::result::unwrap_failed": "explicit panic",
    "core::option::unwrap_failed": "explicit panic",
    "core::option::expect_failed": "explicit panic",
    "std::process::exit": "exit",
    "std::process::abort": "abort",
}
# operator traits on chrono / std time types panic on overflow
ARITH_TRAITS = ("core::ops::arith::Add::add", "core::ops::arith::Sub::sub", "core::ops::arith::Mul::mul",
                "core::ops::arith::AddAssign::add_assign", "core::ops::arith::SubAssign::sub_assign")
ARITH_PANIC_TYPES = ("chrono::", "core::time::Duration", "std::time::")
# Display impls that can return Err (write_fmt then panics in std)
FALLIBLE_DISPLAY = (re.compile(r"chrono::format::.*DelayedFormat"),)
DISPLAY_CTORS = ("core::fmt::rt::Argument::<'_>::new_display", "core::fmt::rt::Argument::<'_>::new_debug")


class Site:
    __slots__ = ("fn", "block", "kind", "what", "ops", "at", "t", "reason")

    def __init__(self, fn, block, kind, what, ops, at, t, reason):
        self.fn, self.block, self.kind, self.what, self.ops, self.at, self.t, self.reason = fn, block, kind, what, ops, at, t, reason

    @property
    def origin(self):
        """the (inlined) helper this site's block was spliced from, if any"""
        try:
            return self.fn.blocks[self.block].get("origin")
        except Exception:
            return None

    def sig(self):
        """stable provenance signature of the operands (no block ids, no lines)"""
        return "; ".join(_sig(e) for e in self.ops)

    def key(self):
        return "%s | %s %s | %s" % (self.fn.path, self.kind, self.what, self.sig())


def _canon_try(e):
    """`x?` and `match x { Ok(v) => v, .. }` name the same value: render the success payload of Try::branch(x)
    as the Ok payload of x, so that a site's key does not depend on which spelling propagates the error"""
    if not isinstance(e, tuple) or not e:
        return e
    if e[0] == "as" and e[2] == "Continue":
        inner = strip(e[1])
        if inner[0] == "call" and inner[1] == "core::ops::try_trait::Try::branch" and inner[2]:
            return ("as", _canon_try(inner[2][0]), "Ok")
    return tuple(_canon_try(x) if isinstance(x, tuple) else x for x in e)


def _sig(e):
    e = deep_strip(e)
    if not os.environ.get("L4SA_NO_CANON_TRY"):
        e = deep_strip(_canon_try(e))
    return show(e, 4)


def _may_panic(callee):
    if callee in MAY_PANIC:
        return MAY_PANIC[callee]
    for k, v in MAY_PANIC.items():
        if k.endswith("*") and callee.startswith(k[:-1]):
            return v
    return None


def sites_in(fn):
    out = []
    for b, t in fn.asserts():
        ops = [fn.expr(o) for o in t["ops"]]
        out.append(Site(fn, b, "assert", t["kind"], ops, t.get("at"), t, t["kind"]))
    for c in fn.calls():
        t = c.t
        decl = c.decl or ""
        why = _may_panic(decl)
        if why is None and decl in ARITH_TRAITS:
            tys = " ".join(t.get("arg_tys", []))
            if any(k in tys for k in ARITH_PANIC_TYPES):
                why = "overflow of %s" % tys
        if why is None and decl in DISPLAY_CTORS:
            ga = " ".join(t.get("generic_args", []))
            if any(rx.search(ga) for rx in FALLIBLE_DISPLAY):
                why = "Display of %s can fail; write_fmt then panics" % ga
        if why is None and c.target is None:
            why = "diverging call"
        if why is None:
            continue
        ops = c.arg_exprs()
        kind = "call"
        out.append(Site(fn, c.block, kind, decl, ops, c.at, t, why))
    return out


def inventory(p, cone):
    """Sites of the cone's functions.  A closure that is the body of an iterator-adaptor loop (spliced by
    Program.fn_loops into the function that builds it) is examined there, in the context of its captures and of the
    iterator feeding it, exactly like the body of the equivalent `for` loop."""
    out = []
    skip, hosts = set(), {}
    for path in sorted(cone):
        f = p.fns[path]
        if f.kind != "Closure":
            continue
        host = f.d.get("closure_of")
        seen = set()
        while host in p.fns and p.fns[host].kind == "Closure" and host not in seen:
            seen.add(host)
            host = p.fns[host].d.get("closure_of")
        if host in cone and host in p.fns:
            hl = p.fn_loops(host)
            if hl is not p.fns[host] and any(b.get("origin") == path for b in hl.blocks):
                skip.add(path)
                hosts[host] = hl
    for path in sorted(cone):
        if path in skip:
            continue
        out.extend(sites_in(hosts.get(path) or p.fns[path]))
    return out


# ---- must-facts -----------------------------------------------------------

def must_hold_at(fn, block, gen_edge, gen_block, kill_block):
    """Greatest-fixpoint forward must-analysis.  gen_edge(a, b) -> bool: the fact is
    established on CFG edge a->b; gen_block(a): established at the end of a;
    kill_block(a): destroyed somewhere in a.  Returns True iff the fact holds
    on entry to `block` along every normal-flow path from the function entry."""
    rb = fn.reachable_blocks()
    IN = {b: True for b in rb}
    IN[0] = False
    changed = True
    while changed:
        changed = False
        for b in rb:
            if b == 0:
                continue
            val = True
            ps = [p_ for p_ in fn.pred[b] if p_ in rb]
            if not ps:
                val = False
            for p_ in ps:
                if gen_edge(p_, b):
                    e = True
                elif gen_block(p_):
                    e = True
                else:
                    e = IN[p_] and not kill_block(p_)
                val = val and e
            if val != IN[b]:
                IN[b] = val
                changed = True
    return IN.get(block, False)


def _local_of(op):
    pl = op.get("copy") or op.get("move")
    if pl is not None and not pl["p"]:
        return pl["l"]
    return None


def _root_local(fn, l):
    """look through single whole-local copies"""
    seen = set()
    while l not in seen:
        seen.add(l)
        ds = [d for d in fn.defs(l) if not d[0]]
        if len(ds) == 1 and ds[0][3] == "rv" and ds[0][4]["k"] == "use":
            pl = ds[0][4]["a"].get("copy") or ds[0][4]["a"].get("move")
            if pl and not pl["p"] and not (1 <= pl["l"] <= fn.nargs):
                l = pl["l"]
                continue
        break
    return l


def _blocks_defining(fn, l):
    return {b for (dp, b, i, kind, payload) in fn.defs(l)}


def _is_unsigned(fn, l):
    try:
        ty = fn.locals[l]
        ty = ty.get("ty") if isinstance(ty, dict) else ty
    except Exception:
        return False
    return ty in ("u8", "u16", "u32", "u64", "u128", "usize")


def _edge_facts_nonzero(fn, l):
    """edges (a,b) on which local l (or a copy of it) is known != 0 / >= 1"""
    edges = set()
    for blk in fn.blocks:
        if blk["term"]["k"] != "switch" or blk["id"] not in fn.reachable_blocks():
            continue
        si = SwitchInfo(fn, blk["id"])
        # direct switch on the integer itself
        dl = _local_of(blk["term"]["discr"])
        if dl is not None and _root_local(fn, dl) == l and not si.is_bool:
            for v, t in si.edges:
                if v == "otherwise" and 0 in [x for x, _ in si.edges if x != "otherwise"]:
                    edges.add((blk["id"], t))
                elif v != "otherwise" and v != 0:
                    edges.add((blk["id"], t))
            continue
        if not si.is_bool:
            continue
        for truth in (True, False):
            nf = _cmp_locals(fn, blk["term"]["discr"], truth)
            if nf is None:
                continue
            op, a, b = nf  # a, b are ('local', n) or ('const', v)
            holds = False
            if op == "Ne" and ((a == ("local", l) and b == ("const", 0)) or (b == ("local", l) and a == ("const", 0))):
                holds = True
            if op == "Lt" and a[0] == "const" and a[1] >= 0 and b == ("local", l):
                holds = True   # c < l  with c >= 0
            if op == "Le" and a[0] == "const" and a[1] >= 1 and b == ("local", l):
                holds = True
            if op == "Lt" and a[0] == "local" and b == ("local", l) and _is_unsigned(fn, a[1]):
                holds = True   # u < l with u unsigned  =>  l >= 1
            if holds:
                t = si.target_of(truth)
                if t is not None:
                    edges.add((blk["id"], t))
    return edges


def _cmp_locals(fn, discr_op, truth):
    """Normal-form comparison of the switch scrutinee in terms of root locals / int constants."""
    dl = _local_of(discr_op)
    if dl is None:
        return None
    neg = not truth
    cur = dl
    for _ in range(6):
        ds = [d for d in fn.defs(cur) if not d[0]]
        if len(ds) != 1 or ds[0][3] != "rv":
            return None
        rv = ds[0][4]
        if rv["k"] == "use":
            nl = _local_of(rv["a"])
            if nl is None:
                return None
            cur = nl
            continue
        if rv["k"] == "un" and rv["op"] == "Not":
            nl = _local_of(rv["a"])
            if nl is None:
                return None
            neg = not neg
            cur = nl
            continue
        if rv["k"] == "bin" and rv["op"] in ("Eq", "Ne", "Lt", "Le", "Gt", "Ge"):
            def side(o):
                if "const" in o:
                    c = o["const"]
                    if c.get("kind") == "int" and isinstance(c.get("value"), int):
                        return ("const", c["value"])
                    return None
                l = _local_of(o)
                return ("local", _root_local(fn, l)) if l is not None else None
            a, b = side(rv["a"]), side(rv["b"])
            if a is None or b is None:
                return None
            op = rv["op"]
            NEG = {"Lt": "Ge", "Le": "Gt", "Gt": "Le", "Ge": "Lt", "Eq": "Ne", "Ne": "Eq"}
            if neg:
                op = NEG[op]
            if op == "Gt":
                op, a, b = "Lt", b, a
            elif op == "Ge":
                op, a, b = "Le", b, a
            return (op, a, b)
        return None
    return None


_RANGES = {"u8": (0, 2**8 - 1), "u16": (0, 2**16 - 1), "u32": (0, 2**32 - 1), "u64": (0, 2**64 - 1), "usize": (0, 2**64 - 1),
           "i8": (-2**7, 2**7 - 1), "i16": (-2**15, 2**15 - 1), "i32": (-2**31, 2**31 - 1), "i64": (-2**63, 2**63 - 1), "isize": (-2**63, 2**63 - 1)}


def valuesets(fn):
    from .valueset import ValueSets
    if getattr(fn, "_vs", None) is None:
        fn._vs = ValueSets(fn)
    return fn._vs


def _discharge_by_valueset(fn, s):
    vs = valuesets(fn)
    ops = s.t["ops"]
    vals = [vs.at_end(s.block, o) for o in ops]
    if any(v is None or len(v) == 0 for v in vals):
        return None
    if s.what == "BoundsCheck":
        ln, ix = vals
        if min(ix) >= 0 and max(ix) < min(ln):
            return "value sets: index in %s, length %s" % (sorted(ix), sorted(ln))
        return None
    if s.what.startswith("Overflow("):
        op = s.what[len("Overflow("):-1]
        ty = None
        pl = ops[0].get("copy") or ops[0].get("move")
        if pl and not pl["p"]:
            ty = fn.locals[pl["l"]]
        if ty is None:
            pl = ops[1].get("copy") or ops[1].get("move")
            if pl and not pl["p"]:
                ty = fn.locals[pl["l"]]
        if ty is None and "const" in ops[0]:
            ty = ops[0]["const"].get("ty")
        rng = _RANGES.get(ty)
        if rng is None:
            return None
        res = []
        for a in vals[0]:
            for b in vals[1]:
                res.append(a + b if op == "Add" else a - b if op == "Sub" else a * b if op == "Mul" else None)
        if None in res:
            return None
        if min(res) >= rng[0] and max(res) <= rng[1]:
            return "value sets: %s %s %s stays within %s" % (sorted(vals[0]), op, sorted(vals[1]), ty)
    return None


MEM_ITERS = ("str::iter::Chars", "str::iter::CharIndices", "slice::iter::Iter", "slice::iter::IterMut", "vec::into_iter::IntoIter", "str::iter::Bytes",
             "hash::map::Iter", "hash::map::Values", "hash::map::Keys", "btree::map::Iter")


def bounded_counter(fn, block, ops):
    """`c + 1` where c is phi(small const | c + 1) of an unsigned 64-bit-or-wider local, and the addition can only be
    reached again by passing an Iterator::next call on an iterator over data held in memory."""
    if len(ops) != 2:
        return False
    c = ops[1].get("const")
    l = _local_of(ops[0])
    if not c or c.get("kind") != "int" or c.get("value") != 1 or l is None:
        return False
    l = _root_local(fn, l)
    ty = fn.locals[l] if l < len(fn.locals) else ""
    if ty not in ("usize", "u64", "u128"):
        return False
    e = deep_strip(fn.local_expr(l))
    if e[0] != "phi":
        return False
    for a in e[1]:
        a = deep_strip(a)
        if a[0] == "const" and a[1] == "int" and isinstance(a[2], int) and 0 <= a[2] <= 65536:
            continue
        if a[0] == "field" and a[2] == "0":
            a = deep_strip(a[1])
        if a[0] == "bin" and a[1].replace("WithOverflow", "") == "Add" and deep_strip(a[2])[0] == "cycle" and deep_strip(a[3]) == ("const", "int", 1):
            continue
        return False
    nexts = set()
    for cs in fn.calls("core::iter::traits::iterator::Iterator::next"):
        tys = " ".join(cs.t.get("arg_tys", []))
        if any(m in tys for m in MEM_ITERS):
            nexts.add(cs.block)
    if not nexts or not fn.in_loop(block):
        return False
    return block not in fn.reach(block, avoid=nexts)


def counting_fn(p, path):
    """(param index, predicate path) if the local function `path` is `xs.iter().filter(|x| pred(x)).count()` of a parameter"""
    f = p.fns.get(path)
    if f is None:
        return None
    e = deep_strip(f.local_expr(0))
    if e[0] != "call" or e[1] != "core::iter::traits::iterator::Iterator::count":
        return None
    fl = deep_strip(e[2][0])
    if fl[0] != "call" or fl[1] != "core::iter::traits::iterator::Iterator::filter":
        return None
    it = deep_strip(fl[2][0])
    if it[0] != "call" or not it[1].endswith("::iter") or deep_strip(it[2][0])[0] != "param":
        return None
    clo = [x for x in walk(fl[2][1]) if x[0] == "closure"]
    if not clo or clo[0][1] not in p.fns:
        return None
    cf = p.fns[clo[0][1]]
    ce = deep_strip(cf.local_expr(0))
    if ce[0] != "call" or ce[1] not in p.fns or not any(x == ("param", 2) for x in walk(ce)):
        return None
    return deep_strip(it[2][0])[1], ce[1]


def _same_value(fn, l1, l2):
    """two locals hold the same value: copies of one local, or two loads of the same field place with no store to
    that field on any path from the first load to the second"""
    r1, r2 = _root_local(fn, l1), _root_local(fn, l2)
    if r1 == r2:
        return True
    d1, d2 = [d for d in fn.defs(r1)], [d for d in fn.defs(r2)]
    if len(d1) != 1 or len(d2) != 1 or d1[0][0] or d2[0][0] or d1[0][3] != "rv" or d2[0][3] != "rv":
        return False
    v1, v2 = d1[0][4], d2[0][4]
    if v1["k"] != "use" or v2["k"] != "use":
        return False
    p1, p2 = v1["a"].get("copy"), v2["a"].get("copy")
    if not p1 or not p2 or p1 != p2 or not p1["p"] or not (1 <= p1["l"] <= fn.nargs):
        return False
    flds = [e.get("f") for e in p1["p"] if isinstance(e, dict) and "f" in e]
    if not flds:
        return False
    b1, b2 = d1[0][1], d2[0][1]
    for (b, i, st) in fn.assigns():
        if any(isinstance(e, dict) and e.get("f") == flds[-1] for e in st["lhs"]["p"]):
            for x, y in ((b1, b2), (b2, b1)):
                if (b == x or b in fn.reach(x)) and (b == y or y in fn.reach(b)):
                    return False
    # a call in between could only write it through the parameter itself (borrowed by this function): none receives it
    for c in fn.calls():
        if any(deep_strip(x) == ("param", p1["l"]) for x in c.arg_exprs()):
            for x, y in ((b1, b2), (b2, b1)):
                if (c.block == x or c.block in fn.reach(x)) and (c.block == y or y in fn.reach(c.block)):
                    return False
    return True


def scan_exhausted(p, fn, block, a, b):
    """`a - count(xs)` after a loop over all of xs that counted down from a: the site runs only once the loop's
    iterator over xs returned None, the loop's counter starts at a, every element satisfying the counted predicate
    either decrements the counter by one or leaves the loop for good, and a decrement is never reached with the
    counter at zero (that would be its own site).  Then count(xs) = a - counter <= a."""
    la, lb = _local_of(a), _local_of(b)
    if la is None or lb is None:
        return None
    cdefs = [d for d in fn.defs(_root_local(fn, lb)) if not d[0]]
    if len(cdefs) != 1 or cdefs[0][3] != "call":
        return None
    ct = cdefs[0][4]
    cpath = ct.get("resolved") if ct.get("resolved_local") else None
    cf = counting_fn(p, cpath) if cpath else None
    if cf is None or len(ct.get("args", [])) < cf[0]:
        return None
    pred = cf[1]
    xs = deep_strip(fn.expr(ct["args"][cf[0] - 1]))
    if xs[0] != "param":
        return None
    ra = _root_local(fn, la)
    for sb, si, al in fn.conditions(block):
        d = strip(si.discr)
        if d[0] != "discr" or {si.label(v) for v, _ in al} != {"None"}:
            continue
        nx = deep_strip(d[1])
        if nx[0] != "call" or nx[1] != "core::iter::traits::iterator::Iterator::next" or not fn.in_loop(nx[3]):
            continue
        recv = deep_strip(nx[2][0])
        if recv[0] == "call" and recv[1] == "core::iter::traits::iterator::Iterator::enumerate":
            recv = deep_strip(recv[2][0])
        if not (recv[0] == "call" and recv[1].endswith("::iter") and deep_strip(recv[2][0]) == xs):
            continue
        nblock = nx[3]
        # the counter: one initialisation from a, one `k = k - 1` in the loop, never borrowed mutably
        for k in range(len(fn.locals)):
            ds = [d_ for d_ in fn.defs(k)]
            if len(ds) != 2 or any(d_[0] or d_[3] != "rv" for d_ in ds):
                continue
            init = [d_ for d_ in ds if d_[4]["k"] == "use" and _local_of(d_[4]["a"]) is not None and _same_value(fn, _local_of(d_[4]["a"]), la) and not fn.in_loop(d_[1])]
            dec = [d_ for d_ in ds if d_ not in init]
            if len(init) != 1 or len(dec) != 1 or not fn.in_loop(dec[0][1]):
                continue
            de = deep_strip(fn._rvalue(dec[0][4], frozenset(), 8, dec[0][1]))
            if de[0] == "field" and de[2] == "0":
                de = deep_strip(de[1])
            if not (de[0] == "bin" and de[1].replace("WithOverflow", "") == "Sub" and deep_strip(de[3]) == ("const", "int", 1)):
                continue
            src = dec[0][4].get("a") if dec[0][4]["k"] == "bin" else None
            if dec[0][4]["k"] == "bin" and _local_of(dec[0][4]["a"]) != k:
                continue
            if dec[0][4]["k"] != "bin":
                # checked form: tmp = SubWithOverflow(k, 1); k = move tmp.0
                tl = _local_of(dec[0][4].get("a", {}))
                tds = [d_ for d_ in fn.defs(tl)] if tl is not None else []
                if len(tds) != 1 or tds[0][3] != "rv" or tds[0][4]["k"] != "bin" or _local_of(tds[0][4]["a"]) != k:
                    continue
            borrowed = any(st["k"] == "assign" and st["rv"]["k"] in ("ref", "rawptr") and st["rv"]["place"]["l"] == k and (st["rv"].get("mut") or st["rv"]["k"] == "rawptr")
                           for b_ in fn.blocks for st in b_["stmts"])
            if borrowed:
                continue
            # every element for which the predicate holds decrements (or leaves the loop)
            psw = []
            for b_ in fn.blocks:
                if b_["term"]["k"] != "switch" or b_["id"] not in fn.reachable_blocks() or not fn.in_loop(b_["id"]):
                    continue
                sj = SwitchInfo(fn, b_["id"])
                dj = deep_strip(sj.discr)
                if sj.is_bool and dj[0] == "call" and dj[1] == pred and any(x[0] == "call" and len(x) > 3 and x[3] == nblock and x[1].endswith("Iterator::next") for x in walk(dj)):
                    psw.append(sj)
            if len(psw) != 1:
                continue
            t_true = psw[0].target_of(True)
            if t_true is None or nblock in fn.reach(t_true, avoid={dec[0][1]}, include_src=True):
                continue
            return ("the minuend is the budget a scan over the whole of %s started with; the scan decrements its counter once per element "
                    "satisfying %s and this site runs only after the scan visited every element, so %s(..) <= the budget" % (show(xs, 2), short(pred), short(cpath)))
    return None


def discharge_by_guard(p, s):
    """Returns a reason string if a dominating guard makes the site unreachable/unfailing."""
    fn = s.fn
    if s.kind == "assert":
        k = s.what
        v = _discharge_by_valueset(fn, s)
        if v:
            return v
        if k in ("RemainderByZero", "DivisionByZero"):
            # the assert's operand is the dividend; the divisor is the value compared with 0 in `cond`
            div = None
            cl = _local_of(s.t["cond"])
            if cl is not None:
                for (dp, b, i, kind, payload) in fn.defs(cl):
                    if kind == "rv" and payload["k"] == "bin" and payload["op"] == "Eq":
                        for side, other in ((payload["a"], payload["b"]), (payload["b"], payload["a"])):
                            oc = other.get("const")
                            if oc and oc.get("kind") == "int" and oc.get("value") == 0:
                                div = side
            if div is None:
                return None
            l = _local_of(div)
            if l is None:
                c = div.get("const")
                if c and c.get("kind") == "int" and c.get("value") not in (0, None):
                    return "constant non-zero divisor %s" % c.get("value")
                return None
            l = _root_local(fn, l)
            edges = _edge_facts_nonzero(fn, l)
            defs = _blocks_defining(fn, l)
            if must_hold_at(fn, s.block, lambda a, b: (a, b) in edges, lambda a: False, lambda a: a in defs):
                return "divisor _%d is checked non-zero on every path (dominating guard)" % l
            return None
        if k == "Overflow(Sub)":
            # x - c with c const and a dominating x != 0 / x >= c guard (c == 1)
            a, b = s.t["ops"]
            c = b.get("const")
            l = _local_of(a)
            if c and c.get("kind") == "int" and c.get("value") == 1 and l is not None:
                l = _root_local(fn, l)
                edges = _edge_facts_nonzero(fn, l)
                defs = _blocks_defining(fn, l)
                # the subtraction's own assignment to l happens after the check in the same iteration:
                if must_hold_at(fn, s.block, lambda x, y: (x, y) in edges, lambda x: False, lambda x: x in defs and x != s.block):
                    return "minuend _%d is checked non-zero before `- 1` on every path" % l
            why = scan_exhausted(p, fn, s.block, a, b)
            if why:
                return why
            return None
        if k == "Overflow(Rem)":
            # signed MIN % -1: divisor constant other than -1, or guarded positive
            b = s.t["ops"][1]
            c = b.get("const")
            if c and c.get("kind") == "int" and c.get("value") != -1:
                return "constant divisor %s" % c.get("value")
            return None
        if k == "Overflow(Add)":
            # c + 1 where c < bound was just tested (same integer type): c + 1 <= bound, representable
            a_, b_ = s.t["ops"]
            c_ = b_.get("const")
            if c_ and c_.get("kind") == "int" and c_.get("value") == 1 and len(s.ops) >= 1:
                # i + 1 where i is an item of a half-open integer range (reversed or not): i < end <= MAX of the same type
                e_ = deep_strip(s.ops[0])
                while e_[0] == "field" and e_[2] == "0" and deep_strip(e_[1])[0] == "as":
                    e_ = deep_strip(e_[1])
                if e_[0] == "as" and e_[2] == "Some":
                    c2_ = deep_strip(e_[1])
                    if c2_[0] == "call" and c2_[1] == "core::iter::traits::iterator::Iterator::next" and c2_[2]:
                        it_ = deep_strip(c2_[2][0])
                        while it_[0] == "call" and it_[1].rsplit("::", 1)[-1] in ("rev", "into_iter", "iter", "by_ref", "deref", "borrow_mut", "deref_mut") and it_[2]:
                            it_ = deep_strip(it_[2][0])
                        if it_[0] == "agg" and isinstance(it_[1], str) and it_[1].endswith("::Range"):
                            return "item of a half-open range plus one: every item is strictly below the range's end, which has the item's own type"
            l_ = _local_of(a_)
            if c_ and c_.get("kind") == "int" and c_.get("value") == 1 and l_ is not None:
                l_ = _root_local(fn, l_)
                edges_ = set()
                for blk in fn.blocks:
                    if blk["term"]["k"] != "switch" or blk["id"] not in fn.reachable_blocks() or not SwitchInfo(fn, blk["id"]).is_bool:
                        continue
                    si_ = SwitchInfo(fn, blk["id"])
                    for truth in (True, False):
                        nf = _cmp_locals(fn, blk["term"]["discr"], truth)
                        if nf and nf[0] == "Lt" and nf[1] == ("local", l_) and nf[2][0] == "local":
                            tl = fn.locals[nf[2][1]] if nf[2][1] < len(fn.locals) else None
                            if tl == fn.locals[l_] and si_.target_of(truth) is not None:
                                edges_.add((blk["id"], si_.target_of(truth)))
                defs_ = _blocks_defining(fn, l_)
                if edges_ and must_hold_at(fn, s.block, lambda x, y: (x, y) in edges_, lambda x: False, lambda x: x in defs_ and x != s.block):
                    return "the counter _%d was tested below a bound of its own type on every path to `+ 1` (and not changed since): the sum is at most that bound" % l_
        if k == "Overflow(Add)" and bounded_counter(fn, s.block, s.t["ops"]):
            return "a usize/u64 counter that starts at a small constant and is only ever incremented by 1, at most once per element taken from an in-memory iterator (it cannot exceed the number of elements)"
        if k == "Overflow(Add)":
            # (y - 1) + 1: the addend restores a value that existed; x's dominating definition is a checked `_ - 1`
            a, b = s.t["ops"]
            c = b.get("const")
            l = _local_of(a)
            if c and c.get("kind") == "int" and c.get("value") == 1 and l is not None:
                l = _root_local(fn, l)
                ds = [d for d in fn.defs(l) if not d[0]]
                decs = []
                for d in ds:
                    e = deep_strip(fn._rvalue(d[4], frozenset(), 12, d[1])) if d[3] == "rv" else None
                    if e is not None and e[0] == "field" and e[2] == "0":
                        e = deep_strip(e[1])
                    if e is not None and e[0] == "bin" and e[1].replace("WithOverflow", "") == "Sub" and deep_strip(e[3]) == ("const", "int", 1):
                        decs.append(d)
                for d in decs:
                    if fn.dominates(d[1], s.block) and all(o is d or not fn.can_reach(o[1], s.block, avoid={d[1]}) or o[1] == d[1] for o in ds):
                        return "the operand was just computed as `_ - 1` (checked) on every path: adding 1 restores a representable value"
        if k.startswith("Overflow("):
            a, b = s.t["ops"]
            ca, cb = a.get("const"), b.get("const")
            if ca and cb and ca.get("kind") == "int" and cb.get("kind") == "int":
                return "constant operands %s, %s (folded by the compiler; cannot overflow or the build fails)" % (ca.get("value"), cb.get("value"))
            return None
        return None
    # calls
    decl = s.what
    if decl in DISPLAY_CTORS:
        # a fallible Display only panics when the formatted text goes through io::Write::write_fmt / format! / to_string;
        # written with fmt::Write::write_fmt the error is the call's Result
        users = [c for c in fn.calls() if any(x[0] == "call" and x[1] == decl and len(x) > 3 and x[3] == s.block for a in c.arg_exprs() for x in walk(a))]
        users = [c for c in users if c.block != s.block and not (c.callee or "").startswith("core::fmt::rt::Argument") and not (c.callee or "").startswith("core::fmt::Arguments")]
        # only the calls that take the Arguments value itself (not values computed from the formatting call's result)
        users = [c for c in users if not any(x[0] == "call" and x[1].endswith("::write_fmt") for a in c.arg_exprs() for x in walk(a))]
        if users and all(c.decl == "core::fmt::Write::write_fmt" for c in users):
            return "the formatted value is written with fmt::Write::write_fmt: a Display error is returned as Err, not turned into a panic"
    if s.t.get("target") is None and s.kind == "call":
        # diverging call (panic!/unreachable!): unreachable if the enum tests on the way exclude every variant
        excluded = {}
        allv = {}
        for sb, si, al in fn.conditions(s.block):
            d = strip(si.discr)
            if d[0] == "discr" and si.variants:
                key = deep_strip(d[1])
                allv[key] = set(si.variants.values())
                allowed = set()
                for v, t in al:
                    lab = si.label(v)
                    if isinstance(lab, tuple) and lab and lab[0] == "otherwise":
                        allowed |= set(lab[1])
                    else:
                        allowed.add(lab)
                excluded.setdefault(key, set(allv[key]))
                excluded[key] &= allowed   # variants still possible
        for key, possible in excluded.items():
            if not possible:
                return "unreachable: the preceding tests on %s exclude every variant of the enum" % show(key, 3)
    if decl == "core::ops::index::Index::index" and len(s.ops) > 1 and re.match(r"^&('\w+ )?str$", (s.t.get("arg_tys") or [""])[0] or ""):
        # a str sliced at offsets that str::find / rfind returned for that very string (or at its length): in range and on a
        # character boundary by the contract of those searches
        rg = deep_strip(s.ops[1])
        if rg[0] == "agg" and re.search(r"range::Range(To|From)?$", rg[1] or ""):
            whole = _sig(s.ops[0])

            def found_in_same(e):
                e = deep_strip(e)
                alts = e[1] if e[0] == "phi" else (e,)
                for a in alts:
                    a = deep_strip(a)
                    if a[0] == "call" and a[1] == "core::str::<impl str>::len" and _sig(a[2][0]) == whole:
                        continue
                    if a[0] == "field" and a[2] == "0" and deep_strip(a[1])[0] == "as" and deep_strip(a[1])[2] == "Some":
                        c = deep_strip(deep_strip(a[1])[1])
                        if c[0] == "call" and c[1] in ("core::str::<impl str>::find", "core::str::<impl str>::rfind") and _sig(c[2][0]) == whole:
                            continue
                    return False
                return True
            if rg[3] and all(found_in_same(v) for n_, v in rg[3]):
                return "the bounds are offsets str::find returned for the sliced string itself (or its length): in range and on a char boundary"
    if decl == "core::str::<impl str>::split_at" and len(s.ops) > 1:
        a = deep_strip(s.ops[1])
        alts = a[1] if a[0] == "phi" else (a,)
        okf = bool(alts)
        for x in alts:
            x = deep_strip(x)
            c = deep_strip(deep_strip(x[1])[1]) if x[0] == "field" and x[2] == "0" and deep_strip(x[1])[0] == "as" and deep_strip(x[1])[2] == "Some" else None
            if not (c is not None and c[0] == "call" and c[1] in ("core::str::<impl str>::find", "core::str::<impl str>::rfind") and _sig(c[2][0]) == _sig(s.ops[0])):
                okf = False
        if okf:
            return "split at an offset str::find returned for the same string: in range and on a char boundary"
    if decl in ("alloc::vec::Vec::<T, A>::drain", "alloc::string::String::drain") and len(s.ops) > 1:
        rg = strip(s.ops[1])
        if rg[0] == "agg" and rg[1].endswith("RangeFull"):
            return "drain(..) over the full range cannot be out of bounds"
    if decl == "rand::rng::Rng::gen_range":
        rngs = [x for a in s.ops for x in walk(a) if x[0] == "agg" and x[1].endswith("::Range")]
        if rngs:
            fd = dict(rngs[0][3])
            st, en = deep_strip(fd.get("start")), deep_strip(fd.get("end"))
            for sb, si, al in fn.conditions(s.block):
                labs = {si.label(v) for v, _ in al}
                if labs in ({True}, {False}):
                    nf = cmp_nf(si.discr, True in labs)
                    if nf and nf[0] == "Lt" and deep_strip(nf[1]) == st and deep_strip(nf[2]) == en:
                        return "non-empty range: the call is control-dependent on start < end"
                    if st == ("const", "int", 0):
                        z = q.zero_test(si, en)
                        if z is not None and labs == {not z}:
                            return "non-empty range 0..end: the call is control-dependent on end != 0 (unsigned)"
                if st == ("const", "int", 0):
                    ze = q.zero_edges(si, en)      # also `match end { 0 => .., n => gen_range(0..n) }`
                    if ze is not None and {t_ for _, t_ in al} == {ze[1]}:
                        return "non-empty range 0..end: the call is control-dependent on end != 0 (unsigned)"
    if decl in ("core::char::methods::<impl char>::to_digit", "core::char::methods::<impl char>::from_digit"):
        rdx = strip(s.ops[1]) if len(s.ops) > 1 else None
        if rdx and rdx[0] == "const" and isinstance(rdx[2], int) and 2 <= rdx[2] <= 36:
            return "constant radix %d" % rdx[2]
        return None
    if decl in ("core::option::Option::<T>::unwrap", "core::option::Option::<T>::expect"):
        recv = s.ops[0]
        e = strip(recv)
        # 1) Vec::pop on a vector whose length was checked
        if e[0] == "call" and e[1] == "alloc::vec::Vec::<T, A>::pop":
            vec = deep_strip(e[2][0])
            pop_block = e[3]
            if _vec_nonempty_at(fn, vec, pop_block):
                return "Vec::pop().unwrap(): the vector's length is checked (== k >= 1 / non-empty) on every path to the pop and not modified in between"
            return None
        # 2) Option slot known Some
        if e[0] == "call" and e[1] in ("core::option::Option::<T>::as_mut", "core::option::Option::<T>::as_ref", "core::option::Option::<T>::take"):
            slot = deep_strip(e[2][0])
            if _slot_is_some_at(fn, slot, e[3]):
                return "the Option slot %s is Some on every path (filled or tested non-empty; not cleared in between)" % show(slot, 3)
            return None
        return None
    return None


def _vec_nonempty_at(fn, vec, block):
    edges = set()
    for blk in fn.blocks:
        if blk["term"]["k"] != "switch" or blk["id"] not in fn.reachable_blocks():
            continue
        si = SwitchInfo(fn, blk["id"])
        if not si.is_bool:
            continue
        for truth in (True, False):
            nf = cmp_nf(si.discr, truth)
            if nf:
                op, a, b = nf
                a, b = deep_strip(a), deep_strip(b)

                def is_len(x):
                    return x[0] == "call" and x[1] in ("alloc::vec::Vec::<T, A>::len", "core::slice::<impl [T]>::len") and deep_strip(x[2][0]) == vec

                def cst(x):
                    return x[2] if x[0] == "const" and x[1] == "int" else None
                ok = False
                if op == "Eq" and ((is_len(a) and (cst(b) or 0) >= 1) or (is_len(b) and (cst(a) or 0) >= 1)):
                    ok = True
                if op == "Ne" and ((is_len(a) and cst(b) == 0) or (is_len(b) and cst(a) == 0)):
                    ok = True
                if op == "Lt" and cst(a) is not None and cst(a) >= 0 and is_len(b):
                    ok = True
                if op == "Le" and cst(a) is not None and cst(a) >= 1 and is_len(b):
                    ok = True
                if ok:
                    t = si.target_of(truth)
                    if t is not None:
                        edges.add((blk["id"], t))
            d = strip(si.discr)
            if d[0] == "call" and d[1] in ("alloc::vec::Vec::<T, A>::is_empty", "core::slice::<impl [T]>::is_empty") and deep_strip(d[2][0]) == vec:
                t = si.target_of(False)
                if t is not None:
                    edges.add((blk["id"], t))
    MUT = ("pop", "push", "clear", "truncate", "remove", "drain", "retain", "swap_remove", "split_off", "append", "extend", "insert", "dedup", "resize")

    def kills(a):
        t = fn.term(a)
        if t["k"] == "call" and a != block:
            nm = (t.get("decl") or "").rsplit("::", 1)[-1]
            if nm in MUT and t.get("args"):
                if deep_strip(fn.expr(t["args"][0])) == vec:
                    return True
        return False
    return must_hold_at(fn, block, lambda a, b: (a, b) in edges, lambda a: False, kills)


def _slot_is_some_at(fn, slot, block):
    edges = set()
    gens = set()
    kills = set()
    for blk in fn.blocks:
        bid = blk["id"]
        if bid not in fn.reachable_blocks():
            continue
        t = blk["term"]
        if t["k"] == "switch":
            si = SwitchInfo(fn, bid)
            d = strip(si.discr)
            if d[0] == "call" and d[1] in ("core::option::Option::<T>::is_none", "core::option::Option::<T>::is_some") and _same_slot(deep_strip(d[2][0]), slot):
                want = d[1].endswith("is_some")
                tt = si.target_of(want)
                if tt is not None:
                    edges.add((bid, tt))
            if d[0] == "discr" and _same_slot(deep_strip(d[1]), slot):
                tt = si.target_of("Some")
                if tt is not None:
                    edges.add((bid, tt))
        for i, s in enumerate(blk["stmts"]):
            if s["k"] == "assign" and s["lhs"]["p"]:
                lv = deep_strip(fn.lvalue(s["lhs"]))
                if _same_slot(lv, slot) or (s["lhs"]["p"] == ["*"] and _same_slot(deep_strip(fn.local_expr(s["lhs"]["l"])), slot)):
                    v = fn._rvalue(s["rv"], frozenset(), 20, bid)
                    if v[0] == "agg" and v[2] == "Some":
                        gens.add(bid)
                        kills.discard(bid)
                    else:
                        kills.add(bid)
                        gens.discard(bid)
        if t["k"] == "call" and bid != block:
            nm = (t.get("decl") or "")
            if nm.rsplit("::", 1)[-1] in ("take", "replace", "insert", "get_or_insert_with") and "Option" in nm and t.get("args"):
                if _same_slot(deep_strip(fn.expr(t["args"][0])), slot):
                    kills.add(bid)
    return must_hold_at(fn, block, lambda a, b: (a, b) in edges, lambda a: a in gens, lambda a: a in kills)


def _same_slot(a, b):
    def base(e):
        # flow-insensitive expr of `*arg` is φ(param | assigned values): compare by the parameter
        if e[0] == "phi":
            ps = [x for x in e[1] if x[0] == "param"]
            if ps:
                return ps[0]
        return e
    return base(a) == base(b)


# ---- allow-list -------------------------------------------------------------

def load_allow():
    path = os.path.join(VERIF, "allow", "panic_sites.json")
    if not os.path.exists(path):
        return {}
    with open(path) as f:
        return {e["key"]: e for e in json.load(f)["sites"]}


def load_patterns():
    path = os.path.join(VERIF, "allow", "panic_sites.json")
    if not os.path.exists(path):
        return []
    with open(path) as f:
        return json.load(f).get("patterns", [])


def stores_to(site):
    """For an overflow assert: the `Adt.field` places the checked result is stored to (the counter being updated)."""
    if site.kind != "assert" or not site.what.startswith("Overflow("):
        return set()
    fn = site.fn
    cl = _local_of(site.t["cond"])
    if cl is None:
        pl = site.t["cond"].get("copy") or site.t["cond"].get("move")
        cl = pl["l"] if pl else None
    if cl is None:
        return set()
    out = set()
    for b, i, st in fn.assigns():
        rv = st["rv"]
        if rv["k"] != "use":
            continue
        pl = rv["a"].get("copy") or rv["a"].get("move")
        if not pl or pl["l"] != cl:
            continue
        proj = st["lhs"]["p"]
        if proj and isinstance(proj[-1], dict) and "f" in proj[-1] and proj[-1].get("adt"):
            out.add("%s.%s" % (proj[-1]["adt"], proj[-1]["f"]))
        else:
            out.add("?")
    return out


def _add_terms(e):
    e = deep_strip(e)
    if e[0] == "bin" and e[1] == "Add":
        return _add_terms(e[2]) + _add_terms(e[3])
    return [e]


def _is_match_offset(e):
    """(match_indices(..).next() as Some).0.0: the byte offset of a match in the searched string"""
    x = e
    while x[0] == "field" and x[2] == "0":
        x = deep_strip(x[1])
    if x is e or x[0] != "as" or x[2] != "Some":
        return False
    c = deep_strip(x[1])
    return c[0] == "call" and c[1].endswith("Iterator::next") and any(y[0] == "call" and y[1] == "core::str::<impl str>::match_indices" for y in walk(c))


def _offset_term(e, pt):
    if e[0] == "const" and e[1] == "int" and isinstance(e[2], int) and 0 <= e[2] <= int(pt.get("max_const", 16)):
        return True
    if _is_match_offset(e):
        return True
    if e[0] == "call" and e[1] in ("alloc::string::String::len", "core::str::<impl str>::len") and len(e[2]) == 1:
        # the scanned name: a String started empty in this function and filled by push
        x = deep_strip(e[2][0])
        alts = x[1] if x[0] == "phi" else (x,)
        ok_ = False
        for a in alts:
            a = deep_strip(a)
            while a[0] == "field" or a[0] == "as":
                a = deep_strip(a[1])
            if a[0] == "call" and a[1] == "alloc::string::String::new":
                ok_ = True
            elif a[0] == "call" and a[1].endswith("Iterator::next") and any(y[0] == "call" and y[1] == "core::str::<impl str>::chars" for y in walk(a)):
                ok_ = True      # `String::from(first)`: started from the first character the scan read (From::from is transparent)
            elif a[0] == "call" and (a[1].endswith("from_residual") or a[1].endswith("Try::branch")):
                continue
            else:
                return False
        return ok_
    return False


def match_pattern(site, pats):
    for pt in pats:
        if pt.get("kind") != site.kind or pt.get("what") != site.what:
            continue
        if "stores_to" in pt:
            st = stores_to(site)
            if st == {pt["stores_to"]}:
                return pt
        if "minuend_field" in pt:
            # counter -= count(prefix of the slice just handed to the inner writer, as long as the writer reported):
            # the subtrahend is bounded by what the forwarded slice holds, whatever bounded that slice
            if site.fn.path != pt.get("fn") or len(site.ops) < 2:
                continue
            m = deep_strip(site.ops[0])
            malts = m[1] if m[0] == "phi" else (m,)
            if not any(deep_strip(x)[0] == "field" and deep_strip(x)[2] == pt["minuend_field"] and deep_strip(deep_strip(x)[1]) in (("param", 1), ("deref", ("param", 1))) for x in malts):
                continue
            c = deep_strip(site.ops[1])
            if c[0] != "call" or not c[1].endswith(pt.get("count_fn", "\0")) or len(c[2]) != 1:
                continue
            pre = deep_strip(c[2][0])
            if pre[0] != "call" or pre[1] != "core::ops::index::Index::index":
                continue
            fwd = [w_ for w_ in site.fn.calls("std::io::Write::write")]
            if len(fwd) == 1 and _sig(fwd[0].arg(1)) == _sig(pre) and deep_strip(pre[2][0])[0] == "param":
                return pt       # the forwarded slice itself
            whole, rg = deep_strip(pre[2][0]), deep_strip(pre[2][1])
            if rg[0] != "agg" or not rg[1].endswith("range::RangeTo"):
                continue
            end = deep_strip(_canon_try(dict(rg[3])["end"]))
            # end = (write(w, whole') as Ok).0 with whole' the same slice
            if end[0] == "field" and end[2] == "0" and end[1][0] == "as" and end[1][2] == "Ok":
                wc = deep_strip(end[1][1])
                if wc[0] == "call" and wc[1] == "std::io::Write::write" and len(wc[2]) == 2 and _sig(wc[2][1]) == _sig(whole):
                    return pt
            continue
        if "offset_sum" in pt:
            # a sum of byte lengths of disjoint parts of one in-memory string: the offset of a match, the length of the literal
            # matched there, the length of the name scanned right after it, the length of its terminator
            if site.fn.path != pt.get("fn") or len(site.ops) < 2:
                continue
            if all(_offset_term(t_, pt) for o_ in site.ops[:2] for t_ in _add_terms(o_)) and any(_is_match_offset(t_) for o_ in site.ops[:2] for t_ in _add_terms(o_)):
                return pt
            continue
        if "range_bounds" in pt:
            # a str sliced with bounds that are all positions the scanner itself produced on that same string
            if site.fn.path != pt.get("fn") or len(site.ops) < 2 or _sig(site.ops[0]) != pt.get("ops0"):
                continue
            rg = deep_strip(site.ops[1])
            if rg[0] != "agg" or "range::Range" not in rg[1]:
                continue

            def alts(e):
                e = deep_strip(e)
                if e[0] == "phi":
                    out = []
                    for a in e[1]:
                        out.extend(alts(a))
                    return out
                return [e]

            def ok_bound(e):
                if e == ("param", 2) and "arg2" in pt["range_bounds"]:
                    return True
                if "offset-sum" in pt["range_bounds"] and all(_offset_term(t_, pt) for t_ in _add_terms(e)) and any(_is_match_offset(t_) for t_ in _add_terms(e)):
                    return True
                if e[0] == "call" and e[1] == "core::str::<impl str>::len" and _sig(e[2][0]) == pt.get("ops0") and "len" in pt["range_bounds"]:
                    return True
                if "peek-pos" in pt["range_bounds"]:
                    x = e
                    n = 0
                    while x[0] == "field" and x[2] == "0":
                        x = deep_strip(x[1])
                        n += 1
                    if n >= 1 and x[0] == "as" and x[2] == "Some":
                        c = deep_strip(x[1])
                        if c[0] == "call" and c[1].rsplit("::", 1)[-1] in ("peek", "next") and "Peekable" in c[1] or (c[0] == "call" and c[1].endswith("Iterator::next")):
                            return True
                return False
            if all(ok_bound(a) for nm, v in rg[3] for a in alts(v)):
                return pt
            continue
        if "ops0_prefix" in pt:
            if site.fn.path == pt.get("fn") and site.ops and _sig(site.ops[0]).startswith(pt["ops0_prefix"]):
                return pt
            continue
        if "ops0" in pt:
            # an index into a named table with an index that is an item of an iterator (no arithmetic on it)
            if site.fn.path != pt.get("fn") or len(site.ops) < 2:
                continue
            if _sig(site.ops[0]) != pt["ops0"]:
                continue
            e1 = deep_strip(site.ops[1])
            if any(x[0] == "call" and x[1].endswith(pt.get("ops1_has_call", "\0")) for x in walk(e1)) and not any(x[0] in ("bin", "un") for x in walk(e1)):
                return pt
    return None


def check_cone(r, p, cone, prop, allow=None, satisfied=(), ordinal=True):
    """Evaluate the inventory over `cone` under rule recorder r.
    allow: dict key -> entry {reason, requires?}; `satisfied` = rule ids established in this run."""
    allow = load_allow() if allow is None else allow
    sites = inventory(p, cone)
    pats = load_patterns()
    seen = {}
    stats = {"sites": 0, "guard": 0, "allow": 0, "flagged": 0}
    # a site inside a helper that was spliced into several callers is one construct: it is judged in every
    # calling context and reported once
    groups, order = {}, []
    for s in sites:
        gk = (s.origin, str(s.at), s.kind, s.what) if s.origin else ("", id(s))
        if gk not in groups:
            groups[gk] = []
            order.append(gk)
        groups[gk].append(s)
    for gk in order:
        members = groups[gk]
        verdicts = []
        for s in members:
            g = discharge_by_guard(p, s)
            if g:
                verdicts.append((s, "guard", g, None))
                continue
            verdicts.append((s, None, None, None))
        bad = [v for v in verdicts if v[1] is None]
        s = (bad[0] if bad else verdicts[0])[0]
        k = s.key()
        n = seen.get(k, 0)
        seen[k] = n + 1
        if n:
            k = "%s #%d" % (k, n)
        stats["sites"] += 1
        if not bad:
            stats["guard"] += 1
            r.ok("site:" + k, fn=s.fn, site=s.at, detail="discharged by guard: " + verdicts[0][2] + (" (in all %d calling contexts)" % len(members) if len(members) > 1 else ""))
            continue
        ents = [allow.get(k if b is s else b.key()) or match_pattern(b, pats) for b, _, _, _ in bad]
        ent = ents[0]
        if all(e and (not e.get("requires") or e["requires"] in satisfied) for e in ents):
            stats["allow"] += 1
            r.ok("site:" + k, fn=s.fn, site=s.at, detail="allow-listed: %s%s" % (ent["reason"], (" [established by %s]" % ent["requires"]) if ent.get("requires") else ""))
            continue
        stats["flagged"] += 1
        why = "potential panic site not discharged: %s %s — %s; operands: %s" % (s.kind, s.what, s.reason, s.sig())
        if ent and ent.get("requires"):
            why += " (allow entry requires %s, which does not hold in this run)" % ent["requires"]
        r.fail("site:" + k, fn=s.fn, site=s.at, detail=why)
    return stats
