"""G8: value-set dataflow over integer locals (finite sets of constants, join =
union, widening to TOP), with SwitchInt edge refinement.  Plain forward dataflow
over the CFG: no path is executed and no solver is involved."""
from collections import deque

TOP = None
MAXSET = 64


def _key(pl):
    """Trackable place: a whole local, or local.<tuple field> (checked-op results)."""
    if not pl["p"]:
        return (pl["l"], None)
    if len(pl["p"]) == 1 and isinstance(pl["p"][0], dict) and "f" in pl["p"][0] and pl["p"][0]["f"].isdigit():
        return (pl["l"], pl["p"][0]["f"])
    return None


def _binop(op, a, b):
    op = op.replace("WithOverflow", "").replace("Unchecked", "")
    if a is TOP or b is TOP:
        return TOP
    out = set()
    for x in a:
        for y in b:
            if op == "Add":
                out.add(x + y)
            elif op == "Sub":
                out.add(x - y)
            elif op == "Mul":
                out.add(x * y)
            else:
                return TOP
            if len(out) > MAXSET:
                return TOP
    return frozenset(out)


class ValueSets:
    def __init__(self, fn):
        self.fn = fn
        self.IN = {}
        self.OUT = {}
        self._run()

    def _operand(self, st, op):
        if "const" in op:
            c = op["const"]
            if c.get("kind") == "int" and isinstance(c.get("value"), int):
                return frozenset([c["value"]])
            if c.get("kind") == "bool":
                return frozenset([1 if c.get("value") else 0])
            return TOP
        pl = op.get("copy") or op.get("move")
        k = _key(pl)
        if k is None:
            return TOP
        return st.get(k, TOP)

    def _transfer(self, b, st):
        st = dict(st)
        fn = self.fn
        for s in fn.stmts(b):
            if s["k"] != "assign":
                continue
            k = _key(s["lhs"])
            if k is None:
                continue
            rv = s["rv"]
            val = TOP
            if rv["k"] == "use":
                val = self._operand(st, rv["a"])
            elif rv["k"] == "cast" and rv["kind"] == "IntToInt":
                val = self._operand(st, rv["a"])
            elif rv["k"] == "bin":
                val = _binop(rv["op"], self._operand(st, rv["a"]), self._operand(st, rv["b"]))
                if rv["op"].endswith("WithOverflow"):
                    st[(s["lhs"]["l"], "0")] = val
                    st[(s["lhs"]["l"], "1")] = TOP
                    continue
            # writing the whole local invalidates tracked fields
            if k[1] is None:
                for kk in [x for x in st if x[0] == k[0] and x[1] is not None]:
                    del st[kk]
            if val is TOP:
                st.pop(k, None)
            else:
                st[k] = val
        t = fn.term(b)
        if t["k"] == "call":
            k = _key(t["dest"])
            if k is not None:
                st.pop(k, None)
                for kk in [x for x in st if x[0] == k[0]]:
                    del st[kk]
        return st

    def _edge(self, b, succ, st):
        """refine on SwitchInt edges over a tracked integer"""
        t = self.fn.term(b)
        if t["k"] != "switch":
            return st
        pl = t["discr"].get("copy") or t["discr"].get("move")
        if not pl:
            return st
        k = _key(pl)
        if k is None:
            return st
        arms = [(a["value"], a["target"]) for a in t["arms"]]
        st = dict(st)
        vals_here = [v for v, tg in arms if tg == succ]
        if succ == t["otherwise"] and not vals_here:
            cur = st.get(k, TOP)
            if cur is not TOP:
                st[k] = frozenset(x for x in cur if x not in [v for v, _ in arms])
        elif vals_here and succ != t["otherwise"]:
            cur = st.get(k, TOP)
            new = frozenset(vals_here)
            st[k] = new if cur is TOP else (cur & new)
        return st

    @staticmethod
    def _join(a, b):
        if a is None:
            return dict(b)
        out = {}
        for k in a:
            if k in b and a[k] is not TOP and b[k] is not TOP:
                u = a[k] | b[k]
                if len(u) <= MAXSET:
                    out[k] = u
        return out

    def _run(self):
        fn = self.fn
        rb = fn.reachable_blocks()
        IN = {b: None for b in rb}
        IN[0] = {}
        visits = {b: 0 for b in rb}
        work = deque([0])
        while work:
            b = work.popleft()
            visits[b] += 1
            st = IN[b] if IN[b] is not None else {}
            if visits[b] > 12:
                st = {}  # widen: loop did not stabilise
            out = self._transfer(b, st)
            self.OUT[b] = out
            for s in fn.succ[b]:
                e = self._edge(b, s, out)
                new = self._join(IN[s], e)
                if IN[s] is None or new != IN[s]:
                    IN[s] = new
                    if s not in work:
                        work.append(s)
        self.IN = {b: (v if v is not None else {}) for b, v in IN.items()}

    def at_end(self, b, operand):
        """value set of an operand at the end of block b (just before its terminator)"""
        return self._operand(self.OUT.get(b, {}), operand)
