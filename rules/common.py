"""Helpers shared by the rule modules."""
from l4sa import q
from l4sa.core import AnchorMissing, ShapeUnrecognised, strip, walk, show, short, calls_in, SwitchInfo

IO_WRITE_METHODS = ["write", "flush", "write_all", "write_fmt", "write_vectored"]


def role(c):
    """Stable, line-free name for a call site: short callee + ordinal among the
    same callee in that function."""
    same = [x for x in c.fn.calls() if x.callee == c.callee]
    idx = [x.block for x in same].index(c.block)
    return "%s#%d" % (short(c.callee), idx)


def uses_of_local(fn, local):
    """(block, kind) for every read of `local` (whole or projected)."""
    out = []
    from l4sa.core import _block_places
    for b in fn.blocks:
        for s in b["stmts"]:
            if s["k"] == "assign":
                from l4sa.core import _rv_places
                for pl in _rv_places(s["rv"]):
                    if pl["l"] == local:
                        out.append((b["id"], "stmt"))
        t = b["term"]
        if t["k"] == "call":
            for a in t.get("args", []):
                pl = a.get("copy") or a.get("move")
                if pl and pl["l"] == local:
                    out.append((b["id"], "arg:" + str(t.get("decl"))))
        elif t["k"] == "switch":
            pl = t["discr"].get("copy") or t["discr"].get("move")
            if pl and pl["l"] == local:
                out.append((b["id"], "switch"))
    return out


ERROR_DISCARDING = ("unwrap_or", "unwrap_or_default", "unwrap_or_else", "ok", "is_ok", "is_err", "map_or", "map_or_else", "iter", "unwrap_unchecked", "is_ok_and")


def result_is_checked(fn, c, strict=False):
    """The Result produced by call site c is consumed: branched on (`?`, match,
    if let), passed on to another call (map_err, and_then, …) or returned.
    A result that is only dropped is not checked."""
    d = c.dest
    if d["p"]:
        return True
    if d["l"] == 0:
        return True
    seen = set()
    work = [d["l"]]
    while work:
        l = work.pop()
        if l in seen:
            continue
        seen.add(l)
        if l == 0:
            return True
        for (b, kind) in uses_of_local(fn, l):
            if kind.startswith("arg:"):
                nm = kind[4:]
                if strict and nm.startswith("core::result::Result::<T, E>::") and nm.rsplit("::", 1)[-1] in ERROR_DISCARDING:
                    continue  # the error is thrown away by this combinator
                return True
            if kind == "switch":
                return True
            # copied/moved into another local or discriminant read
            for s in fn.stmts(b):
                if s["k"] == "assign":
                    from l4sa.core import _rv_places
                    if any(pl["l"] == l for pl in _rv_places(s["rv"])):
                        if s["rv"]["k"] == "discr":
                            return True
                        work.append(s["lhs"]["l"])
    return False


def w1_forwarders(ctx, p, cfg, self_tys, traits=("std::io::Write",), rid="W1", floor=None):
    """Every io::Write (and optionally encode::Write::set_style) method of the
    given wrapper types forwards to the same-named method of the wrapped writer."""
    with ctx.rule(rid, "forwarding wrappers", cfg) as r:
        n = 0
        for i in p.impls:
            if i.get("trait") not in traits or i.get("self_ty") not in self_tys:
                continue
            for m in i["methods"]:
                f = p.fn(m)
                name = m.rsplit("::", 1)[-1]
                decl = i["trait"] + "::" + name
                ok, detail = q.check_forwarder(f, decl)
                r.require(ok, "forward:%s" % m, fn=f, detail=detail)
                n += 1
            if i.get("trait") == "std::io::Write":
                names = {m.rsplit("::", 1)[-1] for m in i["methods"]}
                for need in ("write", "flush"):
                    r.require(need in names, "has:%s:%s" % (i["self_ty"], need), detail="%s implements io::Write::%s" % (i["self_ty"], need))
        found = {i["self_ty"] for i in p.impls if i.get("trait") in traits and i.get("self_ty") in self_tys}
        for st in self_tys:
            r.require(st in found, "wrapper-present:%s" % st, detail="impl of %s for %s found" % (traits, st))
        if floor is not None:
            r.floor("forwarding-methods", n, floor)


def closure_captures(p, cf):
    """capture expressions (in the parent's terms) of closure function cf, by slot index"""
    parent = p.fns.get(cf.d.get("closure_parent") or "") or p.fns.get(cf.d.get("closure_of") or "")
    if parent is None:
        return None
    for b, i, st in parent.assigns():
        rv = st["rv"]
        if rv["k"] == "agg" and rv.get("agg") == "closure" and rv.get("closure") == cf.path:
            return [parent._operand(o, frozenset(), 30) for o in rv["fields"]], parent
    return None


def resolve_capture(p, cf, e):
    """If e (deep-stripped, in closure cf) is a capture slot, return (expr in parent, parent fn)."""
    from l4sa.core import deep_strip
    e = deep_strip(e)
    if e[0] == "field" and e[1] == ("param", 1) and str(e[2]).isdigit():
        cc = closure_captures(p, cf)
        if cc:
            caps, parent = cc
            k = int(e[2])
            if k < len(caps):
                return deep_strip(caps[k]), parent
    return None


OO = "std::fs::OpenOptions::"


def open_options(f, opn):
    """{setter: [argument expr]} of the OpenOptions value opened at call site `opn`: the setters chained into
    the receiver expression plus setters applied (by &mut) to the same OpenOptions::new() value on the way
    to the open.  A setter applied twice is not a recognised shape."""
    from l4sa.core import ShapeUnrecognised, calls_in, walk
    chain = opn.arg(0)
    opts, seen = {}, set()
    for c in calls_in(chain):
        if c[1].startswith(OO) and len(c[2]) == 2:
            opts.setdefault(c[1].rsplit("::", 1)[-1], []).append(c[2][1])
            seen.add(c[3])
    roots = {c[3] for c in calls_in(chain) if c[1] == OO + "new"}
    if roots:
        for cs in f.calls():
            n = cs.callee or ""
            if not n.startswith(OO) or len(cs.args) != 2 or cs.block in seen:
                continue
            if any(x[0] == "call" and x[1] == OO + "new" and x[3] in roots for x in walk(cs.arg(0))) and f.dominates(cs.block, opn.block):
                opts.setdefault(n.rsplit("::", 1)[-1], []).append(cs.arg(1))
                seen.add(cs.block)
    for k, v in opts.items():
        if len(v) > 1:
            raise ShapeUnrecognised("%s: OpenOptions::%s is applied %d times before the open" % (f.path, k, len(v)))
    return opts
