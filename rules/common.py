"""Helpers shared by the rule modules."""
from l4sa import q
from l4sa.core import AnchorMissing, ShapeUnrecognised, strip, walk, show, short, calls_in, SwitchInfo

IO_WRITE_METHODS = ["write", "flush", "write_all", "write_fmt", "write_vectored"]


def role(c):
    """Stable, line-free name for a call site: short callee + ordinal among the
    same callee in that function."""
    same = [x for x in c.fn.calls() if x.callee == c.callee]
    idx = [x.block for x in same].index(c.block)
    return "%s#%d" % (short(c.callee), idx)


def uses_of_local(fn, local):
    """(block, kind) for every read of `local` (whole or projected)."""
    out = []
    from l4sa.core import _block_places
    for b in fn.blocks:
        for s in b["stmts"]:
            if s["k"] == "assign":
                from l4sa.core import _rv_places
                for pl in _rv_places(s["rv"]):
                    if pl["l"] == local:
                        out.append((b["id"], "stmt"))
        t = b["term"]
        if t["k"] == "call":
            for a in t.get("args", []):
                pl = a.get("copy") or a.get("move")
                if pl and pl["l"] == local:
                    out.append((b["id"], "arg:" + str(t.get("decl"))))
        elif t["k"] == "switch":
            pl = t["discr"].get("copy") or t["discr"].get("move")
            if pl and pl["l"] == local:
                out.append((b["id"], "switch"))
    return out


ERROR_DISCARDING = ("unwrap_or", "unwrap_or_default", "unwrap_or_else", "ok", "is_ok", "is_err", "map_or", "map_or_else", "iter", "unwrap_unchecked", "is_ok_and")


def result_is_checked(fn, c, strict=False):
    """The Result produced by call site c is consumed: branched on (`?`, match,
    if let), passed on to another call (map_err, and_then, …) or returned.
    A result that is only dropped is not checked."""
    d = c.dest
    if d["p"]:
        return True
    if d["l"] == 0:
        return True
    seen = set()
    work = [d["l"]]
    while work:
        l = work.pop()
        if l in seen:
            continue
        seen.add(l)
        if l == 0:
            return True
        for (b, kind) in uses_of_local(fn, l):
            if kind.startswith("arg:"):
                nm = kind[4:]
                if strict and nm.startswith("core::result::Result::<T, E>::") and nm.rsplit("::", 1)[-1] in ERROR_DISCARDING:
                    continue  # the error is thrown away by this combinator
                return True
            if kind == "switch":
                return True
            # copied/moved into another local or discriminant read
            for s in fn.stmts(b):
                if s["k"] == "assign":
                    from l4sa.core import _rv_places
                    if any(pl["l"] == l for pl in _rv_places(s["rv"])):
                        if s["rv"]["k"] == "discr":
                            return True
                        work.append(s["lhs"]["l"])
    return False


def w1_forwarders(ctx, p, cfg, self_tys, traits=("std::io::Write",), rid="W1", floor=None):
    """Every io::Write (and optionally encode::Write::set_style) method of the
    given wrapper types forwards to the same-named method of the wrapped writer."""
    with ctx.rule(rid, "forwarding wrappers", cfg) as r:
        n = 0
        for i in p.impls:
            if i.get("trait") not in traits or i.get("self_ty") not in self_tys:
                continue
            for m in i["methods"]:
                f = p.fn(m)
                name = m.rsplit("::", 1)[-1]
                decl = i["trait"] + "::" + name
                ok, detail = q.check_forwarder(f, decl)
                r.require(ok, "forward:%s" % m, fn=f, detail=detail)
                n += 1
            if i.get("trait") == "std::io::Write":
                names = {m.rsplit("::", 1)[-1] for m in i["methods"]}
                for need in ("write", "flush"):
                    r.require(need in names, "has:%s:%s" % (i["self_ty"], need), detail="%s implements io::Write::%s" % (i["self_ty"], need))
        found = {i["self_ty"] for i in p.impls if i.get("trait") in traits and i.get("self_ty") in self_tys}
        for st in self_tys:
            r.require(st in found, "wrapper-present:%s" % st, detail="impl of %s for %s found" % (traits, st))
        if floor is not None:
            r.floor("forwarding-methods", n, floor)


def closure_captures(p, cf):
    """capture expressions (in the parent's terms) of closure function cf, by slot index"""
    parent = p.fns.get(cf.d.get("closure_parent") or "") or p.fns.get(cf.d.get("closure_of") or "")
    if parent is None:
        return None
    for b, i, st in parent.assigns():
        rv = st["rv"]
        if rv["k"] == "agg" and rv.get("agg") == "closure" and rv.get("closure") == cf.path:
            return [parent._operand(o, frozenset(), 30) for o in rv["fields"]], parent
    return None


def resolve_capture(p, cf, e):
    """If e (deep-stripped, in closure cf) is a capture slot, return (expr in parent, parent fn)."""
    from l4sa.core import deep_strip
    e = deep_strip(e)
    if e[0] == "field" and e[1] == ("param", 1) and str(e[2]).isdigit():
        cc = closure_captures(p, cf)
        if cc:
            caps, parent = cc
            k = int(e[2])
            if k < len(caps):
                return deep_strip(caps[k]), parent
    return None


OO = "std::fs::OpenOptions::"


def open_options(f, opn):
    """{setter: [argument expr]} of the OpenOptions value opened at call site `opn`: the setters chained into
    the receiver expression plus setters applied (by &mut) to the same OpenOptions::new() value on the way
    to the open.  A setter applied twice is not a recognised shape."""
    from l4sa.core import ShapeUnrecognised, calls_in, walk
    chain = opn.arg(0)
    opts, seen = {}, set()
    from l4sa import q as _q

    def argval(block, fallback):
        # boolean arguments with their short-circuit structure made explicit
        t = f.term(block)
        if t["k"] == "call" and len(t.get("args", [])) == 2 and (t.get("arg_tys") or ["", ""])[1] == "bool":
            return _q.bool_value(f, t["args"][1])
        return fallback
    for c in calls_in(chain):
        if c[1].startswith(OO) and len(c[2]) == 2:
            opts.setdefault(c[1].rsplit("::", 1)[-1], []).append(argval(c[3], c[2][1]))
            seen.add(c[3])
    roots = {c[3] for c in calls_in(chain) if c[1] == OO + "new"}
    cond_sets = {}
    if roots:
        for cs in f.calls():
            n = cs.callee or ""
            if not n.startswith(OO) or len(cs.args) != 2 or cs.block in seen:
                continue
            if any(x[0] == "call" and x[1] == OO + "new" and x[3] in roots for x in walk(cs.arg(0))) and f.dominates(cs.block, opn.block):
                opts.setdefault(n.rsplit("::", 1)[-1], []).append(argval(cs.block, cs.arg(1)))
                seen.add(cs.block)
            elif any(x[0] == "call" and x[1] == OO + "new" and x[3] in roots for x in walk(cs.arg(0))) and f.can_reach(cs.block, opn.block) and not f.in_loop(cs.block):
                # a setter applied on some paths only (`if append { o.append(true) } else { o.truncate(true) }`): the option is
                # (condition of that path) AND (the argument); unset elsewhere, which is false for every OpenOptions flag
                base = _q.path_condition(f, opn.block) or []
                pc = _q.path_condition(f, cs.block)
                if pc is None:
                    raise ShapeUnrecognised("%s: OpenOptions::%s is applied under a condition that is not a conjunction" % (f.path, n.rsplit("::", 1)[-1]))
                e_ = argval(cs.block, cs.arg(1))
                for cj in pc:
                    if cj not in base:
                        e_ = _q._b_and(cj, e_)
                cond_sets.setdefault(n.rsplit("::", 1)[-1], []).append(e_)
                seen.add(cs.block)
    for k, es in cond_sets.items():
        if k in opts:
            raise ShapeUnrecognised("%s: OpenOptions::%s is applied both unconditionally and on a branch" % (f.path, k))
        acc = es[0]
        for e_ in es[1:]:
            acc = _q._b_or(acc, e_)
        opts[k] = [acc]
    for k, v in opts.items():
        if len(v) > 1:
            raise ShapeUnrecognised("%s: OpenOptions::%s is applied %d times before the open" % (f.path, k, len(v)))
    return opts


# ---- byte / character unit discipline ---------------------------------------------------------------------------
# A str is indexed by byte offsets and iterated by characters.  A quantity that is definitely a byte count (a
# length, a find/match offset, a char_indices position) used to step a character iterator, or a definite character
# count used as a byte offset, is a unit error that ASCII-only inputs never show.

BYTE_SOURCES = ("core::str::<impl str>::len", "alloc::string::String::len", "core::str::<impl str>::find", "core::str::<impl str>::rfind",
                "core::char::methods::<impl char>::len_utf8", "core::str::<impl str>::floor_char_boundary", "core::str::<impl str>::ceil_char_boundary")
CHAR_STEPPERS = ("nth", "skip", "take", "advance_by", "step_by", "nth_back")
BYTE_SINKS = ("core::str::<impl str>::split_at", "alloc::string::String::truncate", "core::str::<impl str>::is_char_boundary", "alloc::string::String::split_off",
              "core::str::<impl str>::split_at_mut", "alloc::string::String::insert", "alloc::string::String::insert_str", "alloc::string::String::remove")


def _units(e, depth=10):
    """definite units carried by an integer expression: subset of {'B','C'}"""
    from l4sa.core import strip
    e = strip(e)
    if not isinstance(e, tuple) or depth <= 0:
        return set()
    k = e[0]
    if k == "call":
        if e[1] in BYTE_SOURCES:
            return {"B"}
        nm = e[1].rsplit("::", 1)[-1]
        if e[1] == "core::iter::traits::iterator::Iterator::count" and e[2]:
            inner = strip(e[2][0])
            from l4sa.core import walk as _walk
            if any(x[0] == "call" and x[1] == "core::str::<impl str>::chars" for x in _walk(inner)) \
                    and not any(x[0] == "call" and x[1].endswith("char_indices") for x in _walk(inner)):
                return {"C"}
            return set()
        if nm in ("unwrap_or", "unwrap_or_else", "unwrap_or_default", "unwrap", "expect", "min", "max", "saturating_sub", "saturating_add", "checked_sub", "checked_add",
                  "wrapping_sub", "wrapping_add", "map_or", "branch", "ok_or", "ok_or_else", "clamp"):
            out = set()
            for a in e[2]:
                out |= _units(a, depth - 1)
            return out
        return set()
    if k == "bin" and e[1].replace("WithOverflow", "").replace("Unchecked", "") in ("Add", "Sub"):
        return _units(e[2], depth - 1) | _units(e[3], depth - 1)
    if k in ("field", "as"):
        return _units(e[1], depth - 1)
    if k == "cast":
        return _units(e[2], depth - 1)
    if k == "phi":
        out = set()
        for a in e[1]:
            out |= _units(a, depth - 1)
        return out
    return set()


def rule_units(r, p, fns, floor=1):
    """evaluate the byte/char discipline over the given functions under rule recorder r"""
    from l4sa.core import walk, show
    n = 0
    for f in fns:
        for c in f.calls():
            nm = (c.decl or c.callee or "")
            short = nm.rsplit("::", 1)[-1]
            tys = c.t.get("arg_tys", [])
            recv_ty = tys[0] if tys else ""
            if nm.startswith("core::iter::traits::iterator::Iterator::") and short in CHAR_STEPPERS and ("str::iter::Chars" in recv_ty or "CharIndices" in recv_ty):
                n += 1
                u = _units(c.arg(1)) if len(c.args) > 1 else set()
                r.require("B" not in u, "chars-stepped-by-chars:%s/%s" % (f.path.rsplit("::", 1)[-1], role(c)), fn=f, site=c.at,
                          detail="%s(%s) on %s" % (short, show(c.arg(1), 4) if len(c.args) > 1 else "", recv_ty[-60:]),
                          fail_detail="a character iterator is advanced by a byte quantity: %s(%s) — for text containing multi-byte characters the cursor overshoots and the following pattern text is swallowed or misparsed" % (short, show(c.arg(1), 5)))
            elif nm == "core::ops::index::Index::index" and recv_ty.replace("&mut ", "&").strip() in ("&str", "&alloc::string::String") and len(c.args) > 1:
                n += 1
                u = set()
                for x in walk(c.arg(1)):
                    if x[0] == "agg" and "range::Range" in x[1]:
                        for nm2, v in x[3]:
                            u |= _units(v)
                r.require("C" not in u, "str-indexed-by-bytes:%s/%s" % (f.path.rsplit("::", 1)[-1], role(c)), fn=f, site=c.at,
                          detail="index %s" % show(c.arg(1), 4),
                          fail_detail="a str is sliced with a character count: %s" % show(c.arg(1), 5))
            elif nm in BYTE_SINKS and len(c.args) > 1:
                n += 1
                u = _units(c.arg(1))
                r.require("C" not in u, "byte-offset-argument:%s/%s" % (f.path.rsplit("::", 1)[-1], role(c)), fn=f, site=c.at, detail="%s(%s)" % (short, show(c.arg(1), 4)),
                          fail_detail="%s takes a byte offset but receives a character count: %s" % (short, show(c.arg(1), 5)))
    r.floor("unit-sensitive-sites", n, floor)
    return n


def loop_trip_count(f, block):
    """Expression for the number of times the loop around `block` runs its body, for the three counted spellings:
         for _ in 0..E            -> E
         v = E; while v > 0 / v != 0 { ..; v -= 1 }     -> E
         v = 0; while v < E { ..; v += 1 }              -> E
       None if the loop is not one of these."""
    from l4sa.core import SwitchInfo, cmp_nf, strip, deep_strip, walk
    NEXT = "core::iter::traits::iterator::Iterator::next"
    body = {x for x in f.reach(block, include_src=True) if block in f.reach(x, include_src=True)}
    if not body or (len(body) == 1 and block not in f.reach(block)):
        return None
    nx = [c for c in f.calls(NEXT) if c.block in body and f.dominates(c.block, block)]
    if nx:
        for x in walk(nx[0].arg(0)):
            if x[0] == "agg" and x[1].endswith("::Range") and not any(y[0] == "call" and y[1].rsplit("::", 1)[-1] in ("rev", "step_by", "skip", "take", "filter") for y in walk(nx[0].arg(0))):
                fd = dict(x[3])
                if deep_strip(fd.get("start")) == ("const", "int", 0):
                    return fd.get("end")
        return None
    for b in sorted(body):
        if f.term(b)["k"] != "switch" or not f.dominates(b, block):
            continue
        si = SwitchInfo(f, b)
        stay = [x for x in f.succ[b] if x in body]
        if not si.is_bool or len(stay) != 1 or len(f.succ[b]) != 2:
            continue
        truth = [si.label(v) for v, t in si.edges if t == stay[0]]
        if not truth or truth[0] not in (True, False):
            continue
        nf = cmp_nf(si.discr, truth[0])
        if nf is None:
            continue
        op, a, c = nf[0], deep_strip(nf[1]), deep_strip(nf[2])

        def counter(e, step):
            if e[0] != "phi":
                return None
            init = [x for x in e[1] if not any(y[0] == "cycle" for y in walk(x))]
            rest = [x for x in e[1] if any(y[0] == "cycle" for y in walk(x))]
            if len(init) != 1 or not rest:
                return None
            for x in rest:
                x = deep_strip(x)
                if x[0] == "field" and x[2] == "0":
                    x = deep_strip(x[1])
                if not (x[0] == "bin" and x[1].replace("WithOverflow", "").replace("Unchecked", "") == ("Sub" if step < 0 else "Add") and deep_strip(x[2])[0] == "cycle"
                        and deep_strip(x[3]) == ("const", "int", 1)):
                    return None
            return init[0]
        Z = ("const", "int", 0)
        if (op == "Lt" and a == Z) or (op == "Ne" and Z in (a, c)):          # 0 < v   /   v != 0
            v = c if a == Z else a
            init = counter(v, -1)
            if init is not None:
                return init
        if op == "Lt":                                                        # v < E
            init = counter(a, +1)
            if init is not None and deep_strip(init) == Z:
                return c
    return None


class Probe:
    """A recorder with the Rule interface that only remembers whether everything required held: lets one property's
    check ask whether a rule of another property is established on the analysed tree."""

    def __init__(self):
        self.good = True
        self.count = 0
        self.failed = []

    def ok(self, key, detail="", fn=None, site=None):
        self.count += 1

    def fail(self, key, detail="", fn=None, site=None, path=None):
        self.count += 1
        self.good = False
        self.failed.append(key)

    def require(self, cond, key, detail="", fn=None, site=None, fail_detail=None, path=None):
        (self.ok if cond else self.fail)(key)
        return bool(cond)

    def floor(self, name, count, minimum):
        self.require(count >= minimum, "floor:" + name)


def established(rule_fn, *args):
    """True if rule_fn(recorder, *args) records only satisfied obligations (and at least one)"""
    from l4sa.core import AnchorMissing, ShapeUnrecognised
    pr = Probe()
    try:
        rule_fn(pr, *args)
    except (AnchorMissing, ShapeUnrecognised, KeyError, IndexError, TypeError, AttributeError):
        return False
    return pr.good and pr.count > 0


def rule_config_reaches_component(ctx, p, cfg, rid, deser_suffix, ctor_suffix, stored=None):
    """A component built from a document gets the document's values: the Deserialize impl hands the configuration (or its
    fields) to the constructor unchanged - no rewriting of particular values on the way - and returns exactly that
    component; the constructor stores its argument in the field the component reads (`stored`: field -> parameter)."""
    from l4sa.core import AnchorMissing, deep_strip, walk, show
    from l4sa import q
    with ctx.rule(rid, "the configured value reaches the component unchanged", cfg) as r:
        fs = [f for path, f in p.fns.items() if path.endswith("::deserialize") and deser_suffix in path and "Derive" not in (f.d.get("exp") or "") and "config::raw::Deserialize" in path]
        if len(fs) != 1:
            raise AnchorMissing("Deserialize impl %s not found (%d candidates)" % (deser_suffix, len(fs)))
        f = fs[0]
        cs = [c for c in f.calls() if (c.callee or "").endswith(ctor_suffix)]
        if not r.require(len(cs) == 1, "one-constructor-call", fn=f, detail="%s call sites in %s: %d" % (ctor_suffix, deser_suffix, len(cs))):
            return

        def from_config(e):
            e = deep_strip(e)
            while e[0] == "field":
                e = deep_strip(e[1])
            return e == ("param", 2)
        c = cs[0]
        args = c.arg_exprs()
        bad = [show(a, 5) for a in args if not (from_config(a) and not any(x[0] in ("phi", "bin", "un") or (x[0] == "call") for x in walk(deep_strip(a))))]
        r.require(bool(args) and not bad, "arguments-are-the-configured-values", fn=f, site=c.at, detail="%s(%s)" % (ctor_suffix, ", ".join(show(a, 4) for a in args)),
                  fail_detail="%s is built from %s, not from the configured value as it stands: some configured values are replaced on the way" % (ctor_suffix, bad))
        rets = [e for b, e in q.ret_assignments(f) if q.classify_ret(e) != "err" and not q.is_from_residual(e)]
        r.require(bool(rets) and all(any(x[0] == "call" and len(x) > 3 and x[3] == c.block and x[1] == c.callee for x in walk(e)) for e in rets), "returns-that-component", fn=f,
                  detail="every non-error return is the component built there")
        if stored:
            g = p.fn(c.callee)
            e = deep_strip(g.local_expr(0))
            fd = {n: deep_strip(v) for n, v in e[3]} if e[0] == "agg" else {}
            for fld, prm in stored.items():
                r.require(fd.get(fld) == ("param", prm), "constructor-stores:%s" % fld, fn=g, detail="%s keeps its argument in `%s`: %s" % (ctor_suffix, fld, show(fd.get(fld), 4) if fd.get(fld) else None))


def rule_visitor_entry_points(ctx, p, cfg, rid, self_ty_part, documented, what):
    """The forms a hand-written serde visitor accepts are the forms the documentation lists.  serde's provided methods turn
    every other form into an "invalid type" error or hand it on to a documented method unchanged (visit_string and
    visit_borrowed_str go to visit_str, the narrower integers to visit_u64/visit_i64).  An override of one of those is fine
    when it does the same - passes its argument on as it is - and is a new accepted form (or a different reading of a
    documented one) when it does anything else."""
    from l4sa.core import deep_strip, TRANSPARENT_CALLS
    with ctx.rule(rid, "the visitor accepts the documented forms only", cfg) as r:
        impls = [i for i in p.impls if "de::Visitor" in (i.get("trait") or "") and self_ty_part in str(i.get("self_ty")) and "_::" not in str(i.get("self_ty"))]
        if len(impls) != 1:
            raise AnchorMissing("hand-written serde Visitor for %s: found %d" % (what, len(impls)))
        meths = {m.rsplit("::", 1)[-1]: m for m in impls[0]["methods"]}
        have = sorted(n for n in meths if n in documented)
        r.require(bool(have), "documented-forms:%s" % what, detail="%s: documented entry points implemented: %s" % (what, have))
        for name, path in sorted(meths.items()):
            if name in documented or name == "expecting" or path not in p.fns:
                continue
            f = p.fn(path)
            e = deep_strip(f.local_expr(0))
            targets = {meths[d] for d in documented if d in meths}
            ok = e[0] == "call" and e[1] in targets and len(e[2]) >= 2
            if ok:
                a = deep_strip(e[2][1])
                while isinstance(a, tuple) and a and a[0] == "cast" and a[1] == "IntToInt":
                    a = deep_strip(a[2])
                ok = a == ("param", 2)
            if ok:
                other = [c.callee for c in f.calls() if c.callee not in targets and c.callee not in TRANSPARENT_CALLS and (c.callee or "").rsplit("::", 1)[-1] not in ("drop", "deref", "as_str", "as_ref", "borrow", "from", "into")]
                ok = not other
            r.require(ok, "extra-form:%s/%s" % (what, name), fn=f, detail="%s only hands its argument on to a documented entry point" % name,
                      fail_detail="the %s visitor also implements %s, and not as a plain hand-over to %s: a form the documentation does not list is accepted, or a listed one is read differently (%s)" % (
                          what, name, "/".join(sorted(documented)), show(e, 4)))


def threshold_gates(nl, block, pred):
    """conditions of `block` in `nl` that are the threshold predicate: a call of `pred`, or - when the predicate was inlined - a
    comparison with the predicate's own normal form (level <= self.<the field the predicate reads>), in either polarity.
    Returns (switch block, SwitchInfo, allowed edges, the predicate call (synthesised for the inlined form), label of the admitting edge)."""
    from l4sa.core import cmp_nf as _nf, deep_strip
    out = []
    pe = pred.local_expr(0)
    pnf = _nf(pe)
    fld = deep_strip(pnf[2]) if pnf and pnf[0] == "Le" and deep_strip(pnf[1]) == ("param", 2) else None
    if fld is not None and not (fld[0] == "field" and fld[1] == ("param", 1)):
        fld = None
    for sb, si, al in nl.conditions(block):
        d = strip(si.discr)
        if d[0] == "call" and d[1] == pred.path:
            out.append((sb, si, al, d, True))
            continue
        if fld is None or not si.is_bool:
            continue
        for want in (True, False):
            nf = _nf(si.discr, want)
            if nf and nf[0] == "Le" and deep_strip(nf[2]) == fld:
                out.append((sb, si, al, ("call", pred.path, (("param", 1), nf[1]), None), want))
                break
    return out
