"""C08 — a failed or interrupted rotation loses no acknowledged data and is recoverable."""
import itertools

from l4sa import q, panics
from l4sa.core import AnchorMissing, ShapeUnrecognised, SwitchInfo, strip, deep_strip, walk, show, calls_in, cmp_nf
from rules import rolling, common, c07

CLAIMED = True
TECHNIQUE = "static analysis over type-checked MIR: Result-discipline inventory over the rotation cone, panic-site inventory with guard/must-fact discharge, context-bound truth table of the truncate flag at every reopen reachable from append, writer-slot closing/reopening rules, oldest-first shift order"
LEVEL_TEXT = """Static, all-paths decision of the error/recovery clauses: (E1) every call in the cone of RollingFileAppender::append (policy, rollers, helpers) whose callee returns a Result has its value propagated, matched or passed on — enumerated exceptions: best-effort diagnostics written to stderr; (E2) no un-discharged panic site on the rotation path (append, get_writer, LogFile::roll, CompoundPolicy::process, every Roll implementor and helpers; cut at dyn Encode and dyn Trigger); (E3) the writer slot is None after roll() whether or not the roller succeeds and the next append reopens the active path, appending unless it truncates — never positioned at offset 0 of content it keeps (C05.R3/R5 premises); (E4) no OpenOptions::truncate whose argument can be true is reachable from Append::append — the argument's truth table is evaluated per calling context with the call site's constant arguments bound; (E5) archives are shifted oldest-first, so the only chunk ever overwritten is the one due for eviction, and a move that fails leaves its source where it was (rename first; the copy fallback removes the source only on the copy's success edge; C07.R5 re-evaluated). On-disk states at every crash point and after every fault are not decided (they need the file system). (E9) the size estimate of a reopened file is its size (C06.Z3 re-evaluated). (E10) no function reachable from RollingFileAppender::append calls the log facade (log::__private_api / log::logger): a record emitted under the writer lock re-enters the same appender and the append never returns; the matcher is shown to work on the one facade call of the crate (init_from_raw_config)."""
LEVEL_NOTE = "Trusted: rustc MIR/callee resolution; std::fs semantics; the external may-panic contract table. Decides error propagation, panic freedom, reopen mode and shift order on all paths; not crash images."
EXPLANATION = """Decided: E1 error discipline, E2 no panic on the rotation path, E3 recoverability (slot closed, reopened iff closed), E4 reopening never truncates, E5 crash ordering (oldest first). Undecided: on-disk state at every crash point / after every fault sequence."""
DECIDED = ["E1", "E2", "E3", "E4", "E5", "E1b no Ok return is reachable from the Err edge of a file-system call on the rotation path (only rename/NotFound is tolerated)", "E1c nor from the Err edge of a step the crate implements itself (policy, trigger, roller)", "E5c/E7 final step last, staging name fresh (C07.R3/R12 re-evaluated)", "E8 a failed roll does not leave the busy flag lowered (C07.R14 re-evaluated)", "E10 the rotation path emits no record of its own (no re-entry under the writer lock)", "E11 the roller runs whenever the trigger asks, guarded by nothing else (C05.R4 re-evaluated)"]
UNDECIDED = ["on-disk states at every crash point and after every fault"]
TRUSTED = ["rustc nightly MIR + Instance::try_resolve", "std::fs semantics", "external may-panic contract table"]

CUT = ("encode::Encode", "append::rolling_file::policy::compound::trigger::Trigger", "append::Append", "filter::Filter", "std::io::Write", "encode::Write")
EXPAND = "append::env_util::expand_env_vars"


def rotation_cone(p):
    ents = [rolling.APPEND]
    return p.cone(ents, cut_traits=CUT, stop=(EXPAND,)) - {EXPAND}


def rule_reopen_keeps_data(ctx, p, cfg, rid="E4"):
    """no OpenOptions::truncate whose argument can be true is reachable from Append::append, per calling context"""
    with ctx.rule(rid, "reopening must not destroy data", cfg) as r:
        ro = rolling.roles(p)
        g = ro["get_writer"]
        cone = rotation_cone(p)
        tr_sites = p.all_calls("std::fs::OpenOptions::truncate", within=cone)
        # contexts: call sites of the opener inside the append cone (not the builder)
        ctxs = [c for c in p.all_calls(g.path) if c.fn.path in cone]
        r.require(len(ctxs) >= 2, "reopen-contexts", fn=g, detail="call sites of %s reachable from append: %d" % (g.path, len(ctxs)))
        n = 0
        for t in tr_sites:
            tf = t.fn
            e = q.bool_value(tf, t.t["args"][1])
            atoms = [deep_strip(a) for a in q.bool_atoms(e)]
            param_atoms = [a for a in atoms if a[0] == "param"]
            sites = [c for c in ctxs if c.callee == tf.path] if tf.path == g.path else [None]
            if tf.path != g.path:
                sites = [None]
            for c in sites:
                n += 1
                env = {}
                if c is not None:
                    for a in param_atoms:
                        v = strip(c.arg(a[1] - 1)) if a[1] - 1 < len(c.args) else None
                        if v is not None and v[0] == "const" and v[1] == "bool":
                            env[a] = bool(v[2])
                free = [a for a in atoms if a not in env]
                res = set()
                for vals in itertools.product([False, True], repeat=len(free)):
                    ev = dict(env)
                    ev.update(dict(zip(free, vals)))
                    res |= q.eval_bool(_ds(e), ev)
                ctxname = "%s/%s" % (c.fn.path, common.role(c)) if c is not None else tf.path
                r.require(res == {False}, "truncate-false-in-context:%s" % ctxname, fn=tf, site=(c.at if c is not None else t.at),
                          detail="truncate(%s) with the context's constants bound %s evaluates to %s" % (show(e, 4), {show(k): v for k, v in env.items()}, sorted(res)),
                          fail_detail="a reopen reachable from append can truncate the active file: truncate(%s) evaluates to %s in context %s — after a failed roll the un-archived records would be destroyed" % (
                              show(e, 4), sorted(res), ctxname))
        if not tr_sites:
            r.ok("no-truncate-in-append-cone", detail="no OpenOptions::truncate call is reachable from append")
        # the builder may truncate (open time only)
        b = p.fn(rolling.BUILD)
        bc = p.cone([rolling.BUILD], cut_traits=CUT)
        r.require(bool(p.all_calls("std::fs::OpenOptions::truncate", within=bc)), "truncate-at-open-time-exists", fn=b, detail="truncate mode is still honoured when the appender is built")


LOG_FACADE = ("log::__private_api::log", "log::__private_api::enabled", "log::logger", "log::__private_api::log_impl")


def _facade_calls(p, within=None):
    out = []
    for path, f in p.fns.items():
        if within is not None and path not in within:
            continue
        for c in f.calls():
            cal = c.callee or ""
            if cal.startswith("log::__private_api::") or cal == "log::logger" or cal.startswith("<dyn log::Log") or cal == "log::Log::log":
                out.append(c)
    return out


def rule_no_reentry(ctx, p, cfg, rid="E10"):
    """the rotation path runs under the appender's writer lock, on the thread that is inside Logger::log: a record emitted
    through the log facade from there comes back to the same appender and waits for the lock its own caller holds"""
    with ctx.rule(rid, "the rotation path emits no record of its own", cfg) as r:
        cone = rotation_cone(p)
        everywhere = _facade_calls(p)
        if "config_parsing" in p.meta.get("features", []):
            r.floor("facade-call-recognised", len(everywhere), 1)   # positive control: init_from_raw_config's log::info! must be seen by the same matcher
        bad = _facade_calls(p, within=cone)
        for c in bad:
            r.fail("facade-call:%s/%s" % (c.fn.path, common.role(c)), fn=c.fn, site=c.at,
                   detail="%s calls %s while append holds the writer lock: with log4rs installed as the logger the record re-enters this appender and the append never returns" % (c.fn.path, c.callee))
        if not bad:
            r.ok("no-facade-call-in-cone", detail="%d functions reachable from RollingFileAppender::append; none calls the log facade (%d such call(s) elsewhere in the crate)" % (len(cone), len(everywhere)))


def run(ctx):
    configs = ["default", "full"] if ctx.tier == "quick" else ["default", "release", "full", "nobg-full", "single:rolling_file_appender,compound_policy,fixed_window_roller,delete_roller"]
    for cfg in configs:
        run_cfg(ctx, ctx.prog(cfg), cfg)


def run_cfg(ctx, p, cfg):
    feats = set(p.meta.get("features", []))
    from rules import c06
    c06.rule_seeding(ctx, p, cfg, "E9")   # "resumes rotating": after a failed roll the reopened file's size is what the trigger is shown, so the roll is retried at once (C06.Z3 re-evaluated)
    with ctx.rule("E1", "error discipline", cfg) as r:
        cone = rotation_cone(p)
        n = 0
        for path in sorted(cone):
            f = p.fns[path]
            if "Derive" in (f.d.get("exp") or ""):
                continue
            for c in f.calls():
                dty = c.t.get("dest_ty", "")
                if not dty.startswith("core::result::Result<"):
                    continue
                if (c.callee or "").endswith("from_residual") or (c.callee or "").endswith("Try::branch"):
                    continue
                n += 1
                ok = common.result_is_checked(f, c, strict=True)
                if not ok and c.callee == "std::time::SystemTime::duration_since":
                    r.ok("clock-fallback:%s/%s" % (path, common.role(c)), fn=f, site=c.at, detail="a clock before the epoch falls back to 0 for the temp-file suffix (not a rotation error)")
                    continue
                if not ok and c.callee == "std::io::Write::write_fmt":
                    recv = c.arg(0)
                    if any(x[0] == "call" and x[1] in ("std::io::stdio::stderr",) for x in walk(recv)):
                        r.ok("diagnostic:%s/%s" % (path, common.role(c)), fn=f, site=c.at, detail="best-effort diagnostic to stderr; its Result is deliberately ignored")
                        continue
                r.require(ok, "result:%s/%s" % (path, common.role(c)), fn=f, site=c.at, detail="%s returns %s; value is propagated/matched/passed on" % (c.callee, dty[:60]),
                          fail_detail="the Result of %s is dropped on the rotation path" % c.callee)
        r.floor("result-returning-calls", n, 15)

    with ctx.rule("E1b", "file-system errors are not swallowed", cfg) as r:
        cone = rotation_cone(p)
        n = 0
        mv_ok, mv_path = False, None
        if "fixed_window_roller" in feats:
            try:
                mv_path = c07.roles(p)["move_file"].path
                mv_ok = c07.move_file_contract_holds(p)
            except Exception:
                mv_ok = False
        for path in sorted(cone):
            f = p.fns[path]
            if "Derive" in (f.d.get("exp") or ""):
                continue
            oks = set(q.ok_exit_blocks(f))
            for c in f.calls():
                if not (c.callee or "").startswith("std::fs::") or not c.t.get("dest_ty", "").startswith("core::result::Result<"):
                    continue
                n += 1
                if mv_ok and path == mv_path:
                    # decided row by row by the move_file table (E5b): the only error of a file-system call that ends in Ok is the
                    # rename's NotFound
                    r.ok("fs-error-reaches-the-caller:%s/%s" % (path.rsplit("::", 1)[-1], common.role(c)), fn=f, site=c.at, detail="by the move_file table: only rename/NotFound ends in Ok")
                    continue
                leaks = []
                for blk in f.blocks:
                    if blk["term"]["k"] != "switch" or blk["id"] not in f.reachable_blocks():
                        continue
                    si = SwitchInfo(f, blk["id"])
                    d = strip(si.discr)
                    if d[0] != "discr":
                        continue
                    inner = strip(d[1])
                    if inner[0] == "call" and inner[1] == "core::ops::try_trait::Try::branch" and inner[2]:
                        inner = strip(inner[2][0])
                    if not (inner[0] == "call" and len(inner) > 3 and inner[3] == c.block):
                        continue
                    for lab in ("Err", "Break"):
                        t = si.target_of(lab)
                        if t is not None:
                            hit = q.const_skipping_paths(f, t, set(), oks) | ({t} & oks)      # flags and Option/Result values set on the way decide the switches on them
                            if hit:
                                leaks.append((blk["id"], sorted(hit)))
                # the one documented tolerance: a rename whose source does not exist (a missing intermediate archive)
                tolerated = False
                if leaks and c.callee == "std::fs::rename":
                    # cut the "kind is NotFound" edge of every test of the error's kind: what is left must not reach an Ok return
                    cuts = []
                    for blk2 in f.blocks:
                        if blk2["term"]["k"] != "switch" or blk2["id"] not in f.reachable_blocks():
                            continue
                        si2 = SwitchInfo(f, blk2["id"])
                        nf2 = cmp_nf(si2.discr, True)
                        if nf2 and nf2[0] in ("Eq", "Ne") and any(x[0] == "call" and x[1] == "std::io::error::Error::kind" for x in walk(si2.discr)) and \
                                any(x[0] == "agg" and x[2] == "NotFound" or (x[0] == "const" and x[2] == "NotFound") for x in walk(si2.discr)):
                            t_nf = si2.target_of(nf2[0] == "Eq")
                            if t_nf is not None:
                                cuts.append((blk2["id"], t_nf))
                    if cuts:
                        starts = [si_t for blk_, _ in leaks for si_t in [SwitchInfo(f, blk_).target_of("Err"), SwitchInfo(f, blk_).target_of("Break")] if si_t is not None]
                        # .. except through a second file-system attempt (the copy fallback), whose own result is then what is returned
                        fallback = {c2.block for c2 in f.calls() if (c2.callee or "").startswith("std::fs::") and c2.block != c.block}
                        tolerated = all(not (q.skipping_paths(f, st_, fallback, oks, cut_edges=cuts) or (st_ in oks)) for st_ in starts)
                if leaks and c.callee == "std::fs::rename" and not tolerated:
                    tolerated = all(any(any(x[0] == "call" and x[1] == "std::io::error::Error::kind" for x in walk(si2.discr)) and
                                        any(x[0] == "agg" and x[2] == "NotFound" or (x[0] == "const" and x[2] == "NotFound") for x in walk(si2.discr))
                                        for sb2, si2, al2 in f.conditions(ob)) for _, obs in leaks for ob in obs)
                r.require(not leaks or tolerated, "fs-error-reaches-the-caller:%s/%s" % (path.rsplit("::", 1)[-1], common.role(c)), fn=f, site=c.at,
                          detail="no Ok return is reachable from the Err edge of %s%s" % (c.callee, " (except NotFound, tolerated by contract)" if tolerated else ""),
                          fail_detail="an error of %s can end in an Ok return (switch bb%s -> Ok exits %s): the step is skipped silently and the rotation goes on as if it had succeeded" % (
                              c.callee, leaks[0][0] if leaks else None, leaks[0][1] if leaks else None))
        r.floor("fs-calls-on-the-rotation-path", n, 6)

    with ctx.rule("E1c", "errors of the rotation's own steps are not swallowed", cfg) as r:
        # E1b for the steps the crate implements itself (policy, trigger, roller, helpers): a failed step ends in an error of the
        # append that ran it, never in an Ok - "the failing append reports an error"
        cone = rotation_cone(p)
        n = 0
        for path in sorted(cone):
            f = p.fns[path]
            if "Derive" in (f.d.get("exp") or ""):
                continue
            oks = set(q.ok_exit_blocks(f))
            if not oks or "Result<" not in (f.d.get("sig") or "").rsplit("->", 1)[-1]:
                continue        # the detached worker of background rotation returns nothing: its failures go to stderr, there is no append left to report them
            for c in f.calls():
                cal = c.callee or ""
                if not c.t.get("dest_ty", "").startswith("core::result::Result<") or not (cal in p.fns or cal.startswith("append::rolling_file::")):
                    continue
                if cal.endswith("from_residual") or cal.endswith("Try::branch"):
                    continue
                n += 1
                leaks = []
                for blk in f.blocks:
                    if blk["term"]["k"] != "switch" or blk["id"] not in f.reachable_blocks():
                        continue
                    si = SwitchInfo(f, blk["id"])
                    d = strip(si.discr)
                    if d[0] != "discr":
                        continue
                    inner = strip(d[1])
                    if inner[0] == "call" and inner[1] == "core::ops::try_trait::Try::branch" and inner[2]:
                        inner = strip(inner[2][0])
                    if not (inner[0] == "call" and len(inner) > 3 and inner[3] == c.block):
                        continue
                    for lab in ("Err", "Break"):
                        t = si.target_of(lab)
                        if t is not None:
                            hit = q.const_skipping_paths(f, t, set(), oks) | ({t} & oks)      # flags and Option/Result values set on the way decide the switches on them
                            if hit:
                                leaks.append((blk["id"], sorted(hit)))
                r.require(not leaks, "step-error-reaches-the-caller:%s/%s" % (path.rsplit("::", 1)[-1], common.role(c)), fn=f, site=c.at,
                          detail="no Ok return is reachable from the Err edge of %s" % cal,
                          fail_detail="an error of %s can end in an Ok return of %s (switch bb%s -> Ok exits %s): the failed step is not reported by the append that ran it" % (
                              cal, path.rsplit("::", 1)[-1], leaks[0][0] if leaks else None, leaks[0][1] if leaks else None))
        r.floor("own-steps-on-the-rotation-path", n, 3)

    with ctx.rule("E2", "no panic on the rotation path", cfg) as r:
        cone = rotation_cone(p)
        sat = {"C07.R4"} if ("fixed_window_roller" in feats and c07._count_guard_dominates_rotate(p)) else set()
        st = panics.check_cone(r, p, cone, "C08", satisfied=sat)
        ctx.extra.setdefault("panic_inventory", {})[cfg] = dict(st, cone=len(cone))
        r.floor("cone-size", len(cone), 8)

    rolling.rule_roll_closes_writer(ctx, p, cfg, "E3a")
    rolling.rule_reopen(ctx, p, cfg, "E3b")
    with ctx.rule("E3c", "roll() precedes the roller regardless of its outcome", cfg) as r:
        if "compound_policy" in feats:
            f = p.fn(rolling.COMPOUND_PROCESS)
            rl = f.call1(rolling.ROLL_FN)
            ro = f.call1(rolling.ROLL)
            r.require(f.dominates(rl.block, ro.block) and rl.block != ro.block, "closed-before-roller", fn=f, detail="the writer is closed before the roller can fail")
        else:
            r.ok("no-compound-policy", detail="compound policy not compiled in this configuration")

    rule_reopen_keeps_data(ctx, p, cfg, "E4")
    rule_no_reentry(ctx, p, cfg, "E10")
    if "compound_policy" in feats:
        rolling.rule_policy_order(ctx, p, cfg, "E11")   # "resumes rotating": the roll the trigger asks for is guarded by nothing but the trigger's answer - no flag a failed roll could leave set (C05.R4 re-evaluated)

    if "fixed_window_roller" in feats:
        c07.rule_shift_order(ctx, p, cfg, "E5")
        c07.rule_archive_writes_surface(ctx, p, cfg, "E6")   # a failed archive write reports an error before the source is removed
        c07.rule_final_step(ctx, p, cfg, "E5c")   # the rolled file is taken away last, into pattern(base): a failed shift leaves it at the active path, not under a name nobody manages
        c07.rule_staging_name(ctx, p, cfg, "E7")
        c07.rule_one_rotation_at_a_time(ctx, p, cfg, "E8")   # "resumes rotating": a roll that fails after it lowered the busy flag must not leave it lowered (the next roll would wait for ever)   # a roll that only staged its file does not overwrite the file an earlier roll staged
        c07.rule_move_file(ctx, p, cfg, "E5b")   # a step that fails leaves its source in place: the source is removed only after a successful copy


def _ds(e):
    e = strip(e, calls=set())
    if e[0] == "un":
        return ("un", e[1], _ds(e[2]))
    if e[0] == "bin":
        return ("bin", e[1], _ds(e[2]), _ds(e[3]))
    if e[0] == "phi":
        return ("phi", tuple(_ds(x) for x in e[1]))
    if e[0] == "const":
        return e
    return deep_strip(e)
