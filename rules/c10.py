"""C10 — width/fill/alignment count characters, truncate then pad, never split UTF-8."""
from l4sa import q
from l4sa.core import AnchorMissing, ShapeUnrecognised, SwitchInfo, strip, deep_strip, walk, show, short, calls_in, cmp_nf
from rules import common, c09

CLAIMED = True
TECHNIQUE = "static analysis over type-checked MIR: provenance of every update of the width counters (char_starts results / unit steps inside a lead-byte-filtered iteration, never byte lengths), normal form of the UTF-8 lead-byte predicate, writer-type composition table of Chunk::encode per (min,max,align) arm, must-follow of finish() after the chunk's encode, pad-before/after-content ordering in the two finish functions"
LEVEL_TEXT = """Static decision of structural clauses: (A6) in the specification parser the fill character is stored without any test on its own value (so `<`, `>` and the syntax characters are legal fills), exactly when the following character is `<` or `>`, and `<`/`>` select left/right alignment; and of four writer clauses (the width law itself — cut position arithmetic, partial-write accounting, text arriving split inside a code point — is NOT claimed): (A1) every update of MaxWidthWriter.remaining, LeftAlignWriter.to_fill and RightAlignWriter.to_fill subtracts either a char_starts(..) result or 1 inside an iteration filtered by is_char_boundary — never a byte length; the cut index comes from the lead-byte-filtered enumerate, so the cut falls on a lead byte; (A2) is_char_boundary(b) is a recognised form of 'not a UTF-8 continuation byte'; char_starts counts exactly the bytes satisfying it; (A5) MaxWidthWriter::write swallows a buffer (returns Ok(buf.len()) without forwarding) only when the cut index computed by the lead-byte scan is 0; (A3) in Chunk::encode the writer per (min,max,align) arm is MaxWidthWriter alone, Left/RightAlignWriter alone, or Left/RightAlignWriter<MaxWidthWriter> (alignment outside, limit inside, so padding also passes the limit), with min feeding to_fill, max feeding remaining and params.fill feeding fill; (A4) on both alignment arms finish() follows the chunk's encode on every Ok path; RightAlignWriter::finish writes the fill before replaying the buffer, LeftAlignWriter::finish writes it after the content (the content has already been forwarded). (A6, cont.) the look-ahead deciding whether a character is a fill reads the character iterator, never a byte offset of the pattern; (A4, cont.) every non-error return of finish() has passed the head of the padding loop. (A10) in Parser::integer, followed with its flags, tuples and counters: after a digit was consumed Ok(None) is unreachable, and without one nothing else is. (A11) the only io::Write/encode::Write implementations in the pattern module are the three width writers; (A12) Parameters.min_width/max_width receive the number integer() returned with nothing applied, and the width writers receive those payloads as they are. (A3, cont.) the right-align writer's list of held-back output starts as a fresh empty list. (A1, cont.) from the remaining == 0 edge of MaxWidthWriter::write no path leads back to the test: the first character past the budget ends the scan whatever it is."""
LEVEL_NOTE = "Trusted: rustc MIR/callee resolution; io::Write contract of the inner writer; UTF-8 encoding facts (continuation bytes are 0x80..=0xBF)."
EXPLANATION = """Decided: A1 character counting, A2 boundary predicate, A3 truncate-inside/pad-outside composition, A4 padding happens and on the right side. Undecided: the exact cut position arithmetic, accounting under partial writes, text split inside a code point across write calls."""
DECIDED = ["A1", "A2", "A3", "A4", "A5", "A6 fill/alignment grammar of the format specification", "A7 charged characters are the consumed ones", "A8/A9 nested groups keep their own layer and parameters (C09.T12/T13 re-evaluated)"]
UNDECIDED = ["cut position arithmetic", "partial-write accounting", "code points split across write calls"]
TRUSTED = ["rustc nightly MIR + Instance::try_resolve", "io::Write contract", "UTF-8 byte classes"]

MAXW = "encode::pattern::MaxWidthWriter"
LEFT = "encode::pattern::LeftAlignWriter"
RIGHT = "encode::pattern::RightAlignWriter"
CHUNK_ENCODE = "encode::pattern::Chunk::encode"
FENCODE = "encode::pattern::FormattedChunk::encode"
PARAMS = "encode::pattern::parser::Parameters"


def helpers(p):
    """roles: the lead-byte predicate (u8 -> bool) and the counter (&[u8] -> usize) of the pattern module"""
    pred = [f for f in p.fns.values() if f.path.startswith("encode::pattern::") and f.kind == "Fn" and f.d.get("sig", "").replace(" ", "").endswith("fn(u8)->bool")]
    cnt = [f for f in p.fns.values() if f.path.startswith("encode::pattern::") and f.kind == "Fn" and "[u8]" in f.d.get("sig", "") and f.d.get("sig", "").replace(" ", "").endswith("->usize")]
    if len(pred) != 1 or len(cnt) != 1:
        raise AnchorMissing("expected one u8->bool predicate and one &[u8]->usize counter in encode::pattern (found %s / %s)" % ([f.path for f in pred], [f.path for f in cnt]))
    return pred[0], cnt[0]


def run(ctx):
    for cfg in (["default"] if ctx.tier == "quick" else ["default", "release", "full", "single:pattern_encoder"]):
        run_cfg(ctx, ctx.prog(cfg), cfg)


def counter_fields(p):
    out = {}
    for adt, want in ((MAXW, "remaining"), (LEFT, "to_fill"), (RIGHT, "to_fill")):
        a = p.adt(adt)
        us = [f["name"] for f in a["variants"][0]["fields"] if f["ty"] == "usize"]
        if len(us) != 1:
            raise AnchorMissing("%s: expected one usize counter field" % adt)
        out[adt] = us[0]
    return out


PARAMS_FN = "encode::pattern::parser::Parser::<'a>::parameters"
PARAMS_ADT = "encode::pattern::parser::Parameters"


def rule_spec_grammar(ctx, p, cfg, rid="A6"):
    """`[[fill]align][min][.max]`: any character may be the fill (also `<`, `>` and the other syntax characters);
    it is taken exactly when the character after it is an alignment; `<` means left and `>` right."""
    with ctx.rule(rid, "fill and alignment grammar", cfg) as r:
        f = p.fn(PARAMS_FN)
        fills, aligns = [], []
        for b, i, s in f.assigns():
            pr = s["lhs"]["p"]
            hit = [e.get("f") for e in pr if isinstance(e, dict) and e.get("adt") == PARAMS_ADT]
            if not hit:
                continue
            v = f._rvalue(s["rv"], frozenset(), 20, b)
            if hit[0] == "fill":
                fills.append((b, v))
            elif hit[0] == "align":
                aligns.append((b, v))
        r.require(len(fills) == 1, "one-fill-store", fn=f, detail="stores to Parameters.fill after the default: %d" % len(fills))
        for b, v in fills:
            sv = deep_strip(v)
            pc = q.path_condition(f, b)
            if pc is None:
                raise ShapeUnrecognised("the condition guarding the fill store is a disjunction")
            chars = [c for c in pc if c[0] == "inset" and all(x.isdigit() for x in c[2])]
            onself = [c for c in pc if (c[0] == "inset" and c[1] == sv) or (c[0] != "inset" and any(x == sv for x in walk(c)))]
            r.require(not onself, "fill-is-any-character", fn=f, detail="no test on the fill character itself guards its store",
                      fail_detail="the fill character is stored only if it passes a test on its own value (%s): some characters, e.g. an alignment character used as fill, are refused" % [show(c[1] if c[0] == "inset" else c, 4) for c in onself])
            others = [(c[1], sorted(int(x) for x in c[2])) for c in chars if c[1] != sv]
            r.require(len(others) == 1 and others[0][1] == [60, 62], "fill-iff-followed-by-alignment", fn=f,
                      detail="the store is control-dependent on the next character being '<' or '>': %s" % [(show(e, 4), vs) for e, vs in others])
            # "the character after it": read from the character iterator, not found by stepping one byte in the text
            for e_, vs_ in others:
                names_ = [x[1].rsplit("::", 1)[-1] for x in walk(e_) if x[0] == "call"]
                bytewise = [n for n in names_ if n in ("as_bytes", "bytes", "get", "get_unchecked", "index", "as_ptr", "byte_at", "is_char_boundary")] + \
                    [1 for x in walk(e_) if x[0] == "index"]
                r.require(not bytewise and any(n in ("nth", "next", "peek", "chars", "char_indices") for n in names_), "lookahead-is-a-character", fn=f,
                          detail="the character after the fill comes from the character iterator: %s" % show(e_, 5),
                          fail_detail="the look-ahead that decides whether a character is a fill reads %s: one byte past the fill's first byte is not the next character when the fill is not ASCII" % show(e_, 6))
            r.require(any(x[0] == "call" and x[1].rsplit("::", 1)[-1] in ("peek", "next") for x in walk(sv)) and not any(x[0] == "const" and x[1] == "char" for x in walk(sv)),
                      "fill-is-the-looked-at-character", fn=f, detail="stored fill: %s" % show(sv, 4))
        want = {"Left": "<", "Right": ">"}
        got = {}
        for b, v in aligns:
            sv = deep_strip(v)
            if sv[0] != "agg":
                r.fail("align-store-shape", fn=f, detail="Parameters.align := %s" % show(sv, 3))
                continue
            pc = q.path_condition(f, b)
            if pc is None:
                raise ShapeUnrecognised("the condition guarding an alignment store is a disjunction")
            for c in pc:
                d = strip(c)
                if d[0] == "call" and d[1] in p.fns and len(d[2]) == 2:
                    ch = deep_strip(d[2][1])
                    if ch[0] == "const" and ch[1] == "char":
                        got.setdefault(sv[2], set()).add(ch[2])
        # the ':' that introduces the whole specification also guards the fill store: not part of the alignment decision
        common = set()
        for b, v in fills:
            for c in q.path_condition(f, b) or []:
                d = strip(c)
                if d[0] == "call" and d[1] in p.fns and len(d[2]) == 2 and deep_strip(d[2][1])[0] == "const":
                    common.add(deep_strip(d[2][1])[2])
        if len(got) >= 2:
            common |= set.intersection(*got.values())
        got = {k: v - common for k, v in got.items()}
        # the default alignment needs no store of its own
        dflt = None
        for b, i, st in f.assigns():
            if st["rv"]["k"] == "agg" and st["rv"].get("adt") == PARAMS_ADT:
                e = f._rvalue(st["rv"], frozenset(), 12, b)
                a = deep_strip(dict(e[3]).get("align", ("other",)))
                dflt = a[2] if a[0] == "agg" else None
        for k, ch in want.items():
            if k not in got and dflt == k:
                r.ok("align:%s" % k, fn=f, detail="Alignment::%s is the default and no store overrides it on consume(%r)" % (k, ch))
                continue
            r.require(got.get(k) == {ch}, "align:%s" % k, fn=f, detail="Alignment::%s chosen on consume(%r): %s" % (k, ch, sorted(got.get(k, []))))



def rule_boundary_predicate(ctx, p, cfg, rid="A2"):
    """what the width writers count as the start of a character: every byte that is not a UTF-8 continuation byte"""
    with ctx.rule(rid, "boundary predicate", cfg) as r:
        pred, cnt = helpers(p)
        e = pred.local_expr(0)
        ok, form = lead_byte_form(e)
        r.require(ok, "not-a-continuation-byte", fn=pred, detail="predicate %s recognised as %s" % (show(e, 5), form),
                  fail_detail="the lead-byte test %s is not one of the recognised forms of `byte is not 0b10xxxxxx`" % show(e, 5))
        ce = cnt.local_expr(0)
        okc = ce[0] == "call" and ce[1] == "core::iter::traits::iterator::Iterator::count"
        flt = [x for x in walk(ce) if x[0] == "call" and x[1] == "core::iter::traits::iterator::Iterator::filter"]
        okf = False
        if flt:
            clo = [x for x in walk(flt[0][2][1]) if x[0] == "closure"]
            if clo:
                cf = p.fn(clo[0][1])
                okf = any(c.callee == pred.path for c in cf.calls()) and cf.local_expr(0)[0] == "call"
            okf = okf and deep_strip(flt[0][2][0])[0] == "call" and deep_strip(flt[0][2][0])[1].endswith("::iter") and deep_strip(deep_strip(flt[0][2][0])[2][0]) == ("param", 1)
        r.require(okc and okf, "counter-counts-lead-bytes", fn=cnt, detail="char_starts = buf.iter().filter(|b| is_char_boundary(b)).count(): %s" % show(ce, 5))

INTEGER_FN = "encode::pattern::parser::Parser::<'a>::integer"


def rule_width_presence(ctx, p, cfg, rid="A10"):
    """A width is absent exactly when no digit was written: `0` is a width (a maximum of 0 cuts everything), and only the
    absence of digits is "no width".  In Parser::integer, followed with its flags: once a digit has been consumed no path
    reaches the Ok(None) return, and without consuming one no path reaches any other return."""
    with ctx.rule(rid, "a width is absent only when no digit was written", cfg) as r:
        f = p.fn(INTEGER_FN)
        steps = [c for c in f.calls() if (c.callee or "").rsplit("::", 1)[-1] == "next" and f.in_loop(c.block)]
        if not steps:
            raise ShapeUnrecognised("Parser::integer: no digit-consuming next() inside a loop")
        rets = q.ret_assignments(f)
        none_rets, other_rets = set(), set()
        for b, e in rets:
            e_ = deep_strip(e)
            pay = deep_strip(dict(e_[3]).get("0")) if e_[0] == "agg" and e_[2] == "Ok" else None
            if pay is not None and pay[0] == "agg" and pay[2] == "None":
                none_rets.add(b)
            else:
                other_rets.add(b)
        r.require(bool(none_rets) and bool(other_rets), "both-answers", fn=f, detail="returns of integer(): Ok(None) at bb%s, a width or an error at bb%s" % (sorted(none_rets), sorted(other_rets)))
        for i, c in enumerate(steps):
            hit = q.const_skipping_paths(f, c.block, set(), none_rets)
            r.require(not hit, "digits-read-never-no-width#%d" % i, fn=f, site=c.at, detail="after a digit was consumed Ok(None) is not reached",
                      fail_detail="after consuming a digit integer() can still answer Ok(None) (bb%s): some written width - e.g. `0` - is read as no width at all, so `{m:.0}` is not cut" % sorted(hit))
        # ... and absence can be answered at all: Ok(None) is reachable without consuming a digit.  (That *only* Ok(None) is, is not
        # required: a version that looks ahead first - `peek()` shows no digit: return Ok(None) - and then loops has a path, infeasible
        # only because `peek` is idempotent, from the second look to the other returns.)
        hit = q.const_skipping_paths(f, 0, {c.block for c in steps}, none_rets)
        r.require(bool(hit), "no-digits-no-width", fn=f, detail="without consuming a digit Ok(None) is reached",
                  fail_detail="integer() cannot answer Ok(None) without having read a digit: a specification without a width has no way to say so")


def run_cfg(ctx, p, cfg):
    rule_spec_grammar(ctx, p, cfg, "A6")
    rule_width_presence(ctx, p, cfg, "A10")
    rule_writer_adaptors(ctx, p, cfg, "A11")
    rule_widths_as_parsed(ctx, p, cfg, "A12")
    rule_boundary_predicate(ctx, p, cfg, "A2")

    with ctx.rule("A1", "character counting", cfg) as r:
        rule_char_counting(r, p)
    from rules import c09
    c09.rule_group_children(ctx, p, cfg, "A9")  # .. and every nested `{..}` stays a child of its group
    c09.rule_arm_results(ctx, p, cfg, "A8")     # "the law composes through nested groups": every `{..}` keeps its own layer and its own parameters

    run_cfg_rest(ctx, p, cfg)


def rule_char_counting(r, p):
    if True:
        pred, cnt = helpers(p)
        cf = counter_fields(p)
        n = 0
        for adt, fld in cf.items():
            ws = []
            for (f0, b0, i0, s0) in p.field_writes(adt, fld):
                # adaptor chains consumed by nth/find/.. are examined as the loops they denote
                fl = p.fn_loops(f0.path)
                if getattr(fl, "desugared", None):
                    if not any(x[0] is fl for x in ws):
                        ws.extend((fl, b_, i_, s_) for b_, i_, s_ in fl.assigns() if b_ in fl.reachable_blocks()
                                  and any(isinstance(e_, dict) and e_.get("f") == fld and e_.get("adt") == adt for e_ in s_["lhs"]["p"]))
                else:
                    ws.append((f0, b0, i0, s0))
            for (f, b, i, s) in ws:
                n += 1
                v = f._rvalue(s["rv"], frozenset(), 40, b)
                ok, why = counted_in_chars(p, f, v, adt, fld, pred, cnt, store=s)
                r.require(ok, "update:%s.%s/%s" % (adt.rsplit("::", 1)[-1], fld, f.path.rsplit("::", 1)[-1] + ("#%d" % [x[1] for x in ws if x[0] is f].index(b))), fn=f, site=s.get("at"), detail=why,
                          fail_detail="the width counter %s.%s is updated with %s, which is not a count of characters" % (adt.rsplit("::", 1)[-1], fld, show(v, 5)))
            r.require(bool(ws), "counter-is-updated:%s.%s" % (adt.rsplit("::", 1)[-1], fld), detail="update sites of the width counter: %d" % len(ws))
        r.floor("width-counters", len(cf), 3)
        # the cut index of MaxWidthWriter comes from the filtered enumerate (a lead byte position) or buf.len()
        mw = [f for f in p.fns.values() if f.d.get("impl_self_adt") == MAXW and f.path.endswith("::write") and f.d.get("impl_trait") == "std::io::Write"]
        if len(mw) != 1:
            raise AnchorMissing("MaxWidthWriter::write not found")
        f = mw[0]
        fl = p.fn_loops(f.path)
        inner = [c for c in f.calls("std::io::Write::write")]
        r.require(len(inner) == 1, "one-inner-write", fn=f, detail="inner write sites: %d" % len(inner))
        if inner:
            buf = inner[0].arg(1)
            idx = [x for x in walk(buf) if x[0] == "agg" and x[1].endswith("RangeTo")]
            okc = False
            if idx:
                end = deep_strip(dict(idx[0][3])["end"])
                alts = end[1] if end[0] == "phi" else (end,)
                okc = True
                for a in alts:
                    a = deep_strip(a)
                    is_len = a[0] == "call" and a[1].endswith("::len") and deep_strip(a[2][0]) == ("param", 2)
                    from_enum = any(x[0] == "call" and x[1] == "core::iter::traits::iterator::Iterator::filter" for x in walk(a)) and any(x[0] == "call" and x[1] == "core::iter::traits::iterator::Iterator::enumerate" for x in walk(a))
                    okc = okc and (is_len or from_enum)
                flt = [x for x in walk(end) if x[0] == "call" and x[1] == "core::iter::traits::iterator::Iterator::filter"]
                if flt:
                    clo = [x for x in walk(flt[0][2][1]) if x[0] == "closure"]
                    okc = okc and bool(clo) and any(c.callee == pred.path for c in p.fn(clo[0][1]).calls())
                else:
                    okc = False
            r.require(okc, "cut-at-a-lead-byte", fn=f, site=inner[0].at, detail="the slice handed on ends at buf.len() or at an index yielded by enumerate().filter(is_char_boundary)")
            # the loop breaks when no character budget is left
            zero = [SwitchInfo(fl, b["id"]) for b in fl.blocks if b["term"]["k"] == "switch" and b["id"] in fl.reachable_blocks() and fl.in_loop(b["id"]) and (cmp_nf(SwitchInfo(fl, b["id"]).discr, True) or (None,))[0] == "Eq"]
            r.require(len(zero) == 1 and ("const", "int", 0) in [deep_strip(x) for x in cmp_nf(zero[0].discr, True)[1:]], "stops-when-budget-exhausted", fn=f, detail="loop exit on remaining == 0")
            if len(zero) == 1:
                tz = zero[0].target_of(True)
                back = tz is not None and zero[0].b in fl.reach(tz, include_src=True)
                r.require(tz is not None and not back, "exhausted-budget-leaves-the-loop", fn=f,
                          detail="from the remaining == 0 edge no path returns to the test: the first character past the budget ends the scan, whatever it is",
                          fail_detail="from the remaining == 0 edge the scan can go on to later characters (a path leads back to the test): some characters past the maximum width are let through, so more than M characters are emitted")


def rule_counts_consumed(r, p):
    """Each of the three counting writers implements io::Write::write, whose Ok(n) tells the caller that buf[..n] was taken
    and that it must offer buf[n..] again.  The characters charged to the width counter therefore have to be those of
    buf[..n] for the very n returned: counting what was offered while returning what the inner writer accepted charges a
    character twice when it is offered again."""
    from l4sa.panics import _canon_try
    pred, cnt = helpers(p)
    cf = counter_fields(p)
    canon = lambda e: deep_strip(_canon_try(deep_strip(e)))
    n = 0
    for adt, fld in cf.items():
        ws = [f for f in p.fns.values() if f.d.get("impl_self_adt") == adt and f.path.endswith("::write") and f.d.get("impl_trait") == "std::io::Write"]
        if len(ws) != 1:
            raise AnchorMissing("%s: io::Write::write not found" % adt)
        f = p.fn_loops(ws[0].path)
        who = adt.rsplit("::", 1)[-1]
        is_len2 = lambda e: e[0] == "call" and e[1].endswith("::len") and deep_strip(e[2][0]) == ("param", 2)

        def prefix_of_buf(e):
            """[cut expressions] if e is buf, buf[..a] or buf[..a][..b] (outermost cut last); None otherwise"""
            e = deep_strip(e)
            if e == ("param", 2):
                return []
            if e[0] == "call" and e[1] == "core::ops::index::Index::index":
                rg = deep_strip(e[2][1])
                inner = prefix_of_buf(e[2][0])
                if inner is not None and rg[0] == "agg" and rg[1].endswith("range::RangeTo"):
                    return inner + [canon(dict(rg[3])["end"])]
            return None
        stores = [(b, i, st) for b, i, st in f.assigns() if b in f.reachable_blocks() and any(isinstance(e_, dict) and e_.get("f") == fld and e_.get("adt") == adt for e_ in st["lhs"]["p"])]
        for c in f.calls(cnt.path):
            n += 1
            key = "charged-equals-consumed:%s#%d" % (who, [x.block for x in f.calls(cnt.path)].index(c.block))
            cuts = prefix_of_buf(c.arg(0))
            if cuts is None:
                r.fail(key, fn=f, site=c.at, detail="%s counts %s, which is not a prefix of the buffer offered" % (short(cnt.path), show(c.arg(0), 4)))
                continue
            # what the call reports as consumed on the Ok returns that follow this count
            rets = [(b, e) for b, e in q.ret_assignments(f) if b == c.block or b in f.reach(c.block)]
            pays = []
            for b, e in rets:
                if q.classify_ret(e) == "err" or q.is_from_residual(e):
                    continue
                e = deep_strip(e)
                if e[0] == "agg" and e[2] == "Ok":
                    pays.append(canon(dict(e[3]).get("0")))
                elif e[0] == "agg" and e[2] == "Err":
                    continue
                elif e[0] == "call":
                    pays.append(("field", ("as", canon(e), "Ok"), "0"))
                else:
                    pays.append(None)
            def charged_here(e):
                e = strip(e)
                sub = e[3] if e[0] == "bin" and e[1] == "Sub" else e[2][1] if e[0] == "call" and e[1].endswith("::saturating_sub") and len(e[2]) == 2 else None
                sub = strip(sub) if sub is not None else None
                return sub is not None and sub[0] == "call" and sub[1] == cnt.path and len(sub) > 3 and sub[3] == c.block

            def values_of(b, st):
                if st["rv"]["k"] == "use" and (st["rv"]["a"].get("copy") or st["rv"]["a"].get("move")):
                    return [e_ for b_, c_, e_ in q.guarded_defs(f, st["rv"]["a"])]
                return [f._rvalue(st["rv"], frozenset(), 40, b)]
            mine = [(b, i, st) for b, i, st in stores if any(charged_here(v) for v in values_of(b, st))]
            ok, why = bool(pays), "no Ok return follows the count"
            for pay in pays:
                if pay is None:
                    ok, why = False, "unrecognised return value"
                    break
                whole = is_len2(pay)
                if cuts and cuts[-1] == pay:
                    why = "counts buf[..n] for the n returned"
                    continue
                if not cuts and whole:
                    why = "counts the whole buffer and reports the whole buffer"
                    continue
                # the count enters the counter only where the reported n equals the counted cut
                good = bool(mine)
                for b, i, st in mine:
                    g_ok = False
                    for sb, si, al in f.conditions(b):
                        labs = {si.label(v) for v, _ in al}
                        if not (si.is_bool and labs in ({True}, {False})):
                            continue
                        nf = cmp_nf(si.discr, True in labs)
                        if not nf or nf[0] != "Eq":
                            continue
                        x, y = canon(nf[1]), canon(nf[2])
                        other = y if x == pay else x if y == pay else None
                        if other is None:
                            continue
                        want_cut = cuts[-1] if cuts else None
                        alts = other[1] if other[0] == "phi" else (other,)
                        if want_cut is not None and other == want_cut:
                            g_ok = True
                        elif want_cut is None and all(is_len2(a) for a in alts):
                            g_ok = True
                        elif want_cut is None and st["rv"]["k"] == "use":
                            # both the cut and the count are chosen on the same edge: there the cut is buf.len()
                            dl = [d_ for d_ in f.defs(f.term(sb)["discr"].get("move", f.term(sb)["discr"].get("copy", {})).get("l", -1)) if d_[3] == "rv" and d_[4]["k"] == "bin"]
                            vdefs = [(b_, c_) for b_, c_, e_ in q.guarded_defs(f, st["rv"]["a"]) if charged_here(e_)]
                            for d_ in dl:
                                for side in ("a", "b"):
                                    cds = q.guarded_defs(f, d_[4][side]) if (d_[4][side].get("copy") or d_[4][side].get("move")) else []
                                    for vb, vc in vdefs:
                                        same_edge = [e_ for b_, c_, e_ in cds if b_ == vb or (c_ is not None and vc is not None and [show(z, 8) for z in c_] == [show(z, 8) for z in vc])]
                                        if same_edge and all(is_len2(deep_strip(e_)) for e_ in same_edge):
                                            g_ok = True
                    good = good and g_ok
                if good:
                    why = "the count is charged only where the reported n equals the counted cut"
                    continue
                ok, why = False, "%s(%s) is charged while Ok(%s) is reported" % (short(cnt.path), show(c.arg(0), 3), show(pay, 3))
                break
            r.require(ok, key, fn=f, site=c.at, detail=why,
                      fail_detail="%s::write: %s — a character offered again after a short write is charged twice (or one that was consumed is never charged)" % (who, why))
        # a budget counted down locally over the slice about to be forwarded (`remaining` after the scan) describes the whole
        # forwarded slice: it may be stored only where the inner writer reported exactly that slice as consumed
        def directly_charged(e):
            e = strip(e)
            sub = e[3] if e[0] == "bin" and e[1] == "Sub" else e[2][1] if e[0] == "call" and e[1].endswith("::saturating_sub") and len(e[2]) == 2 else None
            return sub is not None and strip(sub)[0] == "call" and strip(sub)[1] == cnt.path
        charged = {id(st) for b, i, st in stores if directly_charged(f._rvalue(st["rv"], frozenset(), 40, b))}
        inner = [c for c in f.calls("std::io::Write::write")]
        for b, i, st in stores:
            v = deep_strip(f._rvalue(st["rv"], frozenset(), 40, b))
            alts = v[1] if v[0] == "phi" else (v,)
            countdown = any(deep_strip(a)[0] == "bin" and deep_strip(a)[1] == "Sub" and deep_strip(deep_strip(a)[3]) == ("const", "int", 1) for a in alts)
            if not countdown or id(st) in charged:
                continue
            n += 1
            key = "local-budget-stored-only-on-full-write:%s#%d" % (who, b)
            if len(inner) != 1:
                r.fail(key, fn=f, detail="no single inner write to relate the budget to")
                continue
            cuts = prefix_of_buf(inner[0].arg(1)) or []
            cut = cuts[-1] if cuts else None
            pay = ("field", ("as", canon(("call", "std::io::Write::write", tuple(inner[0].arg_exprs()), inner[0].block)), "Ok"), "0")
            okg = False
            for sb, si, al in f.conditions(b):
                labs = {si.label(v_) for v_, _ in al}
                if not (si.is_bool and labs in ({True}, {False})):
                    continue
                nf = cmp_nf(si.discr, True in labs)
                if nf and nf[0] == "Eq":
                    x, y = canon(nf[1]), canon(nf[2])
                    if cut is not None and ((show(x, 9) == show(pay, 9) and y == cut) or (show(y, 9) == show(pay, 9) and x == cut)):
                        okg = True
            r.require(okg, key, fn=f, detail="the scanned budget is stored only on the edge where the inner writer's count equals the cut",
                      fail_detail="%s::write stores the budget computed for the whole forwarded slice although the inner writer may have taken less: the characters of the unaccepted tail are charged now and swallowed when they are offered again" % who)
    r.floor("count-sites", n, 3)


def rule_sink_past_cut(ctx, p, cfg, rid="A5"):
    """MaxWidthWriter::write pretends to have taken bytes it did not forward only when the cut index is zero"""
    with ctx.rule(rid, "bytes are swallowed only past the cut", cfg) as r:
        pred, cnt = helpers(p)
        mw = [f for f in p.fns.values() if f.d.get("impl_self_adt") == MAXW and f.path.endswith("::write") and f.d.get("impl_trait") == "std::io::Write"]
        f = p.fn_loops(mw[0].path)
        inner = [c for c in f.calls("std::io::Write::write")]
        sinks = []
        for b, e in q.ret_assignments(f):
            if q.classify_ret(e) == "ok" and inner and not f.dominates(inner[0].block, b):
                sinks.append((b, e))
        r.require(len(sinks) == 1, "one-sink-return", fn=f, detail="Ok returns that do not forward to the inner writer: %d" % len(sinks))
        for b, e in sinks:
            pay = deep_strip(dict(e[3]).get("0"))
            r.require(pay[0] == "call" and pay[1].endswith("::len") and deep_strip(pay[2][0]) == ("param", 2), "sink-reports-whole-buffer", fn=f, detail="sink returns Ok(buf.len())")
            conds = f.conditions(b)
            gates = []
            for sb, si, al in conds:
                d = strip(si.discr)
                if d[0] == "discr":
                    continue
                labs = {si.label(v) for v, _ in al}
                nf = cmp_nf(si.discr, True in labs) if labs in ({True}, {False}) else None
                gates.append((nf, si))
            ok = len(gates) == 1 and gates[0][0] is not None and gates[0][0][0] == "Eq"
            why = "conditions: %s" % [show(si.discr, 4) for nf, si in gates]
            if ok:
                a, b2 = deep_strip(gates[0][0][1]), deep_strip(gates[0][0][2])
                other = a if b2 == ("const", "int", 0) else b2 if a == ("const", "int", 0) else None
                cut = None
                if inner:
                    rg = [x for x in walk(inner[0].arg(1)) if x[0] == "agg" and x[1].endswith("RangeTo")]
                    if rg:
                        cut = deep_strip(dict(rg[0][3])["end"])
                scanned = any(x[0] == "call" and x[1] == "core::iter::traits::iterator::Iterator::enumerate" and deep_strip(x[2][0])[0] == "call" and deep_strip(x[2][0])[1].endswith("::iter")
                              and deep_strip(deep_strip(x[2][0])[2][0]) == ("param", 2) for x in walk(other)) if other is not None else False
                ok = other is not None and cut is not None and other == cut and scanned
                why = "sink iff the scanned cut index == 0: %s" % show(other, 5) if ok else "sink guarded by %s" % show(gates[0][1].discr, 5)
            r.require(ok, "sink-only-when-cut-index-is-zero", fn=f, detail=why,
                      fail_detail="MaxWidthWriter::write swallows the buffer under a condition other than `cut index == 0` computed by the lead-byte scan (%s): continuation bytes of a character whose lead byte was already forwarded can be dropped, producing invalid UTF-8" % why)


def run_cfg_rest(ctx, p, cfg):
    with ctx.rule("A7", "the characters charged are the characters consumed", cfg) as r:
        rule_counts_consumed(r, p)

    rule_sink_past_cut(ctx, p, cfg, "A5")

    with ctx.rule("A3", "truncate then pad, never exceed M", cfg) as r:
        f = p.fn(CHUNK_ENCODE)
        cf = counter_fields(p)
        calls = f.calls(FENCODE)
        r.require(len(calls) == 6, "six-arms", fn=f, detail="FormattedChunk::encode call sites (one per (min,max,align) arm): %d" % len(calls))
        table = {}
        for c in calls:
            w = c.arg(1)
            shape = writer_shape(w)
            key = arm_key(f, c.block)
            table[key] = shape["desc"]
            want = expected_shape(key)
            if want is None:
                r.fail("arm-unrecognised:%s" % (key,), fn=f, site=c.at, detail="cannot classify the arm's conditions %s" % (key,))
                continue
            r.require(shape["desc"] == want, "composition:min=%s,max=%s,align=%s" % key, fn=f, site=c.at, detail="writer %s (expected %s)" % (shape["desc"], want),
                      fail_detail="for (min=%s, max=%s, align=%s) the chunk is encoded into %s; expected %s (alignment outside, width limit inside)" % (key + (shape["desc"], want)))
            # field provenance
            for adt, flds in shape["fields"].items():
                fd = flds
                if adt == MAXW:
                    v = deep_strip(fd.get(cf[MAXW], ("other",)))
                    r.require(is_param_field(v, "max_width"), "max-feeds-remaining:%s" % (key,), fn=f, detail="remaining = %s" % show(v, 4))
                else:
                    v = deep_strip(fd.get(cf[adt], ("other",)))
                    r.require(is_param_field(v, "min_width"), "min-feeds-to_fill:%s" % (key,), fn=f, detail="to_fill = %s" % show(v, 4))
                    fv = deep_strip(fd.get("fill", ("other",)))
                    r.require(fv[0] == "field" and fv[2] == "fill", "fill-from-params:%s" % (key,), fn=f, detail="fill = %s" % show(fv, 4))
                    # the right-align writer's list of held-back output starts empty for every field (nothing carried over from
                    # another field, another record or a pool)
                    for bn, bv in fd.items():
                        bv = deep_strip(bv)
                        if bn not in (cf[adt], "fill", "w") and adt != MAXW:
                            fresh = bv[0] == "call" and bv[1].startswith("alloc::vec::Vec::") and bv[1].rsplit("::", 1)[-1] in ("new", "with_capacity") or (bv[0] == "call" and bv[1].endswith("from_elem") is False and bv[1].endswith("::default"))
                            r.require(fresh, "held-back-output-starts-empty:%s" % (key,), fn=f, detail="%s = %s" % (bn, show(bv, 4)),
                                      fail_detail="the writer's `%s` is initialised with %s, not with a fresh empty list: output of an earlier field can be replayed in this one" % (bn, show(bv, 4)))
            base = shape["base"]
            r.require(deep_strip(base) == ("param", 2), "innermost-is-the-output:%s" % (key,), fn=f, detail="innermost writer %s" % show(base, 3))
        ctx.extra["composition_table"] = {str(k): v for k, v in table.items()}

    with ctx.rule("A4", "padding happens", cfg) as r:
        f = p.fn(CHUNK_ENCODE)
        # a formatted chunk always goes through its width writers: no return on the Formatted arm bypasses the chunk's encode call
        # (and with it the finish() that pads) — an empty or disabled chunk still owes its minimum width
        top = None
        for blk in f.blocks:
            if blk["term"]["k"] == "switch" and blk["id"] in f.reachable_blocks():
                si = SwitchInfo(f, blk["id"])
                d = strip(si.discr)
                if d[0] == "discr" and deep_strip(d[1]) == ("param", 1) and "Formatted" in set((si.variants or {}).values()):
                    top = si
                    break
        if top is None or top.target_of("Formatted") is None:
            raise ShapeUnrecognised("no match on the chunk kind in Chunk::encode")
        encs = {c.block for c in f.calls(FENCODE)}
        rets_ = {b for b, e in q.ret_assignments(f) if q.classify_ret(e) != "err" and not q.is_from_residual(e)}
        skipped = q.skipping_paths(f, top.target_of("Formatted"), encs, rets_)
        r.require(not skipped, "formatted-chunk-always-encoded", fn=f, detail="every non-error return on the Formatted arm passed FormattedChunk::encode",
                  fail_detail="a return on the Formatted arm (bb%s) is reached without encoding the chunk: its width writers never run, so a minimum width is not padded" % sorted(skipped))
        fins = [c for c in f.calls() if c.callee in p.fns and c.callee.endswith("::finish")]
        r.require(len(fins) == 4, "finish-sites", fn=f, detail="finish() call sites: %d (2 alignments x with/without max)" % len(fins))
        for c in f.calls(FENCODE):
            shape = writer_shape(c.arg(1))
            if shape["desc"].startswith("Left") or shape["desc"].startswith("Right"):
                mine = [x for x in fins if f.dominates(c.block, x.block)]
                ok, wit = q.must_follow_on_ok(f, c.block, [x.block for x in mine])
                r.require(len(mine) == 1 and ok, "finish-follows-encode:%s" % (arm_key(f, c.block),), fn=f, site=c.at, detail="every Ok path after the chunk's encode runs finish()")
                if mine:
                    kind = "LeftAlignWriter" if shape["desc"].startswith("Left") else "RightAlignWriter"
                    r.require(kind in mine[0].callee, "matching-finish:%s" % (arm_key(f, c.block),), fn=f, detail="finish of %s" % mine[0].callee)
                    ret_ok = any(any(y[0] == "call" and len(y) > 3 and y[3] == mine[0].block for y in walk(e)) for b, e in q.ret_assignments(f))
                    r.require(ret_ok, "finish-result-returned:%s" % (arm_key(f, c.block),), fn=f, detail="finish()'s Result is the arm's result")
        # finish bodies
        for adt in (LEFT, RIGHT):
            fs = [g for g in p.fns.values() if g.d.get("impl_self_adt") == adt and g.path.endswith("::finish")]
            if len(fs) != 1:
                raise AnchorMissing("%s::finish not found" % adt)
            g = p.fn_loops(fs[0].path)
            wf = [c for c in g.calls("std::io::Write::write_fmt")]
            r.require(len(wf) == 1 and g.in_loop(wf[0].block), "%s:pads-in-a-loop" % adt.rsplit("::", 1)[-1], fn=g, detail="fill written once per remaining column")
            if wf:
                a = wf[0].arg(1)
                r.require(any(x[0] == "field" and x[2] == "fill" for x in walk(a)), "%s:pads-with-fill" % adt.rsplit("::", 1)[-1], fn=g, detail="the written character is self.fill")
                trips = common.loop_trip_count(g, wf[0].block)
                te = deep_strip(trips) if trips is not None else None
                okn = te is not None and te[0] == "field" and te[2] == "to_fill" and deep_strip(te[1]) == ("param", 1)
                r.require(okn, "%s:pads-to_fill-times" % adt.rsplit("::", 1)[-1], fn=g, detail="the padding loop runs self.to_fill times (trip count %s)" % (show(te, 4) if te else None))
                # .. on every path: no non-error return of finish() that has not been through the padding loop (text that is
                # empty still owes its minimum width)
                # (the head of the loop the write sits in: its test is what decides, per column, whether another fill is owed)
                steps_ = {h_ for a_, h_ in g.back_edges() if g.dominates(h_, wf[0].block) and g.can_reach(wf[0].block, a_)}
                rets_ = {b_ for b_, e_ in q.ret_assignments(g) if q.classify_ret(e_) != "err" and not q.is_from_residual(e_)}
                sk_ = q.skipping_paths(g, 0, steps_, rets_) if steps_ else rets_
                r.require(not sk_, "%s:pads-on-every-path" % adt.rsplit("::", 1)[-1], fn=g, detail="every non-error return of finish() has passed the padding loop",
                          fail_detail="finish() can return Ok (bb%s) without running the padding loop: output shorter than the minimum width is left unpadded" % sorted(sk_))
            if adt == RIGHT:
                rep = [c for c in g.calls() if c.callee in ("std::io::Write::write_all", "encode::Write::set_style")]
                r.require(len(rep) >= 1 and wf and all(not g.can_reach(c.block, wf[0].block) and g.can_reach(wf[0].block, c.block) for c in rep), "RightAlignWriter:pad-before-content", fn=g,
                          detail="padding loop precedes the replay of the buffered output")
            else:
                oth = [c.callee for c in g.calls() if c.callee in ("std::io::Write::write_all", "std::io::Write::write")]
                r.require(not oth, "LeftAlignWriter:pad-after-content", fn=g, detail="finish only pads (the content was forwarded as it arrived)")


def lead_byte_form(e):
    e = strip(e)
    nf = cmp_nf(e)
    if nf:
        op, a, b = nf
        a, b = deep_strip(a), deep_strip(b)
        # (b as i8) >= -0x40   ==  -64 <= (b as i8)
        if op == "Le" and a == ("const", "int", -64) and b[0] == "cast" and deep_strip(b[2]) == ("param", 1) and b[3] == "i8":
            return True, "(b as i8) >= -0x40"
        if op == "Lt" and a == ("const", "int", -65) and b[0] == "cast" and deep_strip(b[2]) == ("param", 1) and b[3] == "i8":
            return True, "(b as i8) > -0x41"
        # (b & 0xC0) != 0x80
        if op == "Ne":
            for x, y in ((a, b), (b, a)):
                if y == ("const", "int", 0x80) and x[0] == "bin" and x[1] == "BitAnd" and {deep_strip(x[2]), deep_strip(x[3])} == {("param", 1), ("const", "int", 0xC0)}:
                    return True, "(b & 0xC0) != 0x80"
    # b < 0x80 || b >= 0xC0 lowers to a phi/bitor of two comparisons
    parts = [x for x in walk(e) if x[0] == "bin" and x[1] in ("Lt", "Ge", "Le", "Gt")]
    if len(parts) == 2:
        forms = set()
        for x in parts:
            n = cmp_nf(x)
            if n:
                forms.add((n[0], show(deep_strip(n[1])), show(deep_strip(n[2]))))
        if forms == {("Lt", "arg1", "128"), ("Le", "192", "arg1")} or forms == {("Le", "arg1", "127"), ("Le", "192", "arg1")}:
            return True, "b < 0x80 || b >= 0xC0"
    return False, "unrecognised"


def counted_in_chars(p, f, v, adt, fld, pred, cnt, store=None):
    """v is the new value of the counter: must be old - char_starts(..) (checked or saturating), or a
    local decremented by 1 inside the lead-byte-filtered loop."""
    v = strip(v)
    def is_old(e):
        e = deep_strip(e)
        return (e[0] == "field" and e[2] == fld) or e[0] == "phi" and any(deep_strip(x)[0] == "field" and deep_strip(x)[2] == fld for x in e[1])
    if v[0] == "call" and v[1].endswith("::saturating_sub") and len(v[2]) == 2:
        if is_old(v[2][0]) and strip(v[2][1])[0] == "call" and strip(v[2][1])[1] == cnt.path:
            return True, "saturating_sub(old, char_starts(..))"
    if v[0] == "bin" and v[1] == "Sub":
        if is_old(v[2]) and strip(v[3])[0] == "call" and strip(v[3])[1] == cnt.path:
            return True, "old - char_starts(..)"
    # a local counter: φ(old | local - 1), decremented in a loop whose iterator is filtered by the predicate
    alts = v[1] if v[0] == "phi" else (v,)
    seen_dec = False
    ok = True
    for a in alts:
        a = strip(a)
        if is_old(a) or a[0] == "cycle":
            continue
        if a[0] == "phi":
            ok2, _ = counted_in_chars(p, f, a, adt, fld, pred, cnt)
            ok = ok and ok2
            seen_dec = seen_dec or ok2
            continue
        if a[0] == "bin" and a[1] == "Sub" and strip(a[3]) == ("const", "int", 1):
            seen_dec = True
            continue
        if a[0] == "bin" and a[1] == "Sub" and strip(a[3])[0] == "call" and strip(a[3])[1] == cnt.path:
            seen_dec = True
            continue
        if a == ("const", "int", 0) and store is not None and store["rv"]["k"] == "use":
            # `remaining = 0` where the local budget was just found to be 0 (the scan stopped because it ran out)
            zs = [(b_, c_) for b_, c_, e_ in q.guarded_defs(f, store["rv"]["a"]) if deep_strip(e_) == a]
            def budget_is_zero(conds):
                for c_ in conds or []:
                    nf = cmp_nf(c_, True)
                    if nf and nf[0] == "Eq" and ("const", "int", 0) in (deep_strip(nf[1]), deep_strip(nf[2])):
                        x = nf[2] if deep_strip(nf[1]) == ("const", "int", 0) else nf[1]
                        if counted_in_chars(p, f, deep_strip(x), adt, fld, pred, cnt)[0]:
                            return True
                return False
            if zs and all(budget_is_zero(c_) for b_, c_ in zs):
                continue
        ok = False
    if ok and seen_dec:
        # the unit decrement sits in a loop over filter(is_char_boundary)
        decs = [(b, i, s) for b, i, s in f.assigns() if s["rv"]["k"] == "bin" and s["rv"]["op"] in ("SubWithOverflow", "Sub") and s["rv"]["b"].get("const", {}).get("value") == 1]
        for b, i, s in decs:
            if not f.in_loop(b):
                return False, "unit decrement outside a loop"
            nx = [c for c in f.calls("core::iter::traits::iterator::Iterator::next") if f.dominates(c.block, b) and f.in_loop(c.block)]
            flt = [x for c in nx for x in walk(c.arg(0)) if x[0] == "call" and x[1] == "core::iter::traits::iterator::Iterator::filter"]
            if not flt and nx and any(deep_strip(c_)[0] == "call" and deep_strip(c_)[1] == pred.path for c_ in (q.path_condition(f, b) or [])):
                continue        # the filter as an explicit test in the loop: the decrement runs only when the predicate held for this byte
            if not flt:
                return False, "unit decrement in a loop that is not filtered by the lead-byte predicate"
            clo = [x for x in walk(flt[0][2][1]) if x[0] == "closure"]
            if not clo or not any(c.callee == pred.path for c in p.fn(clo[0][1]).calls()):
                return False, "loop filter does not use the lead-byte predicate"
        return True, "local budget: old, minus 1 per lead byte (filtered loop) / minus char_starts(..)"
    return False, "unrecognised update %s" % show(v, 5)


def writer_shape(w):
    """nesting of writer aggregates in the expression handed to FormattedChunk::encode"""
    names = []
    fields = {}
    e = strip(w)
    while True:
        e = strip(e)
        if e[0] == "agg" and e[1] in (MAXW, LEFT, RIGHT):
            names.append(e[1].rsplit("::", 1)[-1])
            fields[e[1]] = dict(e[3])
            e = dict(e[3]).get("w")
            if e is None:
                break
            continue
        break
    desc = "<".join(names) + ">" * max(0, len(names) - 1) if names else "plain"
    return {"desc": desc, "fields": fields, "base": e if e is not None else ("other",)}


def is_param_field(v, name):
    """the Some payload of params.<name>, as it is: no function applied to it on the way (a `NonZeroUsize::get`, a `min`, ..)"""
    return any(x[0] == "field" and x[2] == name for x in walk(v)) and any(x[0] == "as" and x[2] == "Some" for x in walk(v)) and not any(x[0] == "call" for x in walk(deep_strip(v)))


PATTERN_WRITERS = ("MaxWidthWriter", "LeftAlignWriter", "RightAlignWriter")


def rule_writer_adaptors(ctx, p, cfg, rid="A11"):
    """Between a formatter's text and the destination sit exactly the three width writers.  They rely on one another's
    contract - every buffer handed on starts at a character boundary, counts are characters - so another `io::Write` adaptor
    in the pattern module (a staging buffer that forwards fixed-size blocks, say) changes what they are handed."""
    with ctx.rule(rid, "no other writer adaptor in the pattern module", cfg) as r:
        ws = sorted({str(i.get("self_ty")) for i in p.impls if i.get("trait") in ("std::io::Write", "encode::Write") and str(i.get("self_ty")).startswith("encode::pattern::")})
        names = [w.split("::")[-1].split("<")[0] for w in ws]
        r.floor("width-writers", len([n for n in names if n in PATTERN_WRITERS]), 3)
        extra = [w for w, n in zip(ws, names) if n not in PATTERN_WRITERS]
        r.require(not extra, "only-the-width-writers", detail="io::Write / encode::Write implementations in encode::pattern: %s" % names,
                  fail_detail="%s implements a writer in the pattern module: text no longer reaches the width writers in the pieces the formatter produced, and their character accounting assumes it does" % extra)


def rule_widths_as_parsed(ctx, p, cfg, rid="A12"):
    """The widths a specification states are the widths stored: `Parameters.min_width` / `max_width` receive the number
    `integer()` returned, whatever it is - 0 included - with nothing applied to it."""
    with ctx.rule(rid, "widths are stored as parsed", cfg) as r:
        f = p.fn(PARAMS_FN)
        n = 0
        for b, i, s in f.assigns():
            hit = [e.get("f") for e in s["lhs"]["p"] if isinstance(e, dict) and e.get("adt") == PARAMS_ADT]
            if not hit or hit[0] not in ("min_width", "max_width"):
                continue
            v = deep_strip(f._rvalue(s["rv"], frozenset(), 20, b))
            if v[0] == "agg" and v[2] == "None":
                continue
            n += 1
            calls = [x[1] for x in walk(v) if x[0] == "call" and x[1] != INTEGER_FN and not x[1].endswith("Try::branch")]
            from_int = any(x[0] == "call" and x[1] == INTEGER_FN for x in walk(v))
            r.require(from_int and not calls and not any(x[0] == "bin" for x in walk(v)), "stored-as-parsed:%s#%d" % (hit[0], n), fn=f, detail="%s := %s" % (hit[0], show(v, 5)),
                      fail_detail="Parameters.%s is not the number integer() returned but %s: some written widths (0, for one) are stored as something else" % (hit[0], show(v, 6)))
        r.floor("width-stores", n, 2)


def arm_key(f, block):
    mn = mx = al = None
    for sb, si, al_ in f.conditions(block):
        d = strip(si.discr)
        labs = {si.label(v) for v, _ in al_}
        if d[0] == "discr":
            inner = deep_strip(d[1])
            flds = [x[2] for x in walk(inner) if x[0] == "field"]
            if "min_width" in flds and labs <= {"Some", "None"} and len(labs) == 1:
                mn = labs.pop()
            elif "max_width" in flds and labs <= {"Some", "None"} and len(labs) == 1:
                mx = labs.pop()
            elif "align" in flds and labs <= {"Left", "Right"} and len(labs) == 1:
                al = labs.pop()
            elif isinstance(d[1], tuple) and any(x[0] == "tuple" for x in walk(d)):
                pass
    return (mn, mx, al)


def expected_shape(key):
    mn, mx, al = key
    if mn == "None" and mx == "None":
        return "plain"
    if mn == "None" and mx == "Some":
        return "MaxWidthWriter"
    if mn == "Some" and mx == "None" and al in ("Left", "Right"):
        return "%sAlignWriter" % al
    if mn == "Some" and mx == "Some" and al in ("Left", "Right"):
        return "%sAlignWriter<MaxWidthWriter>" % al
    return None
