"""Fidelity of plain accessors, builder setters and build() functions of the configuration value types: what was
declared is what is stored and what is read back.  Every rule about routing or config loading reads the configuration
through these functions, so their faithfulness is a premise of C01, C13 and C14."""
from l4sa.core import AnchorMissing, ShapeUnrecognised, strip, deep_strip, walk, show

MUTATORS = ("alloc::vec::Vec::<T, A>::push", "core::iter::traits::collect::Extend::extend", "alloc::vec::Vec::<T, A>::extend_from_slice",
            "alloc::vec::Vec::<T, A>::append", "alloc::vec::Vec::<T, A>::insert")


def _fields(p, adt):
    a = p.adts.get(adt)
    if not a or a.get("kind") not in ("struct", None) and len(a.get("variants", [])) != 1:
        return []
    return [x["name"] for x in a["variants"][0]["fields"]]


def _pure(e):
    return not any(x[0] in ("un", "bin") for x in walk(e))


def _root_field(e):
    """('param', 1).<f>[.more...] -> f ; None otherwise"""
    chain = []
    while e[0] == "field":
        chain.append(e[2])
        e = e[1]
    if e == ("param", 1) and chain:
        return chain[-1]
    return None


def rule_fidelity(ctx, p, cfg, rid, prefix="config::runtime::", floor=30, with_build=True):
    with ctx.rule(rid, "accessors, setters and build() are faithful" if with_build else "builder setters and accessors are faithful", cfg) as r:
        n = 0
        for path, f in sorted(p.fns.items()):
            if not path.startswith(prefix) or f.kind != "AssocFn" or f.d.get("impl_trait"):
                continue
            adt = f.d.get("impl_self_adt")
            fields = _fields(p, adt) if adt else []
            if not fields or not all(isinstance(x, str) and not x.isdigit() for x in fields):
                continue
            name = path.rsplit("::", 1)[-1]
            short = "%s::%s" % (adt.rsplit("::", 1)[-1], name)
            ret = deep_strip(f.local_expr(0))
            names = {l: nm for l, nm in f.vars.items() if 1 <= l <= f.nargs}
            base = name[:-4] if name.endswith("_mut") else name
            if f.nargs == 1 and base in fields:
                n += 1
                rf = _root_field(ret)
                r.require(rf == base and _pure(ret) and not any(x[0] == "call" for x in walk(ret)), "getter:%s" % short, fn=f,
                          detail="returns %s" % show(ret, 4),
                          fail_detail="%s() does not return the field of that name unchanged: %s" % (short, show(ret, 5)))
            elif f.nargs == 1 and name == "unpack":
                n += 1
                got = [_root_field(deep_strip(x)) for x in ret[1]] if ret[0] == "tuple" else None
                r.require(got == fields, "unpack:%s" % short, fn=f, detail="unpacks %s" % got,
                          fail_detail="%s returns %s, the struct's fields are %s" % (short, show(ret, 4), fields))
            elif with_build and name == "build" and ret[0] == "agg" and ret[1] in p.adts and ret[1].startswith(prefix):
                n += 1
                bad = []
                for fname, v in ret[3]:
                    v = deep_strip(v)
                    ok = False
                    if v[0] == "param" and names.get(v[1]) == fname:
                        ok = True
                    elif _root_field(v) == fname and _pure(v):
                        ok = True
                    elif v[0] == "call" and len(v[2]) == 1 and deep_strip(v[2][0])[0] == "param" and names.get(deep_strip(v[2][0])[1]) == fname \
                            and v[1].rsplit("::", 1)[-1] in ("into", "to_owned", "to_string", "from", "into_iter", "collect"):
                        ok = True
                    if not ok:
                        bad.append("%s: %s" % (fname, show(v, 4)))
                r.require(not bad, "build:%s" % short, fn=f, detail="%s built field by field from the same-named builder fields / parameters" % ret[1].rsplit("::", 1)[-1],
                          fail_detail="%s fills %s" % (short, bad))
            elif f.nargs == 2 and (name in fields or name + "s" in fields or (name.startswith("set_") and name[4:] in fields)):
                n += 1
                tgt = name if name in fields else (name + "s" if name + "s" in fields else name[4:])
                touched, okw = set(), False
                for b, i, s in f.assigns():
                    pr = s["lhs"]["p"]
                    fl = [e.get("f") for e in pr if isinstance(e, dict) and "f" in e and e.get("adt") == adt]
                    if fl and (s["lhs"]["l"] == 1):
                        touched.add(fl[0])
                        v = deep_strip(f._rvalue(s["rv"], frozenset(), 20, b))
                        if fl[0] == tgt and any(x == ("param", 2) for x in walk(v)) and _pure(v) and not any(x[0] == "phi" for x in walk(v)) and all(f.dominates(b, rb) for rb in f.return_blocks()):
                            okw = True
                for c in f.calls():
                    if c.callee in MUTATORS:
                        recv = deep_strip(c.arg(0))
                        rf = _root_field(recv)
                        if rf:
                            touched.add(rf)
                            a1 = c.arg(1)
                            if rf == tgt and any(x == ("param", 2) for x in walk(a1)) and _pure(a1) and all(f.dominates(c.block, rb) for rb in f.return_blocks()):
                                okw = True
                # a list-valued field is only ever extended at its end by its setters (declaration order is kept)
                fty = [x["ty"] for x in p.adts[adt]["variants"][0]["fields"] if x["name"] == tgt]
                if fty and fty[0].startswith("alloc::vec::Vec<"):
                    direct = [1 for b, i, st in f.assigns() if st["lhs"]["l"] == 1 and any(isinstance(e, dict) and e.get("f") == tgt and e.get("adt") == adt for e in st["lhs"]["p"])]
                    ins = [c for c in f.calls() if c.callee in ("alloc::vec::Vec::<T, A>::insert", "alloc::vec::Vec::<T, A>::append") and _root_field(deep_strip(c.arg(0))) != tgt]
                    frontins = [c for c in f.calls() if c.callee == "alloc::vec::Vec::<T, A>::insert"]
                    # ... and nothing else edits the list on the way (dedup, sort, retain, truncate ..)
                    edits = [c.callee for c in f.calls() if c.callee not in MUTATORS and str((c.t.get("arg_tys") or [""])[0]).startswith(("&mut alloc::vec::Vec<", "&mut ["))]
                    okw = okw and not direct and not ins and not frontins and not edits
                r.require(okw and touched == {tgt}, "setter:%s" % short, fn=f, detail="stores its argument in `%s` on every path and touches nothing else" % tgt,
                          fail_detail="%s: fields written %s, argument stored in `%s`: %s" % (short, sorted(touched), tgt, okw))
        r.floor("accessor-functions", n, floor)
