"""C03 — filter chains decide per appender; rejections and errors are isolated."""
from l4sa import q
from l4sa.core import AnchorMissing, ShapeUnrecognised, SwitchInfo, strip, deep_strip, walk, show, calls_in, cmp_nf
from rules import anchors, common

CLAIMED = True
TECHNIQUE = "static analysis over type-checked MIR: CFG reachability from the Response switch arms (chain interpreter), loop-exit analysis for error isolation, single handler site per error, comparison normal form of the threshold filter"
LEVEL_TEXT = """Static, all-paths decision of: (F1) the chain interpreter in the per-appender delivery function: from the switch on Filter::filter's Response the Accept arm reaches Append::append without another filter call, the Reject arm cannot reach Append::append and returns Ok, the Neutral arm returns to the iterator step, exhaustion reaches Append::append; (F2) filters are iterated forward over the stored vector and builders append in call order; (F3) in the node's delivery loop the only loop exit is iterator exhaustion and the Err arm records the error and continues; (F4) Log::log calls the error handler at exactly one site, once per item of the returned error vector; (F5) ThresholdFilter::filter returns Reject exactly on record_level > threshold and Neutral otherwise (never Accept). User-supplied filters/appenders are not decided. (F2, cont.) no call anywhere in the crate sorts, reverses, removes from or otherwise reorders a list of filters in place. (F9) the handler comes from the snapshot that made the delivery (C15.A1); (F10) build_lossy never pairs one definition's sink with another's filters (C13.V9). (F11) a section's filters are read as one sequence (C14.K16). (F1, cont.) every return of Appender::append lies behind a filter call, the iterator step or the sink call (no verdict of the wrapper itself), and every return of Log::log lies behind the call of the node delivery function (no record dropped on a per-thread flag or counter). The delivery call in the node's loop stands under the threshold test and the attachment iterator only."""
LEVEL_NOTE = "Trusted: rustc MIR/callee resolution; Vec/slice iterators yield elements in order. Decides the interpreter's control-flow shape for every chain at once; behaviour of user components is outside."
EXPLANATION = """Decided: F1 chain interpreter arms, F2 declaration order, F3 error isolation, F4 once per error, F5 threshold comparator. Undecided: behaviour of user-supplied Filter/Append implementations."""
DECIDED = ["F1 Accept/Reject/Neutral arms", "F2 forward iteration, push order", "F3 loop exits only by exhaustion", "F4 one handler call per error", "F5 record_level > threshold => Reject else Neutral", "F6 a fresh filter list per appender in the lossy loader", "F7 a log::Log used as an appender is handed every admitted record"]
UNDECIDED = ["user-supplied filters and appenders"]
TRUSTED = ["rustc nightly MIR + Instance::try_resolve", "std slice/Vec iteration order"]

FILTER = "filter::Filter::filter"
APPEND = "append::Append::append"
NEXT = "core::iter::traits::iterator::Iterator::next"


def run(ctx):
    configs = ["default"] if ctx.tier == "quick" else ["default", "full", "single:threshold_filter"]
    for cfg in configs:
        run_cfg(ctx, ctx.prog(cfg), cfg)


def rule_error_isolation(ctx, p, cfg, rid="F3"):
    with ctx.rule(rid, "error isolation", cfg) as r:
        ro = anchors.routing(p)
        nl = ro["node_log"]
        ds = ro["deliver_site"]
        nb = [c.block for c in nl.calls(NEXT)]
        rr = nl.reach(ds.block, avoid=set(nb))
        r.require(not any(b in rr for b in nl.return_blocks()), "loop-exits-only-by-exhaustion", fn=nl, site=ds.at,
                  detail="after an appender call (Ok or Err) every path to return goes through the iterator step",
                  fail_detail="a path from the appender call reaches return without the iterator step: %s" % [q.path_between(nl, ds.block, b, avoid=nb) for b in nl.return_blocks() if b in rr])
        # Err arm records the error
        pushes = [c for c in nl.calls() if (c.callee or "").rsplit("::", 1)[-1] == "push"]
        okp = False
        for c in pushes:
            a = c.arg(1)
            if any(x[0] == "as" and x[2] == "Err" and strip(x[1])[0] == "call" and strip(x[1])[1] == ds.callee for x in walk(a)):
                okp = True
            # `.filter_map(|..| deliver(..).err())` collected into the list: the Some payload of Result::err(deliver(..))
            if any(x[0] == "as" and x[2] == "Some" and strip(x[1])[0] == "call" and strip(x[1])[1] == "core::result::Result::<T, E>::err"
                   and strip(strip(x[1])[2][0])[0] == "call" and strip(strip(x[1])[2][0])[1] == ds.callee for x in walk(a)):
                okp = True
        r.require(okp, "err-recorded", fn=nl, detail="the Err payload of the appender call is pushed to the error list")
        shr = _list_shrinkers(nl)
        r.require(not shr, "error-list-returned-whole", fn=nl, site=(shr[0].at if shr else None), detail="calls that can drop or merge entries of a list in the delivery loop's function: %d" % len(shr),
                  fail_detail="%s is applied in the delivery function: a recorded error can be dropped before it is returned" % (shr[0].callee if shr else ""))
        # the errors are returned as Err(list) when non-empty
        rets = q.ret_assignments(nl)
        as_result = any(q.classify_ret(e) == "err" for b, e in rets) and any(q.classify_ret(e) == "ok" for b, e in rets)
        # .. or the list itself (an empty list meaning that nothing went wrong): every return is the list the errors are pushed to
        from l4sa.panics import _root_local
        def _list_of(c):
            rp = c.t["args"][0].get("move") or c.t["args"][0].get("copy")
            rd = [d_ for d_ in nl.defs(rp["l"])] if rp and not rp["p"] else []
            return _root_local(nl, rd[0][4]["place"]["l"]) if len(rd) == 1 and rd[0][3] == "rv" and rd[0][4]["k"] == "ref" and not rd[0][4]["place"]["p"] else None
        lists = {_list_of(c) for c in pushes} - {None}
        rl = {_root_local(nl, (st["rv"]["a"].get("move") or st["rv"]["a"].get("copy") or {"l": -1})["l"]) for b, i, st in nl.assigns() if st["lhs"]["l"] == 0 and not st["lhs"]["p"] and st["rv"]["k"] == "use" and "const" not in st["rv"]["a"]}
        as_list = "Vec<" in (nl.d.get("sig") or "").rsplit("->", 1)[-1] and "Result<" not in (nl.d.get("sig") or "").rsplit("->", 1)[-1] and len(lists) == 1 and rl == lists
        r.require(as_result or as_list, "returns-collected-errors", fn=nl,
                  detail="returns Err(errors) / Ok(()), or the list of errors itself")
        # one delivery per attachment: the single appender call is in exactly one loop, argument indexes table with the loop item
        a0 = ds.arg(0)
        idx = [x for x in walk(a0) if x[0] == "index"]
        okidx = bool(idx) and deep_strip(idx[0][1]) == ("param", 3) and any(x[0] == "call" and x[1] == NEXT for x in walk(idx[0][2]))
        r.require(okidx, "delivers-to-indexed-appender", fn=nl, site=ds.at, detail="appenders[idx] with idx from the node's list iterator: %s" % show(a0, 6))



def rule_log_adapter(ctx, p, cfg, rid="F7"):
    """`impl<T: Log> Append for T`: a logger used as an appender gets every record its filter chain let through - the adapter
    adds no test of its own"""
    with ctx.rule(rid, "a Log used as an appender gets every admitted record", cfg) as r:
        fs = [f for path, f in p.fns.items() if path.startswith("<T as append::Append>::append")]
        if len(fs) != 1:
            raise AnchorMissing("blanket impl<T: Log> Append for T not found")
        f = fs[0]
        lc = f.calls("log::Log::log")
        r.require(len(lc) == 1 and deep_strip(lc[0].arg(0)) == ("param", 1) and deep_strip(lc[0].arg(1)) == ("param", 2), "forwards-the-record", fn=f, detail="self.log(record)")
        if lc:
            r.require(all(f.dominates(lc[0].block, rb) for rb in f.return_blocks()), "on-every-path", fn=f, site=lc[0].at, detail="Log::log is called on every path through append",
                      fail_detail="append can return without calling Log::log: the adapter drops records the filter chain admitted (delivery is no longer decided by the chain alone)")
        rets = q.ret_assignments(f)
        r.require(bool(rets) and all(q.classify_ret(e) == "ok" for b, e in rets), "reports-ok", fn=f, detail="returns Ok(())")


def rule_chain_interpreter(ctx, p, cfg, rid="F1"):
    """Appender::append: the filters decide, in order, and nothing else does - Reject returns without the sink, Accept and an all-Neutral
    chain reach `self.appender.append(record)` on every path"""
    with ctx.rule(rid, "chain interpreter", cfg) as r:
        ro = anchors.routing(p)
        d = ro["deliver"]
        fc = d.call1(FILTER, "Filter::filter")
        ac = d.call1(APPEND, "Append::append")
        # decision table over the filter's response: for each variant, the region reachable from the filter call when every
        # switch on that response takes only the edges the variant allows (one match, or several tests in a row)
        def is_resp(si):
            e = strip(si.discr)
            return e[0] == "discr" and strip(e[1])[0] == "call" and strip(e[1])[1] == FILTER
        resp_sw = [SwitchInfo(d, b["id"]) for b in d.blocks if b["term"]["k"] == "switch" and b["id"] in d.reachable_blocks() and is_resp(SwitchInfo(d, b["id"]))]

        def eq_test(si):
            """(op, variant) if the switch decides `response == Variant` / `response != Variant`"""
            if not si.is_bool:
                return None
            nf = cmp_nf(si.discr, True)
            if not nf or nf[0] not in ("Eq", "Ne"):
                return None
            a, b = deep_strip(nf[1]), deep_strip(nf[2])
            for x, y in ((a, b), (b, a)):
                if x[0] == "call" and x[1] == FILTER and ((y[0] == "agg" and not y[3]) or y[0] == "const") and str(y[2]) in ("Accept", "Neutral", "Reject"):
                    return nf[0], str(y[2])
            return None
        eq_sw = {b["id"]: eq_test(SwitchInfo(d, b["id"])) for b in d.blocks if b["term"]["k"] == "switch" and b["id"] in d.reachable_blocks() and eq_test(SwitchInfo(d, b["id"]))}
        if not resp_sw and not eq_sw:
            raise ShapeUnrecognised("no discriminant switch on the Filter::filter response in %s (derived == comparisons are not enumerated)" % d.path)
        nb = [c.block for c in d.calls(NEXT)]

        def region(variant, avoid=()):
            start = d.term(fc.block)["target"]
            seen, todo = set(), [start]
            while todo:
                b = todo.pop()
                if b in seen or b in avoid:
                    continue
                seen.add(b)
                t = d.term(b)
                if t["k"] == "switch" and b in eq_sw:
                    op_, tested = eq_sw[b]
                    val = (variant == tested) if op_ == "Eq" else (variant != tested)
                    tgt = SwitchInfo(d, b).target_of(val)
                    if tgt is not None:
                        todo.append(tgt)
                    continue
                if t["k"] == "switch" and any(si.b == b for si in resp_sw):
                    si = [x for x in resp_sw if x.b == b][0]
                    for lab, tgt in si.labelled_edges():
                        ok = lab == variant or (isinstance(lab, tuple) and lab and lab[0] == "otherwise" and variant in lab[1])
                        if ok:
                            todo.append(tgt)
                    continue
                todo.extend(d.succ[b])
            return seen
        covered = set()
        for si in resp_sw:
            for lab, tgt in si.labelled_edges():
                covered |= {lab} if not isinstance(lab, tuple) else set(lab[1])
        for b_, (op_, tested) in eq_sw.items():
            covered |= {"Accept", "Neutral", "Reject"} if len(eq_sw) + len(resp_sw) >= 2 else {tested}
        for need in ("Accept", "Neutral", "Reject"):
            if need not in covered:
                raise ShapeUnrecognised("Response::%s is not decided by the tests on the filter response" % need)
        ra = region("Accept", avoid={fc.block} | set(nb))
        r.require(ac.block in ra, "accept-delivers", fn=d, site=fc.at,
                  detail="Accept reaches Append::append without consulting another filter")
        rs = region("Accept", avoid={ac.block})
        r.require(not any(rb in rs for rb in d.return_blocks()) and fc.block not in rs and not any(x in rs for x in nb), "accept-always-delivers", fn=d,
                  detail="from an Accept response every path leads to Append::append: none to return, to the iterator step or to another filter")
        rr = region("Reject")
        r.require(ac.block not in rr and fc.block not in rr and not any(x in rr for x in nb), "reject-drops", fn=d, site=fc.at,
                  detail="Reject reaches neither Append::append nor a later filter")
        rets = q.ret_assignments(d)
        rej_rets = [e for b, e in rets if b in rr]
        r.require(rej_rets and all(q.classify_ret(e) == "ok" for e in rej_rets), "reject-returns-ok", fn=d,
                  detail="Reject returns Ok(()) (a rejection is not an error): %s" % [show(e) for e in rej_rets])
        rn = region("Neutral")
        r.require(fc.block in rn and ac.block in rn, "neutral-continues", fn=d,
                  detail="Neutral returns to the chain (next filter reachable, delivery reachable on exhaustion)")
        r.require(ac.block not in region("Neutral", avoid=set(nb)), "neutral-goes-through-iterator", fn=d,
                  detail="from Neutral, delivery is reached only through the iterator step (exhaustion)")
        # the filter call consults the record being delivered, and delivery passes the same record
        r.require(deep_strip(fc.arg(1)) == ("param", 2) and deep_strip(ac.arg(1)) == ("param", 2), "same-record", fn=d,
                  detail="filter and appender both receive the record parameter")
        # exhaustion → deliver
        for c in d.calls(NEXT):
            for b in d.blocks:
                if b["term"]["k"] == "switch":
                    si = SwitchInfo(d, b["id"])
                    e = strip(si.discr)
                    if e[0] == "discr" and strip(e[1])[0] == "call" and len(strip(e[1])) > 3 and strip(e[1])[3] == c.block:
                        none_t = si.target_of("None")
                        r.require(none_t is not None and ac.block in d.reach(none_t, avoid={fc.block}, include_src=True), "exhaustion-delivers", fn=d,
                                  detail="all-Neutral (iterator exhausted) reaches Append::append")
        # nothing but the chain decides: a return reached before any filter was asked, the list was stepped or the sink was called is a verdict of the appender wrapper itself
        early = [rb for rb in d.return_blocks() if rb in d.reach(0, avoid={fc.block, ac.block} | set(nb), include_src=True)]
        r.require(not early, "no-verdict-outside-the-chain", fn=d,
                  detail="every return of %s lies behind a filter call, the iterator step or the sink call" % d.path,
                  fail_detail="%s can return (block %s) before any filter is consulted and without calling the sink: records are dropped by a test that is not part of the appender's filter chain (an Accept declared first never gets its say)" % (d.path, early[:3]))
        # .. the loop over the node's attachments stands under the node's threshold and the list's own iterator, nothing else
        nl_, ds_ = ro["node_log"], ro["deliver_site"]
        gate_blocks = {sb_ for sb_, si_, al_, d_, w_ in common.threshold_gates(nl_, ds_.block, ro["enabled_pred"])}
        extra_ = []
        for sb_, si_, al_ in nl_.conditions(ds_.block):
            if sb_ in gate_blocks:
                continue
            dd = strip(si_.discr)
            inner_ = strip(dd[1]) if dd[0] == "discr" else dd
            if any(x[0] == "call" and x[1] == NEXT for x in walk(inner_)):
                continue
            extra_.append(show(si_.discr, 4))
        r.require(not extra_, "attachments-under-the-threshold-only", fn=nl_, site=ds_.at,
                  detail="the delivery call in %s is control-dependent on the threshold test and the attachment iterator only" % nl_.path,
                  fail_detail="the delivery call in %s is also guarded by %s: an admitted record can be kept from every appender of the node by a test that is no part of the configuration" % (nl_.path, extra_))
        # .. and the facade entry point hands every record it is given to the node's delivery function
        ll, site = ro["log_log"], ro["node_log_site"]
        # (a return that lies only behind the refusing edge of the threshold predicate is the level test the node makes anyway, hoisted: that edge is cut)
        pred_ = ro["enabled_pred"]
        cuts = set()
        for b_ in ll.blocks:
            if b_["term"]["k"] == "switch" and b_["id"] in ll.reachable_blocks():
                si_ = SwitchInfo(ll, b_["id"])
                d_ = strip(si_.discr)
                if si_.is_bool and d_[0] == "call" and d_[1] == pred_.path and any(x[0] == "call" and x[1] == ro["find"].path for x in walk(d_[2][0])):
                    t_ = si_.target_of(False)
                    if t_ is not None:
                        cuts.add((b_["id"], t_))
        skipped = sorted(q.skipping_paths(ll, 0, {site.block}, set(ll.return_blocks()), cut_edges=cuts))
        r.require(not skipped, "log-always-dispatches", fn=ll, site=site.at,
                  detail="every return of Log::log lies behind the call of %s" % site.callee,
                  fail_detail="Log::log can return (block %s) without calling %s: a record the configuration admits is dropped on a condition that is no part of the configuration (a per-thread flag, a counter, ..)" % (skipped[:3], site.callee))
        # result of the appender is what is returned on the deliver path
        ret = d.local_expr(0)
        r.require(any(x[0] == "call" and x[1] == APPEND for x in walk(ret)), "appender-result-returned", fn=d,
                  detail="the appender's own Result is returned: %s" % show(ret, 4))


def run_cfg(ctx, p, cfg):
    rule_log_adapter(ctx, p, cfg, "F7")
    from rules import c01
    from rules import c15
    c15.rule_one_snapshot(ctx, p, cfg, "F9")   # "handed to the configured error handler": the handler belongs to the snapshot that made the delivery, not to a later load (C15.A1 re-evaluated)
    from rules import c13
    c13.rule_kept_as_given(ctx, p, cfg, "F10")   # "its own filter chain": the lossy build never pairs one definition's sink with another's filters (C13.V9 re-evaluated)
    c01.rule_index_table(ctx, p, cfg, "F8")   # "decided per appender by its own chain": the position a logger holds names the appender it was attached to (C01.R8 re-evaluated)
    if "config_parsing" in p.meta.get("features", []):
        from rules import c14
        c14.rule_filters_per_appender(ctx, p, cfg, "F6")
        c14.rule_filters_section_whole(ctx, p, cfg, "F11")   # declaration order starts in the document (C14.K16 re-evaluated)   # one appender's (failed) declaration cannot put filters in front of another
    rule_chain_interpreter(ctx, p, cfg, "F1")

    with ctx.rule("F2", "declaration order", cfg) as r:
        ro = anchors.routing(p)
        d = ro["deliver"]
        fc = d.call1(FILTER)
        it = fc.arg(0)
        names = [x[1].rsplit("::", 1)[-1] for x in walk(it) if x[0] == "call"]
        bad = [n for n in names if n in ("rev", "skip", "take", "step_by", "filter", "rposition", "next_back", "nth", "last", "nth_back")]
        r.require("next" in names and not bad, "forward-iteration", fn=d, site=fc.at,
                  detail="filter taken from a forward iterator over the chain: %s" % show(it, 6))
        adt = p.adt(d.d["impl_self_adt"])
        ffs = [f["name"] for f in adt["variants"][0]["fields"] if "dyn filter::Filter" in f["ty"]]
        r.require(len(ffs) == 1 and any(deep_strip(x) == ("field", ("param", 1), ffs[0]) for x in walk(it)), "iterates-own-chain", fn=d,
                  detail="iterator source is self.%s" % ffs)
        for path, meth in (("config::runtime::AppenderBuilder::filter", "push"), ("config::runtime::AppenderBuilder::filters", "extend")):
            f = p.fn(path)
            cs = [c for c in f.calls() if (c.callee or "").rsplit("::", 1)[-1] in ("push", "extend", "extend_from_slice", "append")]
            badc = [c for c in f.calls() if (c.callee or "").rsplit("::", 1)[-1] in ("insert", "reverse", "rev", "sort", "sort_by", "swap", "rotate_left", "rotate_right", "push_front")]
            onfield = [c for c in cs if deep_strip(c.arg(0))[0] == "field" and deep_strip(c.arg(0))[2] == "filters" and deep_strip(deep_strip(c.arg(0))[1]) == ("param", 1)]
            reassigned = [1 for b_, i_, s_ in f.assigns() if s_["lhs"]["l"] == 1 and any(isinstance(e_, dict) and e_.get("f") == "filters" for e_ in s_["lhs"]["p"])]
            r.require(len(cs) == 1 and len(onfield) == 1 and not badc and not reassigned, "builder-appends:%s" % path, fn=f,
                      detail="%s appends at the end (calls: %s)" % (path, [c.callee for c in cs + badc]))
        # the snapshot constructor moves the filters over unchanged
        sn = ro["shared_new"]
        aggs = [a for a in p.aggregates(d.d["impl_self_adt"])]
        r.require(len(aggs) >= 1, "appender-aggregate", detail="runtime Appender constructed in %s" % [a[0].path for a in aggs])
        for (f, b, i, rv) in aggs:
            e = f._rvalue(rv, frozenset(), 40, b)
            fe = [v for n, v in e[3] if n == ffs[0]] if ffs else []
            okk = bool(fe) and not any(x[0] == "call" and x[1].rsplit("::", 1)[-1] in ("rev", "reverse", "sort", "filter", "skip", "take") for x in walk(fe[0]))
            r.require(okk, "filters-moved-unchanged:%s" % f.path, fn=f, detail="filters field built from %s" % (show(fe[0], 5) if fe else None))
        # ... and nothing anywhere in the crate reorders or thins a list of filters in place (a sort that "puts the cheap ones first" changes
        # which filter's Accept/Reject is reached first)
        touched, seen = [], 0
        for path, f in sorted(p.fns.items()):
            for c in f.calls():
                tys = c.t.get("arg_tys") or []
                if not tys or "dyn filter::Filter" not in tys[0] or "HashMap" in tys[0]:
                    continue
                m = (c.callee or "").rsplit("::", 1)[-1]
                seen += 1
                if m in REORDERERS or m.startswith("sort") or m.startswith("rotate") or m.startswith("dedup") or m.startswith("select_nth"):
                    touched.append((f, c))
        r.floor("filter-list-calls-seen", seen, 3)
        r.require(not touched, "no-in-place-reordering", fn=(touched[0][0] if touched else None), site=(touched[0][1].at if touched else None),
                  detail="calls on a list of filters seen: %d, none of them reorders or removes" % seen,
                  fail_detail="%s calls %s on a list of filters: the chain no longer runs in declaration order (or loses a filter), so a different filter's Accept or Reject ends it" % (
                      touched[0][0].path if touched else "", touched[0][1].callee if touched else ""))

    rule_error_isolation(ctx, p, cfg, "F3")

    with ctx.rule("F4", "once per error", cfg) as r:
        ro = anchors.routing(p)
        ll = ro["log_log"]
        ind = [c for c in ll.calls("core::ops::function::Fn::call")] + ll.indirect_calls()
        hs = [c for c in ind if any(x[0] == "field" and x[2] == _handler_field(p) for x in walk(c.arg(0)))]
        r.require(len(hs) == 1, "single-handler-site", fn=ll, detail="error handler call sites in Log::log: %d" % len(hs))
        if len(hs) == 1:
            h = hs[0]
            r.require(ll.in_loop(h.block), "handler-in-loop", fn=ll, site=h.at, detail="handler is called inside the loop over the errors")
            arg = h.arg(1)
            site = ro["node_log_site"]
            # the list iterated is what the delivery returned: the Err payload of its Result, or the list itself when it returns one
            its = [x for x in walk(arg) if x[0] == "call" and x[1] == NEXT]
            from_result = any(x[0] == "as" and x[2] == "Err" and strip(x[1])[0] == "call" and strip(x[1])[1] == site.callee for x in walk(arg))
            plain_list = "Vec<" in (p.fns[site.callee].d.get("sig") or "").rsplit("->", 1)[-1] and "Result<" not in (p.fns[site.callee].d.get("sig") or "").rsplit("->", 1)[-1] and \
                any(x[0] == "call" and x[1] == site.callee for i_ in its for x in walk(i_[2][0]))
            src_ok = bool(its) and (from_result or plain_list)
            r.require(src_ok, "handler-gets-each-error", fn=ll, site=h.at, detail="handler argument is the iterator item of the returned error vector: %s" % show(arg, 7))
            # .. and nothing but "there are errors" and "there is another one" decides whether the handler runs
            extra = []
            site_conds = {(sb2, frozenset(si2.label(v) for v, _ in al2)) for sb2, si2, al2 in ll.conditions(site.block)}
            for sb_, si_, al_ in ll.conditions(h.block):
                if (sb_, frozenset(si_.label(v) for v, _ in al_)) in site_conds:
                    continue   # a condition the delivery itself stands under: without the delivery there is no error to hand over
                d_ = strip(si_.discr)
                inner_ = strip(d_[1]) if d_[0] == "discr" else d_
                from_delivery = any(x[0] == "call" and x[1] == site.callee for x in walk(inner_))
                from_iter = any(x[0] == "call" and x[1] == NEXT for x in walk(inner_))
                is_empty = inner_[0] == "call" and inner_[1].rsplit("::", 1)[-1] in ("is_empty", "is_err", "is_ok", "len")
                if not (from_delivery or from_iter or is_empty):
                    extra.append(show(si_.discr, 4))
            r.require(not extra, "handler-not-otherwise-conditional", fn=ll, site=h.at, detail="conditions on the handler call besides the error list and its iterator: %s" % extra,
                      fail_detail="whether the handler is called also depends on %s: an error can go unreported (e.g. behind a lock that a panicking handler poisoned)" % extra)
            nb = [c.block for c in ll.calls(NEXT)]
            r.require(len(nb) == 1 and h.block not in ll.reach(h.block, avoid=set(nb)), "one-call-per-item", fn=ll,
                      detail="the handler call is re-entered only through the iterator step")
            rr = ll.reach(h.block, avoid=set(nb))
            r.require(not any(b in rr for b in ll.return_blocks()), "handler-loop-exits-by-exhaustion", fn=ll,
                      detail="every error is handed over (no early exit from the error loop)")
            # the list is handed over whole: nothing removes, merges or skips entries between the delivery loop and the handler
            shr = _list_shrinkers(ll)
            r.require(not shr, "error-list-handed-over-whole", fn=ll, site=(shr[0].at if shr else None), detail="calls that can drop or merge entries of a list in Log::log: %d" % len(shr),
                      fail_detail="Log::log calls %s on the returned error list before handing it to the handler: an appender's error can be dropped" % (shr[0].callee if shr else ""))
            # the handler comes from the same snapshot as the routing
            r.require(any(x[0] == "call" and x[1] == anchors.LOAD for x in walk(h.arg(0))), "handler-from-snapshot", fn=ll,
                      detail="handler taken from the loaded snapshot")

    with ctx.rule("F5", "threshold filter comparator", cfg) as r:
        f = p.fn("<filter::threshold::ThresholdFilter as filter::Filter>::filter")
        rets = q.ret_assignments(f)
        sws = [SwitchInfo(f, b["id"]) for b in f.blocks if b["term"]["k"] == "switch" and b["id"] in f.reachable_blocks()]
        if len(sws) != 1:
            raise ShapeUnrecognised("expected a single two-way decision in ThresholdFilter::filter, found %d switches" % len(sws))
        si = sws[0]
        variants = {}
        for lab, tgt in si.labelled_edges():
            rs = f.reach(tgt, include_src=True)
            vs = {e[2] for b, e in rets if b in rs and e[0] == "agg"}
            variants[lab] = vs
        nf_true = cmp_nf(si.discr, True)
        desc = "switch on %s; True->%s False->%s" % (show(si.discr, 5), variants.get(True), variants.get(False))
        ok = False
        if nf_true is not None:
            op, a, b = nf_true
            a, b = deep_strip(a), deep_strip(b)
            is_lvl = lambda e: e[0] == "call" and e[1] == "log::Record::<'a>::level" and deep_strip(e[2][0]) == ("param", 2)
            is_thr = lambda e: e[0] == "field" and e[1] == ("param", 1)
            # record_level > threshold  ==  threshold < record_level
            if op == "Lt" and is_thr(a) and is_lvl(b):
                ok = variants.get(True) == {"Reject"} and variants.get(False) == {"Neutral"}
            # !(record_level > threshold) == record_level <= threshold on the true edge
            elif op == "Le" and is_lvl(a) and is_thr(b):
                ok = variants.get(True) == {"Neutral"} and variants.get(False) == {"Reject"}
        r.require(ok, "reject-iff-level-gt-threshold", fn=f, detail=desc)
        allv = {e[2] for b, e in rets if e[0] == "agg"}
        r.require("Accept" not in allv and all(e[0] == "agg" for b, e in rets), "never-accepts", fn=f, detail="returned variants: %s" % sorted(allv))


REORDERERS = ("reverse", "swap", "insert", "swap_remove", "remove", "retain", "retain_mut", "truncate", "pop", "drain", "clear", "split_off", "extract_if", "set_len", "push_front", "make_ascending_by", "partition_dedup")
SHRINKERS = ("dedup", "dedup_by", "dedup_by_key", "retain", "retain_mut", "truncate", "pop", "remove", "swap_remove", "clear", "drain", "split_off", "extract_if", "set_len")
ITER_DROPPERS = ("filter", "skip", "take", "step_by", "skip_while", "take_while", "dedup", "last", "nth")


def _list_shrinkers(f):
    out = []
    for c in f.calls():
        cal = c.callee or ""
        m = cal.rsplit("::", 1)[-1]
        if cal.startswith("alloc::vec::Vec::<T, A>::") and m in SHRINKERS:
            out.append(c)
        elif cal.startswith("core::iter::traits::iterator::Iterator::") and m in ITER_DROPPERS and any("Error" in t for t in c.t.get("arg_tys", [])[:1]):
            out.append(c)
    return out


def _handler_field(p):
    adt = p.adt("SharedLogger")
    fs = [f["name"] for f in adt["variants"][0]["fields"] if "Fn(&" in f["ty"] or "dyn" in f["ty"] and "Fn" in f["ty"]]
    if len(fs) != 1:
        raise AnchorMissing("SharedLogger: expected one handler (dyn Fn) field, found %s" % fs)
    return fs[0]
