"""C02 — level gating is coherent: enabled(), delivery and the global max level agree."""
from l4sa import q
from l4sa.core import AnchorMissing, ShapeUnrecognised, SwitchInfo, strip, deep_strip, walk, show, calls_in, cmp_nf
from rules import anchors, common

CLAIMED = True
TECHNIQUE = "static analysis over type-checked MIR: sibling-predicate agreement (Log::enabled vs delivery gate), provenance of the tree maximum, dominance pairing of set_max_level with every logger installation/swap site"
LEVEL_TEXT = """Static, all-paths decision of three structural clauses: (T1) Log::enabled and the delivery gate evaluate the same threshold predicate on the node returned by the same lookup, with target and level taken from the metadata/record; (T2) the tree maximum joins the node's own level with the recursive result for every child through max (never min, never root-only) and Logger::max_log_level returns it for the loaded root; (T3) every site that installs a logger (log::set_boxed_logger/set_logger) or swaps the shared snapshot (ArcSwap::store) is dominated by log::set_max_level(x) with x derived from the tree maximum of the very logger being installed; all set_max_level sites are accounted for (floor 4, 3 without config_parsing). The log facade's own macro filtering and the transient between set_max_level and store are not decided. (T7) one snapshot per call (C15.A1); (T8) accessor fidelity; (T9) raw-to-runtime fidelity (C14.K7); (T10) parents-first insertion with every named appender resolved (C01.R2). (T11) the chain interpreter of Appender::append (C03.F1 re-evaluated)."""
LEVEL_NOTE = "Trusted: rustc MIR/callee resolution; the log crate's facade (macros compare against the published max level); arc-swap. Decides pairing/ordering/provenance on all paths of the install sites, not the numeric result for every configuration."
EXPLANATION = """Decided: T1 same predicate for enabled() and delivery, T2 maximum over the whole tree, T3 install/swap => publish max level of that same logger (all sites, floors). Undecided: the log facade's macro behaviour; the short window between set_max_level and store in set_config."""
DECIDED = ["T1 same lookup + predicate in Log::enabled and in delivery", "T2 max over own level and all children, recursively", "T3 set_max_level(max of installed logger) dominates every install/store site", "T4 every declared logger is inserted (C01.R13 re-evaluated)", "T5 implied intermediates gate with the parent's threshold (C01.R4 re-evaluated)", "T6 the effective logger is found by the longest-prefix walk (C01.R5 re-evaluated)"]
UNDECIDED = ["log facade macros", "transient between set_max_level and ArcSwap::store"]
TRUSTED = ["rustc nightly MIR + Instance::try_resolve", "log crate facade", "arc-swap"]

SET_MAX = "log::set_max_level"
INSTALLERS = ("log::set_boxed_logger", "log::set_logger", "log::set_logger_racy", "log::set_boxed_logger_racy")


def run(ctx):
    configs = ["default"] if ctx.tier == "quick" else ["default", "full", "single:console_appender"]
    for cfg in configs:
        run_cfg(ctx, ctx.prog(cfg), cfg)



def rule_tree_max(ctx, p, cfg, rid="T2"):
    """the maximum the logger reports ranges over its own level and every node of the tree"""
    with ctx.rule(rid, "maximum over the tree", cfg) as r:
        ro = anchors.routing(p)
        ml = ro["max_level"]
        e = ml.local_expr(0)
        node = p.adt(ro["node_adt"])
        lvl_fields = [f["name"] for f in node["variants"][0]["fields"] if f["ty"] == "log::LevelFilter"]
        child_fields = [f["name"] for f in node["variants"][0]["fields"] if ro["node_adt"] in f["ty"] and f["ty"] != ro["node_adt"]]
        own = any(deep_strip(x) == ("field", ("param", 1), lvl_fields[0]) for x in walk(e)) if lvl_fields else False
        r.require(own, "joins-own-level", fn=ml, detail="result depends on self.%s" % (lvl_fields[:1],))
        rec = [c for c in calls_in(e) if c[1] == ml.path]
        r.require(bool(rec), "recurses", fn=ml, detail="recursive call on children present")
        maxes = [c for c in calls_in(e) if c[1] in ("core::cmp::max", "core::cmp::Ord::max")]
        mins = [c for c in ml.calls() if (c.callee or "").rsplit("::", 1)[-1] in ("min", "min_by", "min_by_key", "clamp")]
        r.require(bool(maxes) and not mins, "combines-with-max", fn=ml, detail="max calls: %d, min/clamp calls: %d" % (len(maxes), len(mins)))
        if maxes:
            r.require(any(any(c2[1] == ml.path for c2 in calls_in(a)) for m in maxes for a in m[2]), "max-over-recursive-result", fn=ml,
                      detail="a max operand is the recursive result: %s" % show(maxes[0], 5))
        # the recursion's receiver iterates *all* children: values()/iter() of the children map, no filter/take/skip
        for c in rec:
            it = c[2][0]
            names = [x[1].rsplit("::", 1)[-1] for x in walk(it) if x[0] == "call"]
            src_ok = any(n in ("values", "iter", "values_mut", "iter_mut", "into_iter") for n in names) and \
                any(deep_strip(x) == ("field", ("param", 1), child_fields[0]) for x in walk(it)) if child_fields else False
            bad = [n for n in names if n in ("filter", "take", "skip", "take_while", "skip_while", "step_by", "nth", "find", "first", "last", "peekable")]
            r.require(src_ok and not bad, "iterates-all-children", fn=ml, detail="recursion receiver: %s" % show(it, 6))
        # every loop exit is iterator exhaustion (no early break): from the recursive call every path to return passes next()
        nxt = [c.block for c in ml.calls("core::iter::traits::iterator::Iterator::next")]
        for c in ml.calls(ml.path):
            rr = ml.reach(c.block, avoid=set(nxt))
            r.require(not any(b in rr for b in ml.return_blocks()), "no-early-exit", fn=ml, detail="no path from the recursive call to return that skips the iterator step")
        # every child is visited: from the Some edge of the iterator step, every path to the next step
        # or to return passes the recursive call; an early exit is accepted only on `max == Trace`
        # (Trace is the top of the level order, nothing can raise the maximum further)
        for nb in nxt:
            for blk in ml.blocks:
                if blk["term"]["k"] == "switch" and blk["id"] in ml.reachable_blocks():
                    si = SwitchInfo(ml, blk["id"])
                    d = strip(si.discr)
                    if d[0] == "discr" and strip(d[1])[0] == "call" and len(strip(d[1])) > 3 and strip(d[1])[3] == nb:
                        st = si.target_of("Some")
                        cuts = set()
                        for b2 in ml.blocks:
                            if b2["term"]["k"] == "switch" and b2["id"] in ml.reachable_blocks():
                                s2 = SwitchInfo(ml, b2["id"])
                                nf = cmp_nf(s2.discr, True)
                                if nf and nf[0] == "Eq" and any(deep_strip(x) in (("const", "enum", "Trace"),) or (deep_strip(x)[0] == "agg" and deep_strip(x)[2] == "Trace") for x in nf[1:]):
                                    cuts.add((b2["id"], s2.target_of(True)))
                        recb = [c.block for c in ml.calls(ml.path)]
                        hit = q.skipping_paths(ml, st, recb, set(nxt) | set(ml.return_blocks()), cut_edges=cuts)
                        r.require(not hit, "every-child-visited", fn=ml, detail="from the Some edge every path to the next iteration/return passes the recursive call (early exit only on max == Trace)",
                                  fail_detail="a child can be skipped: from the iterator's Some edge bb%s is reachable without the recursive max_log_level call (e.g. a `continue`/filter on the child's own level drops its whole subtree)" % sorted(hit))
        lm = p.fn("Logger::max_log_level")
        le = lm.local_expr(0)
        recv = deep_strip(le[2][0])
        r.require(le[1] == ml.path and recv[0] == "field" and any(x[0] == "call" and x[1] == anchors.LOAD for x in walk(recv)),
                  "public-max-is-tree-max-of-loaded-root", fn=lm, detail=show(le, 8))


def rule_install_publishes(ctx, p, cfg, rid="T3"):
    """whoever installs a logger or swaps the snapshot first publishes the maximum of that very logger"""
    with ctx.rule(rid, "install => publish", cfg) as r:
        ro = anchors.routing(p)
        ml = ro["max_level"]
        max_fns = {ml.path, "Logger::max_log_level"}
        installs = []
        for pat in INSTALLERS:
            installs += p.all_calls(pat)
        stores = p.all_calls(anchors.STORE)
        sites = installs + stores
        n_ok = 0
        for c in sites:
            f = c.fn
            sm = [s for s in f.calls(SET_MAX) if f.dominates(s.block, c.block) and s.block != c.block]
            key = "%s/%s" % (f.path, common.role(c))
            if not r.require(bool(sm), "publish-dominates:" + key, fn=f, site=c.at,
                             detail="log::set_max_level dominates %s" % c.callee):
                continue
            installed = c.arg(len(c.args) - 1)
            good = False
            why = ""
            for s in sm:
                a = s.arg(0)
                mc = [x for x in calls_in(a) if x[1] in max_fns]
                if not mc:
                    why = "set_max_level argument %s is not derived from the tree maximum" % show(a, 5)
                    continue
                base = deep_strip(mc[0][2][0])
                while base[0] == "field":
                    base = base[1]
                inst_subs = [deep_strip(x) for x in walk(installed)]
                if base in inst_subs or any(base == y for x in inst_subs for y in walk(x)):
                    good = True
                else:
                    why = "max level computed from %s, but installed value is %s" % (show(base, 4), show(installed, 5))
            if r.require(good, "publishes-max-of-installed:" + key, fn=f, site=c.at,
                         detail="set_max_level(max_log_level of the installed logger)", fail_detail=why):
                n_ok += 1
        feats = set(p.meta.get("features", []))
        floor = 4 if "config_parsing" in feats else 3
        r.floor("install-sites", len(sites), floor)
        # every set_max_level site belongs to an installer (no stray publication of another value)
        for s in p.all_calls(SET_MAX):
            owners = [c for c in sites if c.fn.path == s.fn.path]
            r.require(bool(owners), "set_max_level-in-installer:%s" % s.fn.path, fn=s.fn, site=s.at,
                      detail="set_max_level is called only by functions that install/swap a logger")
        # set_config: a complete new snapshot is built from the config argument
        for c in stores:
            v = c.arg(1)
            r.require(any(x[0] == "call" and x[1] == "SharedLogger::new" or (x[0] == "call" and x[1] in p.fns and x[1] != ml.path and "config::runtime::Config" in " ".join(p.fns[x[1]].locals[1:2])) for x in walk(v)),
                      "store-of-new-snapshot:%s" % c.fn.path, fn=c.fn, site=c.at, detail="stored value %s" % show(v, 5))

def rule_same_predicate(ctx, p, cfg, rid="T1"):
    """enabled() and log() look the same node up, with the record's own target, and apply the same threshold test to it"""
    with ctx.rule(rid, "same predicate", cfg) as r:
        ro = anchors.routing(p)
        le = p.fn(anchors.LOG_ENABLED)
        ret = le.local_expr(0)
        pred, find = ro["enabled_pred"], ro["find"]
        a0, a1 = ret[2][0], ret[2][1] if len(ret[2]) > 1 else None
        fcall = [c for c in calls_in(a0) if c[1] == find.path]
        r.require(bool(fcall), "enabled-uses-find", fn=le, detail="Log::enabled applies the predicate to the node found by %s" % find.path)
        if fcall:
            tgt = fcall[0][2][1] if len(fcall[0][2]) > 1 else None
            r.require(tgt is not None and deep_strip(tgt) == ("call", "log::Metadata::<'a>::target", (("param", 2),), deep_strip(tgt)[3] if len(deep_strip(tgt)) > 3 else None),
                      "enabled-target-from-metadata", fn=le, detail="lookup key is metadata.target(): %s" % show(tgt))
            root = deep_strip(fcall[0][2][0])
            r.require(any(x[0] == "call" and x[1] == anchors.LOAD for x in walk(root)) and root[0] == "field",
                      "enabled-root-from-snapshot", fn=le, detail="lookup starts at the loaded snapshot's root: %s" % show(root, 8))
        r.require(a1 is not None and any(x[0] == "call" and x[1] == "log::Metadata::<'a>::level" and deep_strip(x[2][0]) == ("param", 2) for x in walk(a1)),
                  "enabled-level-from-metadata", fn=le, detail="level argument is metadata.level(): %s" % show(a1))
        # delivery side
        ll = ro["log_log"]
        site = ro["node_log_site"]
        recv = site.arg(0)
        f2 = [c for c in calls_in(recv) if c[1] == find.path]
        r.require(bool(f2), "delivery-uses-find", fn=ll, site=site.at, detail="Log::log delivers through the node found by %s" % find.path)
        if f2:
            tgt = f2[0][2][1]
            dt = deep_strip(tgt)
            r.require(dt[0] == "call" and dt[1] == "log::Record::<'a>::target" and deep_strip(dt[2][0]) == ("param", 2),
                      "delivery-target-from-record", fn=ll, site=site.at, detail="lookup key is record.target(): %s" % show(tgt),
                      fail_detail="delivery looks the logger up under %s, enabled() under metadata.target(): the two can name different loggers" % show(tgt, 5))
        nl = ro["node_log"]
        ds = ro["deliver_site"]
        conds = nl.conditions(ds.block)
        gate, admit = None, True
        for (sb, si, allowed, d, want) in common.threshold_gates(nl, ds.block, pred):   # the predicate called, or inlined as the same comparison
            gate, admit = (sb, si, allowed, d), want
        r.require(gate is not None, "delivery-gated-by-predicate", fn=nl, site=ds.at,
                  detail="the appender loop is control-dependent on %s" % pred.path)
        if gate:
            sb, si, allowed, d = gate
            labels = {si.label(v) for v, _ in allowed}
            r.require(labels == {admit}, "gate-polarity", fn=nl, detail="delivery only on the predicate's true edge (allowed edges %s)" % labels)
            r.require(deep_strip(d[2][0]) == ("param", 1), "gate-on-self", fn=nl, detail="predicate evaluated on the node itself: %s" % show(d[2][0]))
            r.require(any(x[0] == "call" and x[1] == "log::Record::<'a>::level" and deep_strip(x[2][0]) == ("param", 2) for x in walk(d[2][1])),
                      "gate-level-from-record", fn=nl, detail="predicate level is record.level(): %s" % show(d[2][1]))
        # the predicate itself: threshold >= level
        pe = pred.local_expr(0)
        nf = cmp_nf(pe)
        ok = nf is not None and nf[0] == "Le" and deep_strip(nf[1]) == ("param", 2) and deep_strip(nf[2])[0] == "field" and deep_strip(nf[2])[1] == ("param", 1)
        r.require(ok, "predicate-is-threshold-ge-level", fn=pred, detail="normal form: %s" % (show(("cmp",) + nf) if nf else show(pe)))


def run_cfg(ctx, p, cfg):
    from rules import c01
    c01.rule_inheritance_shape(ctx, p, cfg, "T5")   # an implied intermediate logger gates with its parent's threshold, a declared one with its own
    c01.rule_longest_prefix_walk(ctx, p, cfg, "T6")   # "its effective logger" is the node the walk stops at: the first unknown component ends it
    c01.rule_add_total(ctx, p, cfg, "T4")
    from rules import c03
    c03.rule_chain_interpreter(ctx, p, cfg, "T11")   # "reach exactly the appenders routing prescribes": an attached appender's sink runs unless its own filters reject - nothing else (a flag, a counter) stands in front of it (C03.F1 re-evaluated)
    c01.rule_ancestors_first(ctx, p, cfg, "T10")   # "reach exactly the appenders routing prescribes": every appender a logger names is resolved and handed to the tree, parents first (C01.R2 re-evaluated)
    from rules import c15, accessors
    c15.rule_one_snapshot(ctx, p, cfg, "T7")   # enabled() and log() each decide on one snapshot (C15.A1 re-evaluated)
    accessors.rule_fidelity(ctx, p, cfg, "T8")   # the thresholds compared are the levels the configuration was given
    if "config_parsing" in p.meta.get("features", []):
        from rules import c14
        c14.rule_raw_to_runtime(ctx, p, cfg, "T9")   # ... also when it came from a file (C14.K7 re-evaluated)   # the predicate and the maximum range over every declared logger only if each is in the tree
    rule_same_predicate(ctx, p, cfg, "T1")

    rule_tree_max(ctx, p, cfg, "T2")

    rule_install_publishes(ctx, p, cfg, "T3")
