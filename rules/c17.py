"""C17 — on-start-up trigger rolls at most once, on the first record, if big enough."""
from l4sa import q
from l4sa.core import AnchorMissing, ShapeUnrecognised, SwitchInfo, strip, deep_strip, walk, show, calls_in, cmp_nf
from rules import rolling, common

CLAIMED = True
TECHNIQUE = "static analysis over type-checked MIR: Once::call_once closure ownership of the only `true` assignment, comparison normal form, constant pre-process flag, caller inventory under the appender lock"
LEVEL_TEXT = """Static, all-paths decision of: (O1) the value returned by OnStartUpTrigger::trigger starts false and its only assignment of true is inside the closure passed to Once::call_once on the trigger's own std::sync::Once field, which is created only by the constructor; (O2) inside that closure the assignment is control-dependent on len_estimate >= min_size (normal form) and nothing else; (O3) is_pre_process is const true, the pre-processing branch of the appender rolls before writing (C05.R2 premises re-evaluated), and the size it is shown is seeded from the metadata of the file just opened, 0 only where that open truncated (C06.Z3 premises re-evaluated), and the path handed on to the roller is the appender's own path, which is the one get_writer opens (C05.R5 premises re-evaluated), and the fixed-window roller creates the archive directories at roll time, so a missing directory is not mistaken for a missing source (C07.R10 re-evaluated); (O4) Trigger::trigger is reached only through CompoundPolicy::process, which is reached only from RollingFileAppender::append inside the writer lock's span, so simultaneous first appends are serialised; (O5) CompoundPolicy::process carries out the rotation whenever the trigger answers true — roll() and the roller are guarded by nothing else, so the once-only request cannot be vetoed and lost. The resulting directory contents are decided under C05/C07 only structurally. (O3h) the roller window of the document reaches the roller (C14 rule re-evaluated). (O3i) compressed archives are written with whole-buffer writes and a checked finish (C07.R13 re-evaluated; the all-features configuration is part of the quick tier). (O3j) the roller's range and window guard (C07.R2 re-evaluated)."""
LEVEL_NOTE = "Trusted: rustc MIR/callee resolution; std::sync::Once runs the closure at most once and blocks concurrent callers; parking_lot mutual exclusion."
EXPLANATION = """Decided: O1 at most once (Once closure owns the only true-assignment), O2 threshold >=, O3 pre-processing flag and ordering, O4 serialised under the appender lock, O5 the requested rotation is never vetoed. Undecided: resulting directory contents (C05/C07)."""
DECIDED = ["O1 once-closure", "O2 len >= min_size", "O3 pre-process", "O4 serialised", "O5 triggered => rolled", "O1/O2 decided as a four-situation table: Ok(true) iff this call runs the Once and len >= min_size", "O5/O6 the configured min_size reaches the trigger; a missing key stands for 1", "O3f/O3g the archiving move takes the old content away (C07.R5/R11 re-evaluated)"]
UNDECIDED = ["directory outcome (see C05/C07)"]
TRUSTED = ["rustc nightly MIR + Instance::try_resolve", "std::sync::Once", "parking_lot::Mutex"]

ADT = "append::rolling_file::policy::compound::trigger::onstartup::OnStartUpTrigger"
TRIG = "<%s as append::rolling_file::policy::compound::trigger::Trigger>::trigger" % ADT
IS_PRE = "<%s as append::rolling_file::policy::compound::trigger::Trigger>::is_pre_process" % ADT
CALL_ONCE = "std::sync::once::Once::call_once"


def run(ctx):
    configs = ["default", "full"] if ctx.tier == "quick" else ["default", "full", "single:rolling_file_appender,compound_policy,onstartup_trigger"]
    for cfg in configs:
        run_cfg(ctx, ctx.prog(cfg), cfg)


def run_cfg(ctx, p, cfg):
    if "config_parsing" in p.meta.get("features", []):
        from rules import serde_defaults
        # "only if the file is at least min_size bytes": the min_size of a trigger read from a document is the document's, and 1 when it says nothing
        common.rule_config_reaches_component(ctx, p, cfg, "O5", "OnStartUpTriggerDeserializer", "OnStartUpTrigger::new", stored={"min_size": 1})
        serde_defaults.rule_missing_keys(ctx, p, cfg, "O6", "trigger::onstartup::OnStartUpTriggerConfig")
    with ctx.rule("O1", "at most once", cfg) as r:
        f = p.fn(TRIG)
        adt = p.adt(ADT)
        once_f = [x["name"] for x in adt["variants"][0]["fields"] if x["ty"] == "std::sync::once::Once"]
        r.require(len(once_f) == 1, "once-field", detail="OnStartUpTrigger has one std::sync::Once field: %s" % once_f)
        co = f.call1(CALL_ONCE, "Once::call_once")
        r.require(deep_strip(co.arg(0)) == ("field", ("param", 1), once_f[0]) if once_f else False, "call_once-on-own-once", fn=f, site=co.at,
                  detail="receiver %s" % show(co.arg(0)))
        # on every path, except behind a positive Once::is_completed() (the decision was taken by an earlier call)
        cuts_ = set()
        for blk in f.blocks:
            if blk["term"]["k"] == "switch" and blk["id"] in f.reachable_blocks():
                si_ = SwitchInfo(f, blk["id"])
                d_ = strip(si_.discr)
                if si_.is_bool and d_[0] == "call" and d_[1] == "std::sync::once::Once::is_completed" and si_.target_of(True) is not None:
                    cuts_.add((blk["id"], si_.target_of(True)))
        r.require(not f.in_loop(co.block) and not q.skipping_paths(f, 0, {co.block}, set(f.return_blocks()), cut_edges=cuts_), "call_once-on-every-path", fn=f, detail="call_once is executed once per trigger() call")
        # what the call returns in each of the four situations (this call runs the Once or not; the file has reached min_size or
        # not), read off the code with the closure and any helper followed (rules/oncewalk.py): Ok(true) exactly when both hold
        from rules import oncewalk
        ms = [x["name"] for x in adt["variants"][0]["fields"] if x["ty"] == "u64"]
        try:
            tab = oncewalk.evaluate(p, f, ms)
        except oncewalk.Giveup as e:
            raise ShapeUnrecognised("trigger(): %s" % e)
        ctx.extra["c17_table"] = {"claimed=%s,len>=min=%s" % k: str(v[0]) for k, v in tab.items()}
        for (claimed, big), (res, n_once, raw, lo_once) in sorted(tab.items()):
            want = claimed and big
            r.require(res is want, "answer:%s,%s" % ("first-call" if claimed else "later-call", "len>=min_size" if big else "len<min_size"), fn=f,
                      detail="returns Ok(%s)" % str(res).lower(),
                      fail_detail="when this call %s the Once and the file %s min_size, trigger() returns %s; it must return Ok(%s)" % (
                          "runs" if claimed else "does not run", "has reached" if big else "is below", ("Ok(%s)" % str(res).lower()) if res is not None else repr(raw), str(want).lower()))
            # exactly one call_once on the path of the call that runs it; a later call may skip it behind Once::is_completed()
            r.require(n_once == 1 and (lo_once == 1 or not claimed), "one-once-per-call:%s,%s" % (claimed, big), fn=f, detail="call_once executed %d..%d time(s) on this path" % (lo_once, n_once))
        # Once field is never re-created: aggregates of the ADT only in its constructor(s); no field write
        aggs = sorted({a[0].path for a in p.aggregates(ADT)})
        r.require(aggs == ["append::rolling_file::policy::compound::trigger::onstartup::OnStartUpTrigger::new"], "constructed-only-by-new",
                  detail="OnStartUpTrigger aggregates: %s" % aggs)
        fw = p.field_writes(ADT, once_f[0]) if once_f else []
        r.require(not fw, "once-never-reassigned", detail="writes to the Once field: %s" % [x[0].path for x in fw])
        # Clone would duplicate the Once state
        cl = [i for i in p.impls if i.get("self_ty") == ADT and i.get("trait") in ("core::clone::Clone", "core::marker::Copy")]
        r.require(not cl, "not-clone", detail="OnStartUpTrigger does not implement Clone/Copy")

    with ctx.rule("O2", "threshold", cfg) as r:
        # decided by the table of O1: the comparison between min_size and len_estimate() is followed as `len >= min_size`
        # (either operand order, either polarity); a strict comparison, or any arithmetic on the two, is not followed
        tab = ctx.extra.get("c17_table") or {}
        r.require(tab.get("claimed=True,len>=min=True") == "True" and tab.get("claimed=True,len>=min=False") == "False", "len-ge-min_size",
                  detail="first call: Ok(true) with len >= min_size, Ok(false) below it")

    with ctx.rule("O3", "first record, before the write", cfg) as r:
        f = p.fn(IS_PRE)
        e = f.local_expr(0)
        r.require(e == ("const", "bool", True), "onstartup-is-pre-processing", fn=f, detail="is_pre_process returns %s" % show(e))
    rolling.rule_branch_order(ctx, p, cfg, "O3b")
    from rules import c06
    c06.rule_seeding(ctx, p, cfg, "O3c")   # the size the trigger sees at the first record is the size of the opened file
    if "fixed_window_roller" in p.meta.get("features", []):
        from rules import c07
        c07.rule_directories(ctx, p, cfg, "O3e")
        c07.rule_move_file(ctx, p, cfg, "O3f")          # "the first new record starts a fresh file": the move that archives the old content takes it away from the active path on every success path (C07.R5 re-evaluated)
        if "config_parsing" in p.meta.get("features", []):
            from rules import c14
            c14.rule_roller_window_from_document(ctx, p, cfg, "O3h")   # "becomes the newest archive": of the window the document states, not of the default one
        c07.rule_archive_writes_surface(ctx, p, cfg, "O3i")   # "becomes the newest archive" whole: compressed copies are written with whole-buffer writes and finished with a checked finish() (C07.R13 re-evaluated)
        c07.rule_range(ctx, p, cfg, "O3j")   # whatever valid window the roller has, the start-up roll goes into it (C07.R2 re-evaluated)
        c07.rule_roll_moves_file(ctx, p, cfg, "O3g")   # the start-up roll is never retried: the archive directory is made sure of at roll time (C07.R10 re-evaluated)
    rolling.rule_reopen(ctx, p, cfg, "O3d")  # .. and the path the roller is handed (O3b: the appender's own) is the path that was opened

    with ctx.rule("O4", "serialised", cfg) as r:
        callers = sorted({c.fn.path for c in p.all_calls(rolling.TRIGGER)})
        r.require(callers == [rolling.COMPOUND_PROCESS], "trigger-called-only-by-compound-policy", detail="callers of Trigger::trigger: %s" % callers)
        pc = sorted({c.fn.path for c in p.all_calls(rolling.POLICY_PROCESS)})
        r.require(pc == [rolling.APPEND], "process-called-only-by-append", detail="callers of Policy::process: %s" % pc)
    rolling.rule_lock_span(ctx, p, cfg, "O4b")
    if "compound_policy" in p.meta.get("features", []):
        rolling.rule_policy_order(ctx, p, cfg, "O5")   # the one rotation the trigger asks for is carried out, unconditionally
