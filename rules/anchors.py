"""Role-based anchor resolution: private helpers are located through the call
graph / types from the public API, not by their (refactorable) names."""
from l4sa.core import AnchorMissing, ShapeUnrecognised, strip, deep_strip, walk, show, calls_in

LOG_LOG = "<Logger as log::Log>::log"
LOG_ENABLED = "<Logger as log::Log>::enabled"
LOG_FLUSH = "<Logger as log::Log>::flush"
LOAD = "arc_swap::ArcSwapAny::<T, S>::load"
STORE = "arc_swap::ArcSwapAny::<T, S>::store"

_cache = {}


def _local_calls(p, e):
    return [c for c in calls_in(e) if c[1] in p.fns]


def routing(p):
    """Roles of the routing layer:
       enabled_pred  — the predicate whose result Log::enabled returns
       find          — the lookup applied to the target in Log::enabled
       node_log      — the per-node delivery function called from Log::log
       deliver       — the per-appender function called in node_log's loop
       max_level     — the tree maximum called by Logger::max_log_level
       shared_new    — the snapshot constructor containing the logger insertion loop
       add           — the insertion function called in that loop
    """
    if getattr(p, "_roles", None) is not None:
        return p._roles
    r = {}
    le = p.fn(LOG_ENABLED)
    ret = le.local_expr(0)
    if ret[0] != "call" or ret[1] not in p.fns:
        raise ShapeUnrecognised("Log::enabled does not return a local predicate's result: %s" % show(ret))
    r["enabled_pred"] = p.fn(ret[1])
    inner = [c for a in ret[2] for c in _local_calls(p, a)]
    finds = [c for c in inner if any(x[0] == "call" and x[1] == "log::Metadata::<'a>::target" for x in walk(c))]
    if not finds:
        raise ShapeUnrecognised("Log::enabled: no local lookup applied to Metadata::target")
    r["find"] = p.fn_loops(finds[0][1])      # `next().and_then(|part| node.children.get(part))` is the match it denotes
    ll = p.fn_loops(LOG_LOG)      # iterator-adaptor spellings of the loops are analysed as the loops they denote
    r["log_log"] = ll
    cands = [c for c in ll.calls() if c.callee in p.fns and any(strip(a) == ("param", 2) for a in c.arg_exprs())
             and c.callee != r["find"].path]
    if len(cands) != 1:
        raise ShapeUnrecognised("Log::log: expected one local delivery call taking the record, found %d" % len(cands))
    r["node_log_site"] = cands[0]
    r["node_log"] = p.fn_loops(cands[0].callee)
    nl = r["node_log"]
    dl = [c for c in nl.calls() if c.callee in p.fns and nl.in_loop(c.block)]
    if len(dl) != 1:
        raise ShapeUnrecognised("%s: expected one local call inside the appender loop, found %d" % (nl.path, len(dl)))
    r["deliver_site"] = dl[0]
    r["deliver"] = p.fn_loops(dl[0].callee)     # a lazy map(..).find(..) over the filters is the loop it denotes
    ml = p.fn("Logger::max_log_level")
    mret = ml.local_expr(0)
    if mret[0] != "call" or mret[1] not in p.fns:
        raise ShapeUnrecognised("Logger::max_log_level does not return a local function's result")
    r["max_level"] = p.fn_loops(mret[1])
    # snapshot constructor: the function that builds the snapshot aggregate (type behind Logger's Arc<ArcSwap<..>>)
    import re as _re
    lg = p.adt("Logger")
    m = _re.search(r"ArcSwapAny<alloc::sync::Arc<([A-Za-z_0-9:]+)>", lg["variants"][0]["fields"][0]["ty"])
    if not m or m.group(1) not in p.adts:
        raise AnchorMissing("cannot find the snapshot type behind Logger")
    r["snapshot_adt"] = m.group(1)
    sn = sorted({a[0].path for a in p.aggregates(m.group(1)) if a[0].kind != "Closure"})
    sn = [p.fns[x] for x in sn]
    if len(sn) != 1:
        raise ShapeUnrecognised("expected one function constructing the snapshot, found %s" % [f.path for f in sn])
    r["shared_new"] = p.fn_closure_calls(sn[0].path)    # a local closure called by name (`resolve(names)`) is a helper function
    sn = [r["shared_new"]]
    adds = [c for c in sn[0].calls() if c.callee in p.fns and sn[0].in_loop(c.block)
            and p.fns[c.callee].d.get("impl_self_adt") == r["find"].d.get("impl_self_adt")]
    if len(adds) != 1:
        raise ShapeUnrecognised("expected one insertion call in the logger loop of %s, found %d" % (sn[0].path, len(adds)))
    r["add_site"] = adds[0]
    r["add"] = p.fn(adds[0].callee)
    r["node_adt"] = r["find"].d.get("impl_self_adt")
    p._roles = r
    return r
