"""The SGR sequence AnsiWriter::set_style emits, read off the code for each of the twelve shapes a Style can have.

set_style is straight-line code over a small byte buffer: which bytes end up in the buffer depends only on which of
text / background / intense are set (and on the value of intense), never on loop counts or external data.  For each of
the 2 x 2 x 3 shapes the function's CFG is followed once with constants propagated along that one path: integer
locals that are sums of constants and lengths of constant byte strings, references that name the buffer or a window of
it, stores of constant bytes (or of color_byte(<the style's colour>)) at constant positions, copy_from_slice of
constant byte strings into constant windows.  Nothing else is modelled; anything the walk cannot name makes the rule
report `shape-unrecognised` instead of guessing.

This is path-sensitive constant propagation over a loop-free function (twelve paths, a finite case split), not an
execution: colours stay symbolic, the writer is never called, no value outside the buffer is computed."""
from l4sa.core import ShapeUnrecognised

COLOR_BYTE_SUFFIX = "::color_byte"
STYLE_FIELDS = ("text", "background", "intense")


class Giveup(Exception):
    pass


def fidx(v, name):
    """position of field `name` in an aggregate value (named struct fields carry their names)"""
    if len(v) > 3 and v[3] and name in v[3]:
        return list(v[3]).index(name)
    return int(name)


class Walk:
    def __init__(self, fn, scenario):
        self.fn = fn
        self.sc = scenario          # {"text": bool, "background": bool, "intense": None|True|False}
        self.env = {}
        self.emitted = None
        self.problems = []
        self.steps = 0
        self.asserts = 0

    # ---- places
    def lvalue(self, pl):
        """('loc', local, path) for a place; derefs of references jump to what they name"""
        cur = ("loc", pl["l"], ())
        for e in pl["p"]:
            if e == "*" and cur[0] == "loc" and cur[1] == self.style_local and not cur[2]:
                continue            # the style parameter is a reference to the value whose options the scenario fixes
            if e == "*":
                v = self.read(cur)
                if not (isinstance(v, tuple) and v and v[0] == "ref"):
                    raise Giveup("deref of %r" % (v,))
                cur = v[1]
            elif isinstance(e, dict) and "f" in e:
                cur = (cur[0], cur[1], cur[2] + (("f", e["f"]),))
            elif isinstance(e, dict) and "as" in e:
                cur = (cur[0], cur[1], cur[2] + (("as", e["as"]),))
            elif isinstance(e, dict) and "idx" in e:
                i = self.env.get(e["idx"])
                if not (isinstance(i, tuple) and i[0] == "int"):
                    raise Giveup("index %r" % (i,))
                cur = (cur[0], cur[1], cur[2] + (("i", i[1]),))
            elif isinstance(e, dict) and "ci" in e:
                cur = (cur[0], cur[1], cur[2] + (("i", e["ci"]),))
            else:
                raise Giveup("projection %r" % (e,))
        return cur

    def style_read(self, path):
        """reads through the style parameter: which options are set is the scenario, colours stay symbolic"""
        names = [s[1] for s in path if s[0] == "f"]
        fld = names[0] if names else None
        if fld not in STYLE_FIELDS:
            raise Giveup("style field %r" % (path,))
        has_payload = ("as", "Some") in path
        if not has_payload:
            if fld == "intense":
                return ("opt", self.sc["intense"] is not None)
            return ("opt", bool(self.sc[fld]))
        if fld == "intense":
            if self.sc["intense"] is None:
                raise Giveup("payload of an unset option")
            return ("int", 1 if self.sc["intense"] else 0)
        return ("colour", fld)

    def read(self, lv):
        kind, l, path = lv
        if kind == "konst":
            return self.read_konst(lv)
        if l == self.style_local:
            return self.style_read(path)
        v = self.env.get(l)
        win = None
        for st in path:
            if v is None:
                raise Giveup("read of unknown _%d" % l)
            if st[0] == "f":
                if isinstance(v, tuple) and v[0] == "agg":
                    try:
                        v = v[1][fidx(v, st[1])]
                    except Exception:
                        raise Giveup("field %r" % (st,))
                elif isinstance(v, tuple) and v[0] == "pair" and str(st[1]) in ("0", "1"):
                    v = v[1 + int(st[1])]
                else:
                    raise Giveup("field of %r" % (v,))
            elif st[0] == "as":
                if isinstance(v, tuple) and v[0] == "agg":
                    continue
                raise Giveup("downcast of %r" % (v,))
            elif st[0] == "i":
                if not isinstance(v, list):
                    raise Giveup("index into %r" % (v,))
                if not (0 <= st[1] < len(v)):
                    self.problems.append("read at index %d of a %d-byte buffer" % (st[1], len(v)))
                    raise Giveup("out of bounds")
                v = v[st[1]]
            elif st[0] == "win":
                if not isinstance(v, list):
                    raise Giveup("window of %r" % (v,))
                v = v[st[1]:st[2]]
        return v

    def write(self, lv, val):
        kind, l, path = lv
        if not path:
            self.env[l] = val
            return
        # navigate to the list that holds the element
        v = self.env.get(l)
        off = 0
        for st in path[:-1]:
            if st[0] == "f" and isinstance(v, tuple) and v[0] == "agg":
                try:
                    v = v[1][fidx(v, st[1])]
                except Exception:
                    raise Giveup("store through %r" % (st,))
            elif st[0] == "win" and isinstance(v, list):
                off += st[1]
            else:
                raise Giveup("store through %r" % (st,))
        last = path[-1]
        if last[0] == "f" and isinstance(v, tuple) and v[0] == "agg" and not off:
            # a field of a local struct (a buffer kept with its fill level)
            try:
                v[1][fidx(v, last[1])] = val
            except Exception:
                raise Giveup("store to %r" % (path,))
            return
        if last[0] == "i" and isinstance(v, list):
            i = off + last[1]
            if not (0 <= i < len(v)):
                self.problems.append("store at index %d of a %d-byte buffer" % (i, len(v)))
                return
            v[i] = val[1] if isinstance(val, tuple) and val and val[0] == "int" else val
            return
        raise Giveup("store to %r" % (path,))

    # ---- operands / rvalues
    def const(self, c):
        k = c.get("kind")
        if k == "int" and isinstance(c.get("value"), int):
            return ("int", c["value"])
        if k == "bool":
            return ("int", 1 if c.get("value") else 0)
        if k == "char" and c.get("code") is not None:
            return ("int", c["code"])
        if k in ("ptr", "bytes", "indirect") and isinstance(c.get("bytes"), list) and not c.get("has_ptrs"):
            # &[u8; N] / b"..": a reference to a constant byte string
            tmp = ("const", len(self.consts))
            self.consts.append(list(c["bytes"]))
            return ("ref", ("konst", tmp[1], ()))
        if k == "zst":
            return ("unit",)
        if k == "fn":
            return ("fn", c.get("path"))
        return None

    def operand(self, op):
        if "const" in op:
            return self.const(op["const"])
        pl = op.get("copy") or op.get("move")
        lv = self.lvalue(pl)
        if lv[0] == "konst":
            return self.read_konst(lv)
        return self.read(lv)

    def read_konst(self, lv):
        v = self.consts[lv[1]]
        for st in lv[2]:
            if st[0] == "win":
                v = v[st[1]:st[2]]
            elif st[0] == "i":
                v = v[st[1]]
        return v

    def deref_list(self, ref):
        """the byte list a reference names (a copy), and its lvalue"""
        if not (isinstance(ref, tuple) and ref and ref[0] == "ref"):
            raise Giveup("not a reference: %r" % (ref,))
        lv = ref[1]
        v = self.read_konst(lv) if lv[0] == "konst" else self.read(lv)
        if not isinstance(v, list):
            raise Giveup("reference to %r" % (v,))
        return v, lv

    def rvalue(self, rv):
        k = rv["k"]
        if k == "use":
            v = self.operand(rv["a"])
            return list(v) if isinstance(v, list) else v
        if k == "ref" or k == "rawptr":
            pl = rv["place"]
            lv = self.lvalue(pl)
            return ("ref", lv)
        if k == "repeat":
            a = self.operand(rv["a"])
            n = rv.get("n")
            if not isinstance(n, int) or n > 64 or a is None:
                raise Giveup("repeat")
            return [a[1] if a[0] == "int" else a] * n
        if k == "agg":
            fs = [self.operand(f) for f in rv["fields"]]
            if rv.get("agg") == "array":
                return [(x[1] if isinstance(x, tuple) and x[0] == "int" else x) for x in fs]
            names = rv.get("field_names") or None
            return ("agg", fs, rv.get("variant"), tuple(names)) if names and len(names) == len(fs) else ("agg", fs, rv.get("variant"))
        if k == "cast":
            return self.operand(rv["a"])
        if k == "bin":
            a, b = self.operand(rv["a"]), self.operand(rv["b"])
            op = rv["op"]
            if not (isinstance(a, tuple) and isinstance(b, tuple) and a[0] == "int" and b[0] == "int"):
                return None
            base = op.replace("WithOverflow", "")
            res = {"Add": a[1] + b[1], "Sub": a[1] - b[1], "Mul": a[1] * b[1], "Lt": int(a[1] < b[1]), "Le": int(a[1] <= b[1]), "Gt": int(a[1] > b[1]),
                   "Ge": int(a[1] >= b[1]), "Eq": int(a[1] == b[1]), "Ne": int(a[1] != b[1])}.get(base)
            if res is None:
                return None
            if op.endswith("WithOverflow"):
                return ("pair", ("int", res), ("int", 0 if 0 <= res < 2 ** 64 else 1))
            return ("int", res)
        if k == "un":
            a = self.operand(rv["a"])
            if isinstance(a, tuple) and a[0] == "int" and rv.get("op") == "Not":
                return ("int", 0 if a[1] else 1)
            return None
        if k == "discr":
            v = self.read(self.lvalue(rv["place"])) if rv["place"]["l"] != self.style_local else self.style_read(tuple(
                (("f", e["f"]) if isinstance(e, dict) and "f" in e else ("as", e["as"])) for e in rv["place"]["p"] if isinstance(e, dict) and ("f" in e or "as" in e)))
            if isinstance(v, tuple) and v[0] == "opt":
                return ("int", 1 if v[1] else 0)
            if isinstance(v, tuple) and v[0] == "agg" and v[2] in ("Some", "None"):
                return ("int", 1 if v[2] == "Some" else 0)
            return None
        return None

    # ---- calls
    def call(self, t):
        decl = t.get("decl") or ""
        args = [self.operand(a) for a in t.get("args", [])]
        name = decl.rsplit("::", 1)[-1]
        if decl.endswith(COLOR_BYTE_SUFFIX):
            if isinstance(args[0], tuple) and args[0][0] == "colour":
                return ("colour_byte", args[0][1])
            raise Giveup("color_byte of %r" % (args[0],))
        if decl in ("core::ops::index::IndexMut::index_mut", "core::ops::index::Index::index"):
            ref, rg = args[0], args[1]
            lst, lv = self.deref_list(ref)
            if not (isinstance(rg, tuple) and rg[0] == "agg"):
                raise Giveup("index with %r" % (rg,))
            vals = [x[1] if isinstance(x, tuple) and x[0] == "int" else None for x in rg[1]]
            kind = rg[2]
            if any(v is None for v in vals):
                raise Giveup("range bounds unknown")
            if kind == "RangeTo":
                s, e = 0, vals[0]
            elif kind == "RangeToInclusive":
                s, e = 0, vals[0] + 1
            elif kind == "RangeFrom":
                s, e = vals[0], len(lst)
            elif kind == "Range":
                s, e = vals[0], vals[1]
            elif kind == "RangeFull":
                s, e = 0, len(lst)
            else:
                raise Giveup("range kind %r" % kind)
            if not (0 <= s <= e <= len(lst)):
                self.problems.append("slice [%d..%d] of a %d-byte buffer" % (s, e, len(lst)))
                e = min(max(e, 0), len(lst))
                s = min(max(s, 0), e)
            return ("ref", (lv[0], lv[1], lv[2] + (("win", s, e),)))
        if name == "copy_from_slice" and "slice" in decl:
            dst, dlv = self.deref_list(args[0])
            src, _ = self.deref_list(args[1])
            if len(dst) != len(src):
                self.problems.append("copy_from_slice of %d bytes into a %d-byte window" % (len(src), len(dst)))
                return ("unit",)
            for i, x in enumerate(src):
                self.write((dlv[0], dlv[1], dlv[2] + (("i", i),)), x)
            return ("unit",)
        if name in ("iter", "into_iter") and args and isinstance(args[0], tuple) and args[0] and args[0][0] == "ref":
            # a slice iterator over a named byte list: its position is part of the walk's state
            try:
                lst, lv = self.deref_list(args[0])
            except Giveup:
                lst = None
            if lst is not None:
                return ("agg", [("ref", lv), ("int", 0)], "SliceIter")
        if decl == "core::iter::traits::iterator::Iterator::next" and args and isinstance(args[0], tuple) and args[0] and args[0][0] == "ref":
            itv = self.read(args[0][1])
            if isinstance(itv, tuple) and itv and itv[0] == "agg" and itv[2] == "SliceIter":
                lst, lv = self.deref_list(itv[1][0])
                pos = itv[1][1][1]
                if pos >= len(lst):
                    return ("agg", [], "None")
                itv[1][1] = ("int", pos + 1)
                return ("agg", [("ref", (lv[0], lv[1], lv[2] + (("i", pos),)))], "Some")
        if name == "len" and ("slice" in decl or "array" in decl):
            lst, _ = self.deref_list(args[0])
            return ("int", len(lst))
        if decl == "std::io::Write::write_all":
            lst, _ = self.deref_list(args[1])
            if self.emitted is not None:
                raise Giveup("two write_all calls on one path")
            self.emitted = list(lst)
            return ("agg", [("unit",)], "Ok")
        if name in ("deref", "deref_mut", "as_ref", "as_mut", "borrow", "borrow_mut", "as_slice", "as_mut_slice") and args:
            return args[0]
        if decl.endswith("Try::branch") and args:
            if isinstance(args[0], tuple) and args[0][0] == "agg" and args[0][2] == "Ok":
                return ("agg", args[0][1], "Continue")
            return None
        return None

    # ---- the walk
    def run(self, style_local=2, limit=4000):
        f = self.fn
        self.style_local = style_local
        self.consts = []
        b = 0
        while True:
            self.steps += 1
            if self.steps > limit:
                raise Giveup("walk does not terminate (a loop?)")
            blk = f.blocks[b]
            for st in blk["stmts"]:
                if st["k"] != "assign":
                    continue
                try:
                    val = self.rvalue(st["rv"])
                except Giveup:
                    val = None          # not a value this walk names; it only matters if the buffer comes to depend on it
                try:
                    lv = self.lvalue(st["lhs"])
                except Giveup:
                    if st["lhs"]["p"]:
                        continue        # a store through something unnamed: not the buffer (which is always named)
                    raise
                if lv[1] == self.style_local:
                    raise Giveup("store into the style")
                self.write(lv, val)
            t = blk["term"]
            k = t["k"]
            if k == "return":
                return
            if k == "goto":
                b = t["target"]
            elif k == "drop":
                b = t["target"]
            elif k == "assert":
                c = self.operand(t["cond"])
                self.asserts += 1
                if isinstance(c, tuple) and c[0] == "int":
                    if bool(c[1]) != bool(t.get("expected", True)):
                        self.problems.append("%s fails at %s" % (t.get("kind") or "an assertion", t.get("at")))
                else:
                    self.problems.append("cannot decide %s at %s on this path" % (t.get("kind") or "an assertion", t.get("at")))
                b = t["target"]
            elif k == "switch":
                d = self.operand(t["discr"])
                if not (isinstance(d, tuple) and d[0] == "int"):
                    raise Giveup("branch on %r in bb%d" % (d, b))
                tgt = None
                for a in t.get("arms", []):
                    if a["value"] == d[1]:
                        tgt = a["target"]
                if tgt is None:
                    tgt = t.get("otherwise")
                if tgt is None:
                    raise Giveup("no edge for %r" % (d,))
                b = tgt
            elif k == "call":
                if t.get("target") is None:
                    raise Giveup("diverging call")
                try:
                    val = self.call(t)
                except Giveup as e:
                    if (t.get("decl") or "").endswith(COLOR_BYTE_SUFFIX) or (t.get("decl") or "") in (
                            "core::ops::index::IndexMut::index_mut", "core::ops::index::Index::index", "std::io::Write::write_all") or "copy_from_slice" in (t.get("decl") or ""):
                        raise
                    val = None
                self.write(self.lvalue(t["dest"]), val)
                b = t["target"]
            else:
                raise Giveup("terminator %s" % k)


def expected(sc):
    out = [0x1b, ord("["), ord("0")]
    if sc["text"]:
        out += [ord(";"), ord("3"), ("colour_byte", "text")]
    if sc["background"]:
        out += [ord(";"), ord("4"), ("colour_byte", "background")]
    if sc["intense"] is True:
        out += [ord(";"), ord("1")]
    elif sc["intense"] is False:
        out += [ord(";"), ord("2"), ord("2")]
    out.append(ord("m"))
    return out


def render(seq):
    if seq is None:
        return "nothing"
    s = ""
    for x in seq:
        if isinstance(x, int):
            s += chr(x) if 32 <= x < 127 else "\\x%02x" % x
        elif isinstance(x, tuple) and x[0] == "colour_byte":
            s += "<%s>" % x[1]
        else:
            s += "?"
    return s


def scenarios():
    for text in (False, True):
        for bg in (False, True):
            for inten in (None, True, False):
                yield {"text": text, "background": bg, "intense": inten}


def evaluate(fn, style_local=2):
    """[(scenario, emitted, problems)] — raises ShapeUnrecognised when a path leaves the modelled subset"""
    out = []
    for sc in scenarios():
        w = Walk(fn, sc)
        try:
            w.run(style_local)
        except Giveup as e:
            raise ShapeUnrecognised("set_style: cannot follow the %s shape: %s" % (name(sc), e))
        out.append((sc, w.emitted, w.problems, w.asserts))
    return out


def name(sc):
    return "text=%s,background=%s,intense=%s" % ("Some" if sc["text"] else "None", "Some" if sc["background"] else "None",
                                                 {None: "None", True: "Some(true)", False: "Some(false)"}[sc["intense"]])


def rule_sequences(r, p, fn, style_local=2):
    """X5/X6 on the walk: every shape emits exactly its SGR sequence, and on no shape does a store, a slice or a
    compiler-inserted check leave the buffer"""
    res = evaluate(fn, style_local)
    nas = 0
    for sc, em, probs, na in res:
        nas += na
        want = expected(sc)
        r.require(em == want, "sequence:%s" % name(sc), fn=fn, detail="emits %s" % render(em),
                  fail_detail="for a style with %s set_style emits %s, not %s" % (name(sc), render(em), render(want)))
        r.require(not probs, "in-bounds:%s" % name(sc), fn=fn, detail="every index, slice and arithmetic check on this path holds (%d checks)" % na,
                  fail_detail="for a style with %s: %s" % (name(sc), "; ".join(probs[:3])))
    return nas
