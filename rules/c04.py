"""C04 — file appender: acknowledged records are visible, whole, ordered, not interleaved."""
from l4sa import q
from l4sa.core import AnchorMissing, ShapeUnrecognised, strip, deep_strip, walk, show, calls_in
from rules import common

CLAIMED = True
TECHNIQUE = "static analysis over type-checked MIR: guard-span (lock/encode/flush) path ordering, open-option truth table, field ownership inventory, forwarding-wrapper agreement"
LEVEL_TEXT = """Static, all-paths decision of the premises from which the property follows given the trusted base: (R1) in FileAppender::append a single parking_lot lock on the writer field dominates everything, and the encode and flush calls reach the writer only through that guard and lie inside the guard's span on every path; (R2) every path from encode to an Ok return passes io::Write::flush on the guarded writer; (R3) the writer field is touched only by append and constructed only in the builder, with the type Mutex<SimpleWriter<BufWriter<File>>>, and the module never clones/extracts the handle; (R4) the builder's open options as a truth table over the append flag: create, writable, append=>O_APPEND and no truncate, !append=>truncate, same path as create_dir_all, and no truncate call reachable from append; (W1) SimpleWriter forwards write/flush/write_all/write_fmt to the wrapped writer. The OS/file-system half (what other readers see, O_APPEND atomicity) is not decided."""
LEVEL_NOTE = "Trusted: rustc MIR and callee resolution; parking_lot mutual exclusion; BufWriter::flush writes all buffered bytes or errs; OS append semantics. Quantifies over all paths of the anchored functions (all record sizes, all schedules) but decides only the structural premises, not the file-system behaviour."
EXPLANATION = """Decided (structural, all paths): R1 critical section, R2 acknowledged=>flushed, R3 single handle, R4 open options table, W1 SimpleWriter forwarding. Undecided (behavioural): visibility to other readers and atomicity of O_APPEND writes in the OS/file system; behaviour of user-supplied encoders."""
DECIDED = ["R1 lock/encode/flush under one guard", "R2 flush follows encode on every Ok path", "R3 single writer handle, private, never extracted", "R4 open-option truth table and path agreement; no truncate reachable from append", "W1 SimpleWriter forwards io::Write methods", "R5 append defaults to true for appenders built from a document (C14.K2 re-evaluated)", "R6 builder setters store their argument and nothing else"]
UNDECIDED = ["OS-level visibility/atomicity", "user-supplied Encode implementations"]
TRUSTED = ["rustc nightly MIR + Instance::try_resolve", "parking_lot::Mutex mutual exclusion", "std BufWriter::flush / OpenOptions semantics", "OS O_APPEND semantics"]

APPEND = "<append::file::FileAppender as append::Append>::append"
BUILD = "append::file::FileAppenderBuilder::build"
ADT = "append::file::FileAppender"
ENCODE = "encode::Encode::encode"
FLUSH = "std::io::Write::flush"


def run(ctx):
    configs = ["default"] if ctx.tier == "quick" else ["default", "full", "single:file_appender"]
    for cfg in configs:
        p = ctx.prog(cfg)
        run_cfg(ctx, p, cfg)


def writer_field(p):
    """The FileAppender field holding the Mutex-protected writer (by type, not name)."""
    adt = p.adt(ADT)
    fs = [f for f in adt["variants"][0]["fields"] if "Mutex<" in f["ty"]]
    if len(fs) != 1:
        raise AnchorMissing("FileAppender: expected exactly one Mutex field, found %d" % len(fs))
    return fs[0]



def rule_ack_flushed(ctx, p, cfg, rid="R2"):
    """every Ok return of FileAppender::append has been through a checked flush of the buffered writer"""
    with ctx.rule(rid, "acknowledged => flushed", cfg) as r:
        f = p.fn_inl(APPEND, wanted=[ENCODE, FLUSH, "lock_api::mutex::Mutex::<R, T>::lock"])
        enc = f.calls(ENCODE)
        fl = [c.block for c in f.calls(FLUSH)]
        if len(enc) != 1:
            raise ShapeUnrecognised("expected one encode call")
        ok, wit = q.must_follow_on_ok(f, enc[0].block, fl)
        r.require(ok, "flush-follows-encode-on-ok", fn=f, site=enc[0].at,
                  detail="every path from encode to an Ok return passes io::Write::flush",
                  fail_detail="a path from encode (bb%d) reaches the Ok exit bb%s without flush; path=%s" % (
                      enc[0].block, wit, q.path_between(f, enc[0].block, wit, avoid=fl) if wit is not None else None))
        for x in q.ok_exit_blocks(f):
            r.require(f.dominates(enc[0].block, x), "no-ok-before-encode", fn=f,
                      detail="Ok exit bb%d is dominated by the encode call" % x)
        # the flush result is not discarded: its Err edge reaches an error exit
        for c in f.calls(FLUSH):
            used = common.result_is_checked(f, c)
            r.require(used, "flush-result-checked", fn=f, site=c.at,
                      detail="flush's Result is propagated/inspected (not dropped)")


def rule_open_options(ctx, p, cfg, rid="R4"):
    """how the file appender opens its file: created, writable, O_APPEND in append mode (every write lands at the end, whoever else
    writes), truncated only in truncate mode"""
    with ctx.rule(rid, "open options", cfg) as r:
        b = p.fn(BUILD)
        opn = b.call1("std::fs::OpenOptions::open", "OpenOptions::open")
        opts = common.open_options(b, opn)
        # the builder's flag: the field written by the public setter FileAppenderBuilder::append
        setter = p.fn("append::file::FileAppenderBuilder::append")
        flag_fields = set()
        for blk in setter.blocks:
            for s in blk["stmts"]:
                if s["k"] == "assign" and s["lhs"]["l"] == 1 and s["lhs"]["p"] and "f" in s["lhs"]["p"][-1] \
                        and strip(setter.expr(s["rv"]["a"]) if s["rv"]["k"] == "use" else ("other",)) == ("param", 2):
                    flag_fields.add(s["lhs"]["p"][-1]["f"])
        if len(flag_fields) != 1:
            raise ShapeUnrecognised("cannot identify the builder's append flag (setter writes %s)" % flag_fields)
        flag = ("field", ("param", 1), flag_fields.pop())

        def table(name):
            vals = opts.get(name)
            if not vals:
                return None
            out = {}
            for fv in (False, True):
                res = set()
                for e in vals[-1:]:
                    atoms = q.bool_atoms(e)
                    others = [a for a in atoms if a != flag]
                    import itertools
                    for ov in itertools.product([False, True], repeat=len(others)):
                        env = dict(zip(others, ov))
                        env[flag] = fv
                        res |= q.eval_bool(e, env)
                out[fv] = res
            return out
        t_create, t_write, t_append, t_trunc = table("create"), table("write"), table("append"), table("truncate")
        r.require(t_create is not None and t_create[True] == {True} and t_create[False] == {True}, "create-true", fn=b, site=opn.at,
                  detail="create(..) table over flag: %s" % t_create)
        writable = all(((t_write or {}).get(fv) == {True}) or ((t_append or {}).get(fv) == {True}) for fv in (False, True))
        r.require(writable, "writable", fn=b, site=opn.at, detail="write=%s append=%s" % (t_write, t_append))
        r.require(t_append is not None and t_append[True] == {True}, "append-mode-appends", fn=b, site=opn.at,
                  detail="with the builder flag true the file is opened with append(true): %s" % t_append)
        r.require(t_trunc is None or t_trunc[True] == {False}, "append-mode-keeps-content", fn=b, site=opn.at,
                  detail="with the builder flag true truncate is false: %s" % t_trunc)
        r.require(t_trunc is not None and t_trunc[False] == {True}, "truncate-mode-truncates", fn=b, site=opn.at,
                  detail="with the builder flag false truncate is true: %s" % t_trunc)
        # same path for create_dir_all(parent) and open
        pth = deep_strip(opn.arg(1))
        cda = b.calls("std::fs::create_dir_all")
        r.require(len(cda) == 1, "one-create-dir-all", fn=b, detail="create_dir_all sites: %d" % len(cda))
        for c in cda:
            a = c.arg(0)
            par = [x for x in calls_in(a, "std::path::Path::parent")]
            same = bool(par) and deep_strip(par[0][2][0]) == pth
            r.require(same, "dir-of-opened-path", fn=b, site=c.at,
                      detail="create_dir_all(%s) is the parent of the opened path %s" % (show(a, 5), show(pth, 4)))
            r.require(not b.can_reach(opn.block, c.block) and b.can_reach(c.block, opn.block), "dir-before-open", fn=b, site=c.at, detail="directory creation precedes open")
        # truncation happens at open time only
        cone = p.cone([APPEND], cut_traits=("encode::Encode",))
        tr = p.all_calls("std::fs::OpenOptions::truncate", within=cone)
        r.require(not tr, "no-truncate-from-append", detail="OpenOptions::truncate call sites reachable from Append::append: %s (cone of %d fns, cut at dyn Encode)" % ([c.fn.path for c in tr], len(cone)))
        # the opened file is the one put under the mutex
        agg = p.aggregates(ADT)
        if agg:
            fobj = agg[0]
            if fobj[0].kind == "Closure":
                # read on the view where Result::map(closure) is the match it denotes: the literal is then build()'s own
                br = p.fn_results(BUILD)
                lit = [(bb_, st_) for bb_, i_, st_ in br.assigns() if st_["rv"]["k"] == "agg" and st_["rv"].get("adt") == ADT]
                e = br._rvalue(lit[0][1]["rv"], frozenset(), 40, lit[0][0]) if lit else ("agg", ADT, None, ())
            else:
                e = b._rvalue(fobj[3], frozenset(), 40, fobj[1])
            wf = writer_field(p)
            fe = [v for n, v in e[3] if n == wf["name"]]
            has_open = bool(fe) and any(x[0] == "call" and x[1] == "std::fs::OpenOptions::open" for x in walk(fe[0]))
            r.require(has_open, "opened-file-is-the-writer", fn=b, detail="FileAppender.%s is built from the opened file: %s" % (wf["name"], show(fe[0], 5) if fe else None))

    common.w1_forwarders(ctx, p, cfg, ["encode::writer::simple::SimpleWriter<W>"])

def run_cfg(ctx, p, cfg):
    from rules import accessors
    accessors.rule_fidelity(ctx, p, cfg, "R6", prefix="append::file::", floor=2, with_build=False)   # what the builder is told (append or truncate, the encoder) is what it keeps: a setter stores its argument and touches nothing else
    if "config_parsing" in p.meta.get("features", []) and "file_appender" in p.meta.get("features", []):
        from rules import c14
        c14.rule_file_append_default(ctx, p, cfg, "R5", "file")   # "append mode keeps pre-existing content" also for appenders built from a document
    wf = None
    with ctx.rule("R1", "critical section", cfg) as r:
        f = p.fn_inl(APPEND, wanted=[ENCODE, FLUSH, "lock_api::mutex::Mutex::<R, T>::lock"])
        wf = writer_field(p)
        locks = q.lock_sites(f)
        r.require(len(locks) == 1, "single-lock", fn=f,
                  detail="exactly one lock acquisition in append (found %d)" % len(locks))
        if len(locks) != 1:
            raise ShapeUnrecognised("cannot identify the critical section")
        lk = locks[0]
        recv = deep_strip(lk.arg(0))
        r.require(recv == ("field", ("param", 1), wf["name"]), "lock-on-writer-field", fn=f, site=lk.at,
                  detail="lock receiver is self.%s (%s)" % (wf["name"], show(recv)))
        span = q.GuardSpan(f, lk)
        enc = f.calls(ENCODE)
        fl = f.calls(FLUSH)
        r.require(len(enc) == 1, "one-encode", fn=f, detail="exactly one Encode::encode call (found %d)" % len(enc))
        r.require(len(fl) >= 1, "has-flush", fn=f, detail="at least one io::Write::flush call (found %d)" % len(fl))
        for c in f.calls():
            if c.block == lk.block:
                continue
            r.require(f.dominates(lk.block, c.block), "lock-dominates:%s" % common.role(c), fn=f, site=c.at,
                      detail="the lock acquisition dominates the call to %s" % c.callee)
        for c in enc:
            w = c.arg(1)
            r.require(span.uses_guard(w), "encode-writes-through-guard", fn=f, site=c.at,
                      detail="writer passed to encode is %s" % show(w, 4))
            r.require(span.covers(c.block), "encode-inside-span", fn=f, site=c.at,
                      detail="encode executes only while the guard is held (release points: bb%s)" % span.releases)
            r.require(not f.in_loop(c.block), "encode-not-in-loop", fn=f, site=c.at, detail="encode is not in a loop")
        for i, c in enumerate(fl):
            w = c.arg(0)
            r.require(span.uses_guard(w), "flush-through-guard#%d" % i, fn=f, site=c.at,
                      detail="flush receiver is %s" % show(w, 4))
            r.require(span.covers(c.block), "flush-inside-span#%d" % i, fn=f, site=c.at,
                      detail="flush executes only while the guard is held (release points: bb%s)" % span.releases)
        # the guard is released on every path to return (no leak => later appends can proceed)
        for rb in f.return_blocks():
            r.require(rb in span.after_release, "guard-released-before-return", fn=f,
                      detail="every return is preceded by the guard's drop")

    rule_ack_flushed(ctx, p, cfg, "R2")

    with ctx.rule("R3", "single handle", cfg) as r:
        wf = writer_field(p)
        ty = wf["ty"]
        r.require("Mutex<" in ty and "SimpleWriter<std::io::buffered::bufwriter::BufWriter<std::fs::File>>" in ty,
                  "writer-type", detail="writer field type is %s" % ty)
        r.require(wf["vis"].startswith("Restricted"), "writer-private", detail="writer field visibility %s" % wf["vis"])
        readers = sorted(f.path for f in p.field_reads(ADT, wf["name"]))
        r.require(readers == [APPEND], "only-append-touches-writer",
                  detail="functions mentioning FileAppender.%s: %s" % (wf["name"], readers))
        aggs = p.aggregates(ADT)
        # `.open(&path).map(|file| FileAppender { .. })`: the literal sits in a closure of build() handed to Result::map
        homes = sorted({(a[0].d.get("closure_of") or a[0].path) if a[0].kind == "Closure" else a[0].path for a in aggs})
        r.require(homes == [BUILD], "constructed-only-in-build",
                  detail="FileAppender aggregates: %s" % [a[0].path for a in aggs])
        mod_fns = [f for f in p.fns.values() if f.path.startswith("append::file::") or "append::file::FileAppender" in f.path]
        bad = []
        for f in mod_fns:
            for c in f.calls():
                n = (c.callee or "").rsplit("::", 1)[-1]
                if n in ("try_clone", "into_inner", "get_mut", "into_parts", "from_raw_fd", "as_raw_fd", "data_ptr", "force_unlock", "leak", "get_ref") \
                        or (c.callee or "").startswith("std::fs::File::"):
                    bad.append("%s in %s" % (c.callee, f.path))
        r.require(not bad, "no-handle-extraction", detail="handle-extracting calls in module append::file: %s" % bad)
        opens = [c for f in mod_fns for c in f.calls("std::fs::OpenOptions::open")]
        r.require(len(opens) == 1 and opens[0].fn.path == BUILD, "single-open-site",
                  detail="OpenOptions::open sites in append::file: %s" % [c.fn.path for c in opens])

    rule_open_options(ctx, p, cfg, "R4")
