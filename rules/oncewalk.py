"""What OnStartUpTrigger::trigger returns, read off the code for each of the four situations that matter.

The answer of trigger() depends on two facts only: whether this call is the one that runs the `Once` (C) and whether the
file's length estimate has reached min_size (K).  However the function is spelled - a flag set inside the closure under
the size test, a flag that only records the claim with the size test after it, a helper that does the claiming - its
CFG (helpers and the closure included) is followed once per combination of C and K with constants propagated: bool
locals, references to locals (the closure's captures name locals of its caller), the two symbolic quantities min_size
and len_estimate(), comparisons between them decided by K.  The value returned on that path must be Ok(C && K).

A finite case split with path-sensitive constant propagation, in the manner of rules/sgr.py; nothing is executed.
Anything the walk cannot name raises Giveup, which the rule reports as shape-unrecognised."""
from rules import sgr
from rules.sgr import Giveup

CALL_ONCE = "std::sync::once::Once::call_once"
LEN_EST = "append::rolling_file::LogFile::<'a>::len_estimate"


class OnceWalk(sgr.Walk):
    def __init__(self, p, fn, claimed, big_enough, min_fields, outer=None, depth=0, completed=False):
        sgr.Walk.__init__(self, fn, {"text": False, "background": False, "intense": None})
        self.p = p
        self.claimed = claimed
        self.big = big_enough
        self.min_fields = set(min_fields)
        self.outer = outer
        self.depth = depth
        self.completed = completed if outer is None else outer.completed
        self.style_local = -1
        self.consts = []
        self.once_calls = 0

    # ---- places: 'outer' locations live in the caller's frame, 'sym' ones are the trigger / the log file
    def read(self, lv):
        kind, l, path = lv
        if kind == "outer":
            return self._rebase(self.outer.read(("loc", l, path)))
        if kind == "sym":
            names = [s[1] for s in path if s[0] == "f"]
            if l == "self" and names and names[-1] in self.min_fields:
                return ("symval", "min")
            return ("symobj", l, path)
        return sgr.Walk.read(self, lv)

    def _rebase(self, v):
        """a value read from the caller's frame: references to its locals stay references to *its* locals"""
        if isinstance(v, tuple) and v and v[0] == "ref" and isinstance(v[1], tuple) and v[1][0] == "loc":
            return ("ref", ("outer", v[1][1], v[1][2]))
        return v

    def write(self, lv, val):
        kind, l, path = lv
        if kind == "outer":
            self.outer.write(("loc", l, path), val)
            return
        if kind == "sym":
            raise Giveup("store into the trigger or the log file")
        sgr.Walk.write(self, lv, val)

    def lvalue(self, pl):
        cur = ("loc", pl["l"], ())
        for e in pl["p"]:
            if e == "*":
                v = self.read(cur)
                if isinstance(v, tuple) and v and v[0] == "symobj":
                    cur = ("sym", v[1], v[2])
                    continue
                if isinstance(v, tuple) and v and v[0] in ("agg", "closure"):
                    continue        # `&closure` / `&mut closure` as the first parameter of an Fn / FnMut body
                if not (isinstance(v, tuple) and v and v[0] == "ref"):
                    raise Giveup("deref of %r" % (v,))
                cur = v[1]
            elif isinstance(e, dict) and "f" in e:
                cur = (cur[0], cur[1], cur[2] + (("f", e["f"]),))
            elif isinstance(e, dict) and "as" in e:
                cur = (cur[0], cur[1], cur[2] + (("as", e["as"]),))
            else:
                raise Giveup("projection %r" % (e,))
        return cur

    # ---- values
    def rvalue(self, rv):
        k = rv["k"]
        if k == "bin":
            a, b = self.operand(rv["a"]), self.operand(rv["b"])
            sa = isinstance(a, tuple) and a and a[0] == "symval"
            sb = isinstance(b, tuple) and b and b[0] == "symval"
            if sa and sb and {a[1], b[1]} == {"min", "len"}:
                op = rv["op"]
                # normalise to a statement about  min <= len  (K)
                if a[1] == "len":
                    op = {"Lt": "Gt", "Le": "Ge", "Gt": "Lt", "Ge": "Le"}.get(op, op)       # now: min <op> len
                if op == "Le":
                    return ("int", int(self.big))
                if op == "Gt":
                    return ("int", int(not self.big))
                raise Giveup("min_size and the length are compared with %s (neither >= nor <)" % rv["op"])
            if sa or sb:
                raise Giveup("arithmetic on the size or the threshold")
        if k == "cast":
            a = self.operand(rv["a"])
            if isinstance(a, tuple) and a and a[0] == "symval":
                to = str(rv.get("to") or "")
                if to not in ("u64", "u128", "usize"):
                    raise Giveup("the size or the threshold is cast to %s before the comparison: above %s::MAX it is no longer the comparison of the two unsigned 64-bit quantities" % (to, to))
                return a
        if k == "agg" and rv.get("agg") == "closure":
            fs = [self.operand(f) for f in rv["fields"]]
            return ("closure", rv["closure"], fs)
        if k == "ref":
            lv = self.lvalue(rv["place"])
            return ("ref", lv)
        return sgr.Walk.rvalue(self, rv)

    def call(self, t):
        decl = t.get("decl") or ""
        name = decl.rsplit("::", 1)[-1]
        if decl == CALL_ONCE:
            self.once_calls += 1
            args = [self.operand(a) for a in t.get("args", [])]
            clo = args[1] if len(args) > 1 else None
            if not (isinstance(clo, tuple) and clo and clo[0] == "closure"):
                raise Giveup("call_once argument is not a closure literal")
            root = self
            while root.outer is not None:
                root = root.outer
            if root.once_total >= 1:
                raise Giveup("two call_once calls on one path")
            root.once_total += 1
            if self.claimed:
                cf = self.p.fn(clo[1])
                w = OnceWalk(self.p, cf, self.claimed, self.big, self.min_fields, outer=self, depth=self.depth + 1)
                w.env[1] = ("agg", [self._outward(v) for v in clo[2]], None)
                w.run_fn()
            return ("unit",)
        if decl == LEN_EST:
            return ("symval", "len")
        if decl == "std::sync::once::Once::is_completed":
            # a call that is going to run the Once cannot find it completed; any other call may or may not (both are followed)
            return ("int", 0 if self.claimed else int(self.completed))
        if name in ("unwrap_or", "unwrap_or_default", "is_some", "is_none") and "Option" in decl and t.get("args"):
            a0 = self.operand(t["args"][0])
            if isinstance(a0, tuple) and a0 and a0[0] == "agg" and a0[2] in ("Some", "None"):
                if name == "is_some":
                    return ("int", int(a0[2] == "Some"))
                if name == "is_none":
                    return ("int", int(a0[2] == "None"))
                if a0[2] == "Some":
                    return a0[1][0]
                return self.operand(t["args"][1]) if name == "unwrap_or" else ("int", 0)
            raise Giveup("%s of %r" % (name, a0))
        if name in ("deref", "as_ref", "borrow", "clone") and t.get("args"):
            return self.operand(t["args"][0])
        resolved = t.get("resolved") if t.get("resolved_local") else None
        callee = resolved or decl
        if callee in self.p.fns and self.depth < 4 and "Derive" not in (self.p.fns[callee].d.get("exp") or ""):
            # one of the crate's own small helpers (not spliced in because it is not new): follow it
            g = self.p.fns[callee]
            w = OnceWalk(self.p, g, self.claimed, self.big, self.min_fields, outer=self, depth=self.depth + 1)
            for i, a in enumerate(t.get("args", [])):
                w.env[i + 1] = self._outward(self.operand(a))
            w.run_fn()
            return w.env.get(0)
        return sgr.Walk.call(self, t)

    def _outward(self, v):
        """a value handed to a callee / closure: references to this frame's locals become 'outer' references there"""
        if isinstance(v, tuple) and v and v[0] == "ref" and isinstance(v[1], tuple) and v[1][0] == "loc":
            return ("ref", ("outer", v[1][1], v[1][2]))
        return v

    once_total = 0

    def run_fn(self, limit=2000):
        f = self.fn
        b = 0
        steps = 0
        while True:
            steps += 1
            if steps > limit:
                raise Giveup("walk does not end (a loop?)")
            blk = f.blocks[b]
            for st in blk["stmts"]:
                if st["k"] != "assign":
                    continue
                try:
                    val = self.rvalue(st["rv"])
                except Giveup as e:
                    if "compared" in str(e) or "arithmetic" in str(e) or "call_once" in str(e) or "is cast to" in str(e):
                        raise
                    val = None
                try:
                    lv = self.lvalue(st["lhs"])
                except Giveup:
                    if st["lhs"]["p"]:
                        continue
                    raise
                self.write(lv, val)
            t = blk["term"]
            k = t["k"]
            if k == "return":
                return
            if k in ("goto", "drop"):
                b = t["target"]
            elif k == "assert":
                b = t["target"]
            elif k == "switch":
                d = self.operand(t["discr"])
                if not (isinstance(d, tuple) and d and d[0] == "int"):
                    raise Giveup("branch on %r in bb%d of %s" % (d, b, f.path.rsplit("::", 1)[-1]))
                tgt = None
                for a in t.get("arms", []):
                    if a["value"] == d[1]:
                        tgt = a["target"]
                b = tgt if tgt is not None else t.get("otherwise")
                if b is None:
                    raise Giveup("no edge")
            elif k == "call":
                if t.get("target") is None:
                    raise Giveup("diverging call")
                try:
                    val = self.call(t)
                except Giveup as e:
                    if (t.get("decl") or "") == CALL_ONCE or "compared" in str(e) or "call_once" in str(e) or "branch on" in str(e):
                        raise
                    val = None
                self.write(self.lvalue(t["dest"]), val)
                b = t["target"]
            else:
                raise Giveup("terminator %s" % k)


def evaluate(p, fn, min_fields):
    """{(claimed, big_enough): returned bool or a description} over the four situations; once-call count per situation"""
    out = {}
    for claimed in (False, True):
        for big in (False, True):
            # a call that does not run the Once may find it completed already, or still running in another thread
            for completed in ((False,) if claimed else (False, True)):
                w = OnceWalk(p, fn, claimed, big, min_fields, completed=completed)
                w.once_total = 0
                w.env[1] = ("symobj", "self", ())
                w.env[2] = ("symobj", "file", ())
                w.run_fn()
                v = w.env.get(0)
                res = None
                if isinstance(v, tuple) and v and v[0] == "agg" and v[2] == "Ok" and v[1] and isinstance(v[1][0], tuple) and v[1][0][0] == "int":
                    res = bool(v[1][0][1])
                key = (claimed, big)
                if key in out and out[key][0] != res:
                    res = None      # the answer depends on whether the Once had completed: not a function of (claimed, big)
                    v = ("depends-on-is_completed", out[key][2], v)
                n = w.once_total if key not in out else max(out[key][1], w.once_total)
                lo = w.once_total if key not in out else min(out[key][3], w.once_total)
                out[key] = (res, n, v, lo)
    return out
