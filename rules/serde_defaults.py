"""What a configuration struct holds for a key the document does not mention.

`#[derive(Deserialize)]` turns `#[serde(default = "f")]` into a call of `f` and `#[serde(default)]` into
`Default::default()` on the missing-key path of the generated `visit_map`/`visit_seq` (an `Option` field needs neither and
is `None`).  Those calls are in the MIR of the derived visitor, so the value a missing key stands for can be read off it:
the constant the named function returns, or the `Default` of the field's type.  The documented defaults are frozen here as
a table of values per configuration struct; how they are spelled (a named function, a container-level `Default` impl, the
type's own `Default`) does not matter, only the values."""
import re

from l4sa.core import AnchorMissing, deep_strip, show

# struct (suffix of its path) -> the values missing keys stand for, sorted by their text
EXPECTED = {
    "trigger::onstartup::OnStartUpTriggerConfig": ["1"],                      # min_size: 1 byte (an empty file is not rolled)
    "trigger::time::TimeTriggerConfig": ["0", "false"],                       # max_random_delay: 0, modulate: false
    "config::raw::Root": ["Debug", "empty"],                                  # level: debug, appenders: []
    "config::raw::Logger": ["empty", "true"],                                 # appenders: [], additive: true
}

TYPE_DEFAULTS = {"bool": "false", "u64": "0", "u32": "0", "usize": "0", "i64": "0", "()": "unit"}


def _type_default(ty):
    if ty in TYPE_DEFAULTS:
        return TYPE_DEFAULTS[ty]
    if ty.startswith("alloc::vec::Vec<") or ty.startswith("std::collections::hash::map::HashMap<") or ty.startswith("alloc::string::String"):
        return "empty"
    if ty.startswith("core::option::Option<"):
        return "None"
    return "default(%s)" % ty


def _value(p, e):
    e = deep_strip(e)
    if e[0] == "const":
        v = e[2]
        if isinstance(v, bool):
            return "true" if v else "false"
        return str(v)
    if e[0] == "agg" and not e[3]:
        return str(e[2])
    if e[0] == "call" and e[1] in p.fns:
        return _value(p, p.fns[e[1]].local_expr(0))
    if e[0] == "call" and e[1] == "core::default::Default::default":
        return None
    return show(e, 3)


def missing_key_values(p, who):
    """{visitor method: sorted values} for the derived Deserialize of the struct whose path ends with `who`"""
    out = {}
    for path, f in sorted(p.fns.items()):
        if "serde::Deserialize" not in (f.d.get("exp") or "") or not (path.endswith("::visit_map") or path.endswith("::visit_seq")):
            continue
        m = re.search(r"for ([\w:]+)>::deserialize", path)
        if not m or not m.group(1).endswith(who):
            continue
        vals = []
        for c in f.calls():
            cal = c.callee or ""
            if cal == "core::default::Default::default":
                ty = c.t.get("dest_ty", "")
                if ty.endswith(who):
                    # container-level default: the struct's own Default impl supplies every field
                    impl = [g for g in p.fns.values() if g.path.endswith("as core::default::Default>::default") and who in g.path]
                    e = deep_strip(impl[0].local_expr(0)) if impl else None
                    if e is not None and e[0] == "agg":
                        for _, v in e[3]:
                            vv = _value(p, v)
                            vals.append(vv if vv is not None else "default")
                    else:
                        vals.append("default(%s)" % who)
                else:
                    vals.append(_type_default(ty))
            elif cal in p.fns and "_::" not in cal and "serde" not in cal:
                g = p.fns[cal]
                if g.nargs == 0:
                    vv = _value(p, g.local_expr(0))
                    vals.append(vv if vv is not None else show(deep_strip(g.local_expr(0)), 3))
        out[path.rsplit("::", 1)[-1]] = sorted(vals)
    return out


def rule_missing_keys(ctx, p, cfg, rid, who):
    with ctx.rule(rid, "a key the document leaves out stands for its documented default", cfg) as r:
        got = missing_key_values(p, who)
        if not got:
            raise AnchorMissing("derived Deserialize visitor of %s not found" % who)
        want = sorted(EXPECTED[who])
        for meth, vals in sorted(got.items()):
            # visit_seq fills trailing elements the same way; both must agree with the table
            r.require(vals == want, "missing-key-defaults:%s/%s" % (who.rsplit("::", 1)[-1], meth), detail="missing keys of %s stand for %s" % (who.rsplit("::", 1)[-1], vals),
                      fail_detail="a %s read from a document that omits a key gets %s; the documented defaults are %s" % (who.rsplit("::", 1)[-1], vals, want))
