"""C14 — config files mean what they say in every format; loading is total and lossy."""
import re

from l4sa import q, panics, tables
from l4sa.core import AnchorMissing, ShapeUnrecognised, SwitchInfo, strip, deep_strip, walk, show, calls_in, cmp_nf
from rules import common
from l4sa.core import TRANSPARENT_CALLS

CLAIMED = True
TECHNIQUE = "static analysis over type-checked MIR: derive-shape detection of deny_unknown_fields (no __ignore variant + unknown_field calls), default-value provenance, registry cross-check (Deserialize impls vs inserted kinds vs default kinds), kind-tagged section shape, loop-exit analysis of the lossy pipelines, guarded-table extraction of the extension->format->parser tables, field-to-field provenance of RawConfig::{root,loggers}, panic-site inventory of the loading cone"
LEVEL_TEXT = """Static decision of schema/registry/pipeline clauses (agreement of the three formats with one another and with the programmatic configuration rests on serde and the format crates and is NOT claimed): (K1) the derived Deserialize of the 14 listed config structs denies unknown fields (no __ignore field variant, unknown_field reached from both field visitors); (K2) defaults: additive->true, root level->Debug, policy kind->"compound", encoder kind->"pattern", append->true in both file appender builders and only overridden when the config field is Some, console target->Stdout / tty_only->false, fixed-window base->0, on-start-up min_size->1; (K3) every impl of config::Deserialize is inserted exactly once in Deserializers::default() under its documented kind for the matching trait, the default kinds are registered, and an unregistered kind yields Err; (K4) the kind-tagged sections remove "kind" (and "filters") and pass the remainder on, a missing kind is an error for appender/filter/trigger/roller and the default for policy/encoder; (K5) appenders_lossy's loops only exit by exhaustion, push every error, and a failed filter does not drop its appender; file loading uses build_lossy and handles both error lists; create_raw_config fails on any error and uses strict build; (K6) yaml|yml->Yaml, json->Json, toml->Toml and each variant parses with its crate's from_str; (K7) RawConfig::{root,loggers} map level->level, appenders->appenders, additive->additive, map key->name, each setter applied unconditionally before build (never skipped for some documents); (K8) no un-discharged panic site in the loading cone (inherits the time trigger's known finding D5, since TimeTrigger::new runs at load time). (K11) the refresh_rate visitor implements visit_str only; any other visit_* is a plain hand-over of its argument to it. (K5, cont.) the strict loader tests the appender error list as returned (no &mut use before is_empty); (K12) retention of the lossy build (C13.V2); (K13a-d) size/time/on-start-up trigger and roller window reach their components as configured; (K14) the type-erasing wrapper passes a section to deserialize_into untouched; (K2, cont.) an optional setter's result is the builder that is built. (K15) accessor and setter fidelity of the runtime configuration types, including: a list-valued setter only pushes/extends (no dedup, sort, retain). (K16) AppenderConfig's Deserialize hands kind and filters from map.remove straight to deserialize_into, with no loop of its own; (K2e) interval unit table (C20.L5)."""
LEVEL_NOTE = "Trusted: rustc MIR/callee resolution; serde derive semantics for the generated shapes; serde_yaml/serde_json/toml; typemap. cfg-disabled formats report a FormatError and are checked as such."
EXPLANATION = """Decided: K1 deny-unknown shapes (14 structs), K2 defaults, K3 registry, K4 kind-tagged sections, K5 lossy/strict pipelines, K6 format tables, K7 field mapping, K8 loading does not panic (D5 sites reported as known findings under C16). Undecided: cross-format equivalence and equivalence with the programmatic configuration."""
DECIDED = ["K1", "K2", "K3", "K4", "K5", "K6", "K7", "K8", "K5b a fresh filter list per appender", "K9 keys a document leaves out stand for the documented defaults (root level debug, additive true, empty lists)"]
UNDECIDED = ["cross-format equivalence (serde + format crates)", "equivalence with programmatic configuration for every document"]
TRUSTED = ["rustc nightly MIR + Instance::try_resolve", "serde derive / serde_yaml / serde_json / toml", "typemap-ors"]

DENY = ["config::raw::RawConfig", "config::raw::Root", "config::raw::Logger", "append::console::ConsoleAppenderConfig", "append::file::FileAppenderConfig",
        "append::rolling_file::RollingFileAppenderConfig", "append::rolling_file::policy::compound::CompoundPolicyConfig",
        "append::rolling_file::policy::compound::roll::fixed_window::FixedWindowRollerConfig", "append::rolling_file::policy::compound::roll::delete::DeleteRollerConfig",
        "append::rolling_file::policy::compound::trigger::size::SizeTriggerConfig", "append::rolling_file::policy::compound::trigger::time::TimeTriggerConfig",
        "append::rolling_file::policy::compound::trigger::onstartup::OnStartUpTriggerConfig", "encode::pattern::PatternEncoderConfig", "encode::json::JsonEncoderConfig"]
FEATURE_OF = {"append::console::": "console_appender", "append::file::": "file_appender", "append::rolling_file::RollingFileAppenderConfig": "rolling_file_appender",
              "append::rolling_file::policy::compound::CompoundPolicyConfig": "compound_policy", "fixed_window": "fixed_window_roller", "delete": "delete_roller",
              "trigger::size": "size_trigger", "trigger::time": "time_trigger", "trigger::onstartup": "onstartup_trigger", "encode::pattern": "pattern_encoder", "encode::json": "json_encoder"}
REGISTRY = {"console": ("append::console::ConsoleAppenderDeserializer", "append::Append"), "file": ("append::file::FileAppenderDeserializer", "append::Append"),
            "rolling_file": ("append::rolling_file::RollingFileAppenderDeserializer", "append::Append"),
            "compound": ("append::rolling_file::policy::compound::CompoundPolicyDeserializer", "append::rolling_file::policy::Policy"),
            "delete": ("append::rolling_file::policy::compound::roll::delete::DeleteRollerDeserializer", "append::rolling_file::policy::compound::roll::Roll"),
            "fixed_window": ("append::rolling_file::policy::compound::roll::fixed_window::FixedWindowRollerDeserializer", "append::rolling_file::policy::compound::roll::Roll"),
            "size": ("append::rolling_file::policy::compound::trigger::size::SizeTriggerDeserializer", "append::rolling_file::policy::compound::trigger::Trigger"),
            "time": ("append::rolling_file::policy::compound::trigger::time::TimeTriggerDeserializer", "append::rolling_file::policy::compound::trigger::Trigger"),
            "onstartup": ("append::rolling_file::policy::compound::trigger::onstartup::OnStartUpTriggerDeserializer", "append::rolling_file::policy::compound::trigger::Trigger"),
            "json": ("encode::json::JsonEncoderDeserializer", "encode::Encode"), "pattern": ("encode::pattern::PatternEncoderDeserializer", "encode::Encode"),
            "threshold": ("filter::threshold::ThresholdFilterDeserializer", "filter::Filter")}
TAGGED = {"append::AppenderConfig": ("error", True), "filter::FilterConfig": ("error", False), "encode::EncoderConfig": ("pattern", False),
          "append::rolling_file::Policy": ("compound", False), "append::rolling_file::policy::compound::Trigger": ("error", False), "append::rolling_file::policy::compound::Roller": ("error", False)}
CUT = ("encode::Encode", "append::Append", "filter::Filter", "std::io::Write", "encode::Write", "append::rolling_file::policy::Policy",
       "append::rolling_file::policy::compound::trigger::Trigger", "append::rolling_file::policy::compound::roll::Roll")
NEXT = "core::iter::traits::iterator::Iterator::next"


def feature_on(p, adt):
    feats = set(p.meta.get("features", []))
    for k, f in FEATURE_OF.items():
        if k in adt:
            return f in feats
    return True


def run(ctx):
    for cfg in (["default", "full"] if ctx.tier == "quick" else ["default", "release", "full", "single:config_parsing,console_appender"]):
        p = ctx.prog(cfg)
        if "config_parsing" not in p.meta.get("features", []):
            continue
        run_cfg(ctx, p, cfg)


def derived_parts(p, adt):
    """(__Field adt dict, [field visitor fns]) for the derived Deserialize of adt"""
    fa = [k for k in p.adts if k.endswith("::__Field") and ("for %s>" % adt) in k]
    vis = [f for f in p.fns.values() if ("for %s>" % adt) in f.path and "__FieldVisitor as serde_core::de::Visitor" in f.path]
    return (p.adts[fa[0]] if fa else None), vis


def rule_filters_per_appender(ctx, p, cfg, rid):
    """In the lossy loader every appender starts with an empty filter list of its own: whatever accumulates the deserialized
    filters (a builder, a Vec) is created inside the per-appender iteration, so nothing left over from a failed appender
    can reach the next one."""
    with ctx.rule(rid, "a fresh filter list per appender", cfg) as r:
        f = p.fn_loops("config::raw::RawConfig::appenders_lossy")     # (a `fold` over the filters is the loop it denotes)
        des = f.calls("config::raw::Deserializers::deserialize")
        flt = [c for c in des if any("filter" in str(t) or "Filter" in str(t) for t in c.t.get("generic_args", []))]
        app = [c for c in des if c not in flt]
        if len(flt) != 1 or len(app) != 1:
            raise ShapeUnrecognised("cannot tell the filter site from the appender site in appenders_lossy")
        outer = [c for c in f.calls(NEXT) if f.dominates(c.block, app[0].block) and not f.dominates(app[0].block, c.block) and f.dominates(c.block, flt[0].block)]
        outer = sorted(outer, key=lambda c: sum(1 for o in outer if f.dominates(o.block, c.block)))[:1]
        if not outer:
            raise ShapeUnrecognised("outer (per-appender) iteration not found")
        ob = outer[0].block
        body = {x for x in f.reach(ob, include_src=True) if ob in f.reach(x, include_src=True)}
        # calls that take the deserialized filter
        def is_filter(a):
            d = deep_strip(a)
            while d[0] == "field":
                d = deep_strip(d[1])
            return d[0] == "as" and d[2] in ("Ok", "Continue") and deep_strip(d[1])[0] == "call" and len(deep_strip(d[1])) > 3 and deep_strip(d[1])[3] == flt[0].block
        takers = [c for c in f.calls() if c.block != flt[0].block and any(is_filter(a) for a in c.arg_exprs()[1:])
            and c.callee not in ("core::ops::try_trait::Try::branch",) and (c.callee or "").rsplit("::", 1)[-1] in ("filter", "push", "filters", "extend", "push_back")]
        r.require(len(takers) >= 1, "filter-sink", fn=f, detail="calls receiving the deserialized filter: %s" % [c.callee for c in takers])
        for c in takers:
            recv = c.arg(0)
            inits = [x for x in walk(recv) if x[0] == "call" and len(x) > 3 and (x[1].rsplit("::", 1)[-1] in ("builder", "new", "with_capacity", "default") or x[1].endswith("Vec::<T>::new"))]
            fresh = bool(inits) and all(x[3] in body and f.dominates(ob, x[3]) for x in inits)
            r.require(fresh, "accumulator-created-per-appender:%s" % common.role(c), fn=f, site=c.at,
                      detail="the filter accumulator %s is created inside the per-appender iteration" % show(recv, 3),
                      fail_detail="the deserialized filters are collected in %s, which is created outside the per-appender iteration: filters of an appender that then fails to build stay in it and are attached to the next appender" % show(recv, 4))


def rule_file_append_default(ctx, p, cfg, rid, which="file"):
    """an appender built from a document that does not mention `append` keeps existing content: builder default true,
    overridden only when the key is given"""
    with ctx.rule(rid, "append defaults to true when configured from a file", cfg) as r:
        def builder_fields(path):
            b = p.fn(path)
            e = b.local_expr(0)
            return b, ({n: deep_strip(v) for n, v in e[3]} if e[0] == "agg" else {})
        if which == "file":
            b, fd = builder_fields("append::file::FileAppender::builder")
            r.require(fd.get("append") == ("const", "bool", True), "file-append-default-true", fn=b, detail="FileAppender::builder(): %s" % {k: show(v) for k, v in fd.items()})
            overridden_only_on_some(r, p, "<append::file::FileAppenderDeserializer as config::raw::Deserialize>::deserialize", "append::file::FileAppenderBuilder::append", "append", "file-append")
        else:
            b, fd = builder_fields("append::rolling_file::RollingFileAppender::builder")
            r.require(fd.get("append") == ("const", "bool", True), "rolling-append-default-true", fn=b, detail="RollingFileAppender::builder(): %s" % {k: show(v) for k, v in fd.items()})
            overridden_only_on_some(r, p, "<append::rolling_file::RollingFileAppenderDeserializer as config::raw::Deserialize>::deserialize", "append::rolling_file::RollingFileAppenderBuilder::append", "append", "rolling-append")


def rule_whole_document_parsers(r, p):
    """each file format is parsed by the format crate's from_str on the whole source: those entry points reject trailing
    characters and partial documents; a hand-driven Deserializer does not"""
    g = p.fn("config::file::Format::parse")
    parsers = {"Yaml": "serde_yaml::de::from_str", "Json": "serde_json::de::from_str", "Toml": "toml::de::from_str"}
    fa = p.adt("config::file::Format")
    variants = [v["name"] for v in fa["variants"]]
    if not variants:
        r.ok("no-format-compiled", fn=g, detail="no file format feature is enabled in this configuration: Format has no variants")
    elif len(variants) == 1:
        cs = [c.callee for c in g.calls() if (c.callee or "").endswith("::from_str")]
        r.require(cs == [parsers[variants[0]]], "parser:%s" % variants[0], fn=g, detail="Format::%s parses with %s" % (variants[0], cs))
    else:
        si = None
        for blk in g.blocks:
            if blk["term"]["k"] == "switch" and blk["id"] in g.reachable_blocks():
                s2 = SwitchInfo(g, blk["id"])
                if strip(s2.discr)[0] == "discr" and deep_strip(strip(s2.discr)[1]) == ("param", 1):
                    si = s2
        if si is None:
            raise ShapeUnrecognised("Format::parse does not match on self")
        for v in variants:
            t = si.target_of(v)
            reg = g.reach(t, include_src=True)
            for v2 in variants:
                if v2 != v:
                    reg = reg - g.reach(si.target_of(v2), include_src=True)
            cs = [c.callee for c in g.calls() if c.block in reg and (c.callee or "").endswith("::from_str")]
            r.require(cs == [parsers[v]], "parser:%s" % v, fn=g, detail="Format::%s parses with %s" % (v, cs))
    for c in g.calls():
        if (c.callee or "").endswith("::from_str"):
            r.require(deep_strip(c.arg(0)) == ("param", 2), "parses-the-source:%s" % common.role(c), fn=g, detail="parser input is the source text")


def rule_filters_section_whole(ctx, p, cfg, rid="K16"):
    """An appender section's `filters:` list becomes the appender's chain as it stands: AppenderConfig's Deserialize takes the
    value out of the map and hands it to `deserialize_into` whole - serde reads a sequence front to back - so no loop of its own
    (a `pop()`, an index walk) can reorder or thin the chain."""
    with ctx.rule(rid, "the filters of a section are read as one sequence", cfg) as r:
        fs = [f for path, f in p.fns.items() if "AppenderConfig" in path and path.endswith("::deserialize") and "Derive" not in (f.d.get("exp") or "") and "serde" in path]
        if len(fs) != 1:
            raise AnchorMissing("AppenderConfig's hand-written Deserialize not found (%d candidates)" % len(fs))
        f = p.fn_loops(fs[0].path)
        di = [c for c in f.calls() if (c.callee or "").endswith("Value::deserialize_into")]
        rem = [c for c in f.calls() if (c.callee or "").endswith("BTreeMap::<K, V, A>::remove")]
        r.require(len(di) == 2 and len(rem) == 2, "kind-and-filters-taken-out", fn=f, detail="map.remove sites %d, deserialize_into sites %d (kind, filters)" % (len(rem), len(di)))
        whole = [c for c in di if any(x[0] == "call" and x[1].endswith("BTreeMap::<K, V, A>::remove") for x in walk(c.arg(0))) and not f.in_loop(c.block)]
        r.require(len(whole) == len(di), "each-read-whole", fn=f, detail="both values go from map.remove(..) straight into deserialize_into, outside any loop",
                  fail_detail="a value of the section is not handed to deserialize_into as it was taken out of the map (or is read inside a loop): the order of a list can change on the way")
        vecs = [c.callee for c in f.calls() if (c.callee or "").startswith("alloc::vec::Vec::") and (c.callee or "").rsplit("::", 1)[-1] not in ("new",)]
        r.require(not vecs and not f.back_edges(), "no-loop-of-its-own", fn=f, detail="no loop and no Vec operation besides the empty default",
                  fail_detail="AppenderConfig::deserialize walks a list itself (%s%s): the chain of a file-declared appender may not be in declaration order" % (vecs, ", a loop" if f.back_edges() else ""))


def rule_section_passed_whole(ctx, p, cfg, rid="K14"):
    """Unknown keys can only be refused by the component's own `deny_unknown_fields` visitor if the section reaches it as it was
    written: the type-erasing wrapper every component section goes through hands `deserialize_into` the value it was given -
    nothing removed, renamed or defaulted on the way - and the typed configuration it gets back to the component's deserializer."""
    with ctx.rule(rid, "a component section reaches its visitor as written", cfg) as r:
        fs = [f for path, f in p.fns.items() if "DeserializeEraser" in path and path.endswith("::deserialize") and "ErasedDeserialize" in path]
        if len(fs) != 1:
            raise AnchorMissing("the type-erasing Deserialize wrapper was not found (%d candidates)" % len(fs))
        f = fs[0]
        di = [c for c in f.calls() if (c.callee or "").endswith("Value::deserialize_into")]
        r.require(len(di) == 1 and deep_strip(di[0].arg(0)) == ("param", 2), "section-deserialised-as-given", fn=f, site=(di[0].at if di else None),
                  detail="deserialize_into(config) on the parameter itself",
                  fail_detail="the section handed to deserialize_into is %s, not the value that was written: keys can be dropped or changed before the deny_unknown_fields visitor sees them" % (
                      [show(c.arg(0), 5) for c in di]))
        inner = [c for c in f.calls("config::raw::Deserialize::deserialize")]
        okp = len(inner) == 1 and len(di) == 1 and any(x[0] == "call" and len(x) > 3 and x[3] == di[0].block for x in walk(inner[0].arg(1))) and deep_strip(inner[0].arg(2)) == ("param", 3)
        r.require(okp, "typed-config-handed-to-the-component", fn=f, detail="the component's deserializer gets the typed configuration and the registry")
        mine = {c.block for c in di} | {c.block for c in inner}
        others = [c.callee for c in f.calls() if c.block not in mine and not (c.callee or "").endswith(("Try::branch", "from_residual")) and (c.callee or "") not in TRANSPARENT_CALLS]
        r.require(not others, "nothing-else-touches-the-section", fn=f, detail="other calls in the wrapper: %s" % others)


def rule_raw_to_runtime(ctx, p, cfg, rid="K7"):
    """RawConfig::{root,loggers,refresh_rate}: what the document says about a logger (name, level, appenders, additive) is what
    the runtime configuration holds - for every logger, whatever its other keys are."""
    with ctx.rule(rid, "meaning preserved", cfg) as r:
        f = p.fn("config::raw::RawConfig::root")
        e = f.local_expr(0)
        ok = e[0] == "call" and e[1] == "config::runtime::RootBuilder::build"
        lv = deep_strip(e[2][1]) if ok else None
        ap = [x for x in walk(e) if x[0] == "call" and x[1] == "config::runtime::RootBuilder::appenders"]
        r.require(ok and lv[0] == "field" and lv[2] == "level" and any(x[0] == "field" and x[2] == "root" for x in walk(lv)), "root-level", fn=f, detail="build(self.root.level): %s" % (show(lv) if lv else None))
        r.require(bool(ap) and deep_strip(ap[0][2][1]) == ("field", ("field", ("param", 1), "root"), "appenders"), "root-appenders", fn=f, detail="appenders(self.root.appenders.clone())")
        g = p.fn("config::raw::RawConfig::loggers")
        clo = p.closures_of(g.path)
        r.require(len(clo) == 1, "logger-closure", fn=g, detail="one mapping closure")
        if clo:
            c = clo[0]
            e = c.local_expr(0)
            ok = e[0] == "call" and e[1] == "config::runtime::LoggerBuilder::build"
            if ok:
                nm, lv = deep_strip(e[2][1]), deep_strip(e[2][2])
                r.require(nm == ("field", ("param", 2), "0"), "logger-name-is-map-key", fn=c, detail="name = %s" % show(nm))
                r.require(lv[0] == "field" and lv[2] == "level" and lv[1] == ("field", ("param", 2), "1"), "logger-level", fn=c, detail="level = %s" % show(lv))
            else:
                r.fail("logger-build", fn=c, detail="closure does not return LoggerBuilder::build(..)")
            for setter, fld in (("config::runtime::LoggerBuilder::appenders", "appenders"), ("config::runtime::LoggerBuilder::additive", "additive")):
                cs = [x for x in walk(e) if x[0] == "call" and x[1] == setter]
                okf = bool(cs) and deep_strip(cs[0][2][1]) == ("field", ("field", ("param", 2), "1"), fld)
                r.require(okf, "logger-%s" % fld, fn=c, detail="%s(logger.%s)" % (setter.rsplit("::", 1)[-1], fld))
                # ... on every path: the setter is not skipped for some documents (builder defaults would apply)
                sites = c.calls(setter)
                builds = c.calls("config::runtime::LoggerBuilder::build")
                unc = len(sites) == 1 and len(builds) == 1 and c.dominates(sites[0].block, builds[0].block)
                r.require(unc, "logger-%s-always-passed" % fld, fn=c, detail="%s is applied unconditionally before build" % setter.rsplit("::", 1)[-1],
                          fail_detail="%s(logger.%s) is skipped on some path to build(): for those documents the builder's default replaces the value written in the file" % (setter.rsplit("::", 1)[-1], fld))
        it = g.calls("core::iter::traits::iterator::Iterator::collect")
        r.require(len(it) == 1 and not any(x[0] == "call" and x[1].rsplit("::", 1)[-1] in ("filter", "skip", "take", "filter_map") for x in walk(it[0].arg(0))), "all-loggers-mapped", fn=g, detail="every map entry becomes a logger")
        h = p.fn("config::raw::RawConfig::refresh_rate")
        r.require(deep_strip(h.local_expr(0)) == ("field", ("param", 1), "refresh_rate"), "refresh-rate-passed-through", fn=h, detail="refresh_rate() returns the parsed field")


def run_cfg(ctx, p, cfg):
    feats = set(p.meta.get("features", []))
    from rules import serde_defaults
    serde_defaults.rule_missing_keys(ctx, p, cfg, "K9a", "config::raw::Root")       # a root without a level is at debug, without appenders has none
    serde_defaults.rule_missing_keys(ctx, p, cfg, "K9b", "config::raw::Logger")     # a logger is additive unless it says otherwise
    from rules import c15
    c15.rule_reloader_flow(ctx, p, cfg, "K10")     # "the refresh rate is honoured": every changed document is applied, whatever its modification time (C15.A5 re-evaluated)
    with ctx.rule("K1", "unknown keys rejected", cfg) as r:
        n = 0
        for adt in DENY:
            if adt not in p.adts:
                r.require(not feature_on(p, adt), "present:%s" % adt, detail="%s is compiled in this configuration" % adt)
                continue
            fa, vis = derived_parts(p, adt)
            if fa is None:
                r.fail("derive-shape:%s" % adt, detail="no derived __Field enum found for %s" % adt)
                continue
            names = [v["name"] for v in fa["variants"]]
            r.require("__ignore" not in names, "no-ignore-variant:%s" % adt, detail="__Field variants: %s" % names,
                      fail_detail="%s's derived field enum has an __ignore variant: unknown keys are silently accepted (deny_unknown_fields missing)" % adt)
            for m in ("visit_str", "visit_bytes"):
                fs = [f for f in vis if f.path.endswith("::" + m)]
                uk = [c for f in fs for c in f.calls("serde_core::de::Error::unknown_field")]
                r.require(len(fs) == 1 and len(uk) == 1, "unknown_field-reached:%s:%s" % (adt, m), detail="%s::%s calls de::Error::unknown_field on the fall-through" % (adt.rsplit("::", 1)[-1], m))
                if fs and uk:
                    f = fs[0]
                    rets = [e for b, e in q.ret_assignments(f) if b in f.reach(uk[0].block, include_src=True)]
                    r.require(all(q.classify_ret(e) == "err" for e in rets) and rets, "unknown-key-is-error:%s:%s" % (adt, m), fn=f, detail="the unknown key becomes Err(..)")
            n += 1
        r.floor("deny-unknown-structs", n, sum(1 for a in DENY if a in p.adts))
        if cfg == "default":
            r.floor("deny-unknown-structs-default-features", n, 14)

    with ctx.rule("K2", "defaults", cfg) as r:
        def ret_of(path):
            f = p.fn(path)
            return f, deep_strip(f.local_expr(0))
        f, e = ret_of("config::raw::logger_additive_default")
        r.require(e == ("const", "bool", True), "additive-default-true", fn=f, detail="logger_additive_default() = %s" % show(e))
        f, e = ret_of("config::raw::root_level_default")
        r.require(e[0] == "agg" and e[2] == "Debug" or e == ("const", "enum", "Debug"), "root-level-default-debug", fn=f, detail="root_level_default() = %s" % show(e))
        # the derived visitors use them on the missing-field path
        for fn_, adt in (("config::raw::logger_additive_default", "config::raw::Logger"), ("config::raw::root_level_default", "config::raw::Root")):
            users = [c.fn.path for c in p.all_calls(fn_)]
            r.require(any(("for %s>" % adt) in u and "visit_map" in u for u in users), "default-used-by-derive:%s" % fn_.rsplit("::", 1)[-1], detail="callers: %s" % [u[-60:] for u in users])
        # a document without a `root` section gets Root::default(): it has to agree with a `root` section that omits the level
        df = p.fn("<config::raw::Root as core::default::Default>::default")
        de = deep_strip(df.local_expr(0))
        lv = deep_strip(dict(de[3]).get("level", ("other",))) if de[0] == "agg" else ("other",)
        _, want = ret_of("config::raw::root_level_default")
        same = (lv[0] == "call" and lv[1] == "config::raw::root_level_default") or lv == want or (lv[0] == "agg" and want[0] == "agg" and lv[1:3] == want[1:3]) \
            or (lv[0] == "call" and lv[1] in p.fns and deep_strip(p.fn(lv[1]).local_expr(0)) == want)
        r.require(same, "absent-root-equals-level-less-root", fn=df, detail="Root::default().level = %s, serde default for a missing level = %s" % (show(lv), show(want)),
                  fail_detail="a configuration file without a `root` section gets level %s while one whose `root` section omits the level gets %s: the two defaults disagree" % (show(lv), show(want)))
        ap = deep_strip(dict(de[3]).get("appenders", ("other",))) if de[0] == "agg" else ("other",)
        r.require(ap[0] == "call" and (ap[1].endswith("Vec::<T>::new") or ap[1].endswith("Default::default") or "vec" in ap[1].lower()), "absent-root-has-no-appenders", fn=df, detail="Root::default().appenders = %s" % show(ap))
        if "onstartup_trigger" in feats:
            f, e = ret_of("append::rolling_file::policy::compound::trigger::onstartup::default_min_size")
            r.require(e == ("const", "int", 1), "min_size-default-1", fn=f, detail="default_min_size() = %s" % show(e))
        # builders
        def builder_fields(path):
            b = p.fn(path)
            e = b.local_expr(0)
            return b, ({n: deep_strip(v) for n, v in e[3]} if e[0] == "agg" else {})
        if "file_appender" in feats:
            b, fd = builder_fields("append::file::FileAppender::builder")
            r.require(fd.get("append") == ("const", "bool", True), "file-append-default-true", fn=b, detail="FileAppender::builder(): %s" % {k: show(v) for k, v in fd.items()})
            overridden_only_on_some(r, p, "<append::file::FileAppenderDeserializer as config::raw::Deserialize>::deserialize", "append::file::FileAppenderBuilder::append", "append", "file-append")
        if "rolling_file_appender" in feats:
            b, fd = builder_fields("append::rolling_file::RollingFileAppender::builder")
            r.require(fd.get("append") == ("const", "bool", True), "rolling-append-default-true", fn=b, detail="RollingFileAppender::builder(): %s" % {k: show(v) for k, v in fd.items()})
            overridden_only_on_some(r, p, "<append::rolling_file::RollingFileAppenderDeserializer as config::raw::Deserialize>::deserialize", "append::rolling_file::RollingFileAppenderBuilder::append", "append", "rolling-append")
        if "console_appender" in feats:
            b, fd = builder_fields("append::console::ConsoleAppender::builder")
            tv = fd.get("target")
            r.require(tv is not None and (tv == ("const", "enum", "Stdout") or (tv[0] == "agg" and tv[2] == "Stdout")) and fd.get("tty_only") == ("const", "bool", False), "console-defaults", fn=b,
                      detail="ConsoleAppender::builder(): %s" % {k: show(v) for k, v in fd.items()})
            overridden_only_on_some(r, p, "<append::console::ConsoleAppenderDeserializer as config::raw::Deserialize>::deserialize", "append::console::ConsoleAppenderBuilder::tty_only", "tty_only", "console-tty_only")
        if "fixed_window_roller" in feats:
            b, fd = builder_fields("append::rolling_file::policy::compound::roll::fixed_window::FixedWindowRoller::builder")
            r.require(fd.get("base") == ("const", "int", 0), "base-default-0", fn=b, detail="FixedWindowRoller::builder(): %s" % {k: show(v) for k, v in fd.items()})
            overridden_only_on_some(r, p, "<append::rolling_file::policy::compound::roll::fixed_window::FixedWindowRollerDeserializer as config::raw::Deserialize>::deserialize",
                                    "append::rolling_file::policy::compound::roll::fixed_window::FixedWindowRollerBuilder::base", "base", "roller-base")

    if "size_trigger" in feats or "time_trigger" in feats:
        from rules import c20
        c20.rule_integer_forms(ctx, p, cfg, "K2b")   # the same document in YAML/JSON (u64) and TOML (i64) gives the same limit
        c20.rule_size_table(ctx, p, cfg, "K2c")       # a degenerate size (unit scaling past u64) is rejected, not wrapped: unit table and checked multiplication (C20.L1/L2 re-evaluated)
        c20.rule_size_overflow(ctx, p, cfg, "K2d")
    if "time_trigger" in feats:
        from rules import c20 as c20_
        c20_.rule_interval_units(ctx, p, cfg, "K2e")   # a valid document is valid in any case of its unit names (C20.L5 re-evaluated)
    with ctx.rule("K3", "registry", cfg) as r:
        d = p.fn("<config::raw::Deserializers as core::default::Default>::default")
        ins = d.calls("config::raw::Deserializers::insert")
        got = {}
        for c in ins:
            k = deep_strip(c.arg(1))
            ty = c.t.get("generic_args", [None])[0]
            if k[0] == "const":
                got.setdefault(k[2], []).append(ty)
        impls = [i for i in p.impls if i.get("trait") == "config::raw::Deserialize"]
        tys = {i["self_ty"] for i in impls}
        for kind, (ty, tr) in REGISTRY.items():
            if ty not in tys:
                r.require(ty not in tys, "not-compiled:%s" % kind, detail="%s is not compiled in this configuration" % ty)
                continue
            r.require(got.get(kind) == [ty], "kind:%s" % kind, fn=d, detail="kind %r -> %s (expected %s)" % (kind, got.get(kind), ty))
            # the impl's Trait associated type: from the deserialize method's return type
            m = [mm for i in impls if i["self_ty"] == ty for mm in i["methods"] if mm.endswith("::deserialize")]
            sig = p.fn(m[0]).d.get("sig", "") if m else ""
            casts = [st["rv"]["to"] for b_, i_, st in p.fn(m[0]).assigns() if st["rv"]["k"] == "cast"] if m else []
            r.require("dyn %s" % tr in sig or any("dyn %s" % tr in c for c in casts), "trait:%s" % kind, detail="%s produces Box<dyn %s>" % (ty, tr))
        for ty in sorted(tys):
            n = sum(1 for k, v in got.items() for t in v if t == ty)
            r.require(n == 1, "registered-once:%s" % ty, fn=d, detail="%s inserted %d time(s) in Deserializers::default()" % (ty, n))
        r.require(set(got) <= set(REGISTRY), "no-undocumented-kinds", fn=d, detail="registered kinds: %s" % sorted(got))
        r.floor("registry-rows", len(got), len(tys))
        # unregistered kind -> Err
        g = p.fn("config::raw::Deserializers::deserialize")
        sw = None
        for blk in g.blocks:
            if blk["term"]["k"] == "switch" and blk["id"] in g.reachable_blocks():
                si = SwitchInfo(g, blk["id"])
                dd = strip(si.discr)
                if dd[0] == "discr" and any(x[0] == "call" and x[1].endswith("::get") for x in walk(dd)):
                    sw = si
        if sw is None:
            raise ShapeUnrecognised("Deserializers::deserialize does not match on the registry lookup")
        nt = sw.target_of("None")
        rets = [e for b, e in q.ret_assignments(g) if b in g.reach(nt, include_src=True) and b not in g.reach(sw.target_of("Some"), include_src=True)]
        r.require(bool(rets) and all(q.classify_ret(e) == "err" for e in rets), "unknown-kind-is-error", fn=g, detail="lookup miss returns Err")
        clo = [x for x in walk(sw.discr) if x[0] == "closure"]
        if clo:
            cf = p.fn(clo[0][1])
            gk = [c for c in cf.calls() if (c.callee or "").endswith("HashMap::<K, V, S, A>::get")]
            cc = common.closure_captures(p, cf)
            okk = bool(gk) and cc is not None and any(deep_strip(x) == ("param", 2) for x in cc[0])
            r.require(okk, "lookup-by-the-given-kind", fn=cf, detail="registry map is indexed with the kind argument")

    with ctx.rule("K4", "kind-tagged sections", cfg) as r:
        n = 0
        for adt, (missing, has_filters) in TAGGED.items():
            fs = [f for f in p.fns.values() if f.d.get("impl_self_adt") == adt and f.d.get("impl_trait") == "serde_core::de::Deserialize" and f.path.endswith("::deserialize")]
            if adt not in p.adts:
                continue
            if len(fs) != 1:
                r.fail("deserialize-impl:%s" % adt, detail="hand-written Deserialize for %s not found" % adt)
                continue
            f = fs[0]
            n += 1
            rm = [c for c in f.calls() if (c.callee or "").endswith("BTreeMap::<K, V, A>::remove")]
            keys = []
            for c in rm:
                ks = [x[2] for x in walk(c.arg(1)) if x[0] == "const" and x[1] == "str"]
                keys.append(ks[0] if ks else None)
            r.require(keys == (["kind", "filters"] if has_filters else ["kind"]), "removes:%s" % adt, fn=f, detail="keys removed from the section map: %s" % keys)
            # remainder passed on as Value::Map(map)
            aggs = [a for a in p.aggregates(adt) if a[0] is f]
            okm = False
            if aggs:
                e = f._rvalue(aggs[0][3], frozenset(), 30, aggs[0][1])
                cv = dict(e[3]).get("config")
                okm = cv is not None and cv[0] == "agg" and cv[2] == "Map" and any(x[0] == "call" and x[1] == "serde_core::de::Deserialize::deserialize" for x in walk(cv))
            r.require(okm, "remainder-passed-on:%s" % adt, fn=f, detail="config = Value::Map(the remaining map)")
            # missing kind
            ksw = None
            for blk in f.blocks:
                if blk["term"]["k"] == "switch" and blk["id"] in f.reachable_blocks():
                    si = SwitchInfo(f, blk["id"])
                    dd = strip(si.discr)
                    if dd[0] == "discr" and strip(dd[1])[0] == "call" and rm and len(strip(dd[1])) > 3 and strip(dd[1])[3] == rm[0].block:
                        ksw = si
            if ksw is None:
                r.fail("kind-match:%s" % adt, fn=f, detail="no match on map.remove(\"kind\")")
                continue
            nt = ksw.target_of("None")
            nreg = f.reach(nt, include_src=True) - f.reach(ksw.target_of("Some"), include_src=True)
            if missing == "error":
                mf = [c for c in f.calls("serde_core::de::Error::missing_field") if c.block in nreg]
                rets = [e for b, e in q.ret_assignments(f) if b in nreg]
                r.require(len(mf) == 1 and rets and all(q.classify_ret(e) == "err" for e in rets), "missing-kind-is-error:%s" % adt, fn=f, detail="a section without `kind` is rejected with missing_field")
            else:
                cs = set()
                for c in f.calls():
                    if c.block in nreg:
                        for a in c.arg_exprs():
                            cs |= {x[2] for x in walk(a) if x[0] == "const" and x[1] == "str"}
                r.require(missing in cs and not [c for c in f.calls("serde_core::de::Error::missing_field") if c.block in nreg], "missing-kind-defaults-to-%s:%s" % (missing, adt), fn=f,
                          detail="a section without `kind` uses %r (constants on that edge: %s)" % (missing, sorted(cs)))
        r.floor("tagged-sections", n, sum(1 for a in TAGGED if a in p.adts))
        if cfg == "default":
            r.floor("tagged-sections-default-features", n, 6)

    with ctx.rule("K5", "pipelines", cfg) as r:
        # (with Result::map_err/and_then over closures written out as matches: an error wrapped before it is matched is still matched)
        f = p.fn_results("config::raw::RawConfig::appenders_lossy")
        des = f.calls("config::raw::Deserializers::deserialize")
        r.require(len(des) == 2, "two-deserialize-sites", fn=f, detail="filter and appender deserialisation sites: %d" % len(des))
        nxt = [c.block for c in f.calls(NEXT)]
        rets = set(f.return_blocks())
        for c in des:
            rr = f.reach(c.block, avoid=set(nxt))
            r.require(not (rr & rets), "no-early-exit:%s" % common.role(c), fn=f, site=c.at, detail="after a (failed or successful) deserialisation every path continues with an iterator step")
            # Err arm pushes
            sw = None
            for blk in f.blocks:
                if blk["term"]["k"] == "switch" and blk["id"] in f.reachable_blocks():
                    si = SwitchInfo(f, blk["id"])
                    dd = strip(si.discr)
                    if dd[0] == "discr" and strip(dd[1])[0] == "call" and len(strip(dd[1])) > 3 and strip(dd[1])[3] == c.block:
                        sw = si
            if sw is None:
                r.fail("result-matched:%s" % common.role(c), fn=f, detail="result of deserialize is not matched")
                continue
            et, ot = sw.target_of("Err"), sw.target_of("Ok")
            ereg = f.reach(et, avoid=set(nxt), include_src=True) - f.reach(ot, avoid=set(nxt), include_src=True)
            ps = [x for x in f.calls("alloc::vec::Vec::<T, A>::push") if x.block in ereg and any(y[0] == "agg" and y[1] == "config::raw::DeserializingConfigError" for y in walk(x.arg(1)))]
            r.require(len(ps) == 1, "error-recorded:%s" % common.role(c), fn=f, detail="the Err arm pushes a DeserializingConfigError")
        # a failed filter does not drop its appender: the appender site is reachable from the filter's Err arm within the same outer iteration
        flt = [c for c in des if any("filter" in str(t) or "Filter" in str(t) for t in c.t.get("generic_args", []))]
        app = [c for c in des if c not in flt]
        if len(flt) == 1 and len(app) == 1:
            outer = [c for c in f.calls(NEXT) if f.dominates(c.block, app[0].block) and not f.dominates(app[0].block, c.block)]
            outer = sorted(outer, key=lambda c: sum(1 for o in outer if f.dominates(o.block, c.block)))[:1]
            ob = {outer[0].block} if outer else set()
            r.require(app[0].block in f.reach(flt[0].block, avoid=ob), "failed-filter-keeps-appender", fn=f, detail="the appender is still built after one of its filters failed")
        else:
            r.fail("filter-and-appender-sites", fn=f, detail="cannot tell the filter site from the appender site: %s" % [c.t.get("generic_args") for c in des])
        # lossy loader
        g = p.fn("config::file::deserialize")
        r.require(len(g.calls("config::runtime::ConfigBuilder::build_lossy")) == 1 and not g.calls("config::runtime::ConfigBuilder::build"), "file-loading-is-lossy", fn=g, detail="file::deserialize uses build_lossy")
        hs = [c for c in g.calls() if (c.callee or "").endswith("Errors::handle")]
        r.require(len(hs) == 2, "both-error-lists-reported", fn=g, detail="error lists handed to the error reporter: %d (appender errors, config errors)" % len(hs))
        r.require(len(g.calls("config::raw::RawConfig::appenders_lossy")) == 1 and len(g.calls("config::raw::RawConfig::loggers")) == 1 and len(g.calls("config::raw::RawConfig::root")) == 1, "uses-all-parts", fn=g,
                  detail="appenders, loggers and root of the raw config are all used")
        # strict path
        h = p.fn("config::create_raw_config")
        r.require(len(h.calls("config::runtime::ConfigBuilder::build")) == 1 and not h.calls("config::runtime::ConfigBuilder::build_lossy"), "raw-config-is-strict", fn=h, detail="create_raw_config uses strict build")
        ie = [c for c in h.calls() if (c.callee or "").endswith("AppenderErrors::is_empty")]
        okg = False
        for blk in h.blocks:
            if blk["term"]["k"] == "switch" and blk["id"] in h.reachable_blocks():
                si = SwitchInfo(h, blk["id"])
                dd = strip(si.discr, calls=set())
                neg = False
                while dd[0] == "un" and dd[1] == "Not":
                    neg = not neg
                    dd = strip(dd[2], calls=set())
                if dd[0] == "call" and dd[1].endswith("AppenderErrors::is_empty"):
                    bad_t = si.target_of(neg)        # is_empty == false
                    rr = h.reach(bad_t, include_src=True) - h.reach(si.target_of(not neg), include_src=True)
                    rets2 = [e for b, e in q.ret_assignments(h) if b in rr]
                    okg = bool(rets2) and all(q.classify_ret(e) == "err" for e in rets2)
        r.require(okg, "raw-config-fails-on-appender-errors", fn=h, detail="non-empty appender errors => Err")
        # ... and the list tested is the list appenders_lossy returned: nothing in between may empty it (handle() drains)
        muts = [c for c in h.calls() if any(str(t).startswith("&mut config::raw::AppenderErrors") for t in (c.t.get("arg_tys") or []))]
        r.require(not muts, "error-list-tested-as-returned", fn=h, site=(muts[0].at if muts else None), detail="no call in create_raw_config takes the appender error list mutably before it is tested",
                  fail_detail="create_raw_config hands the appender error list to %s by `&mut` (handle() drains it): the emptiness test that decides between Err and a logger no longer sees the errors" % (muts[0].callee if muts else ""))

    rule_filters_per_appender(ctx, p, cfg, "K5b")

    with ctx.rule("K6", "format table", cfg) as r:
        f = p.fn("config::file::Format::from_path")
        tests = tables.string_key_tests(f)
        sinks = {}
        for b, i, s in f.assigns():
            rv = s["rv"]
            if rv["k"] == "agg" and rv.get("adt") in ("config::file::Format", "config::file::FormatError"):
                sinks[b] = rv["variant"]
        tab = tables.key_table(f, tests, list(sinks))
        want = {"yaml": ("Yaml", "yaml_format", "YamlFeatureFlagRequired"), "yml": ("Yaml", "yaml_format", "YamlFeatureFlagRequired"),
                "json": ("Json", "json_format", "JsonFeatureFlagRequired"), "toml": ("Toml", "toml_format", "TomlFeatureFlagRequired")}
        for ext, (v, feat, err) in want.items():
            gotv = {sinks[s] for s in tab.get(ext, [])}
            exp = v if feat in feats else err
            r.require(gotv == {exp}, "ext:%s" % ext, fn=f, detail="extension %r -> %s (expected %s)" % (ext, sorted(gotv), exp))
        r.require(set(tab) == set(want), "no-other-extensions", fn=f, detail="extensions recognised: %s" % sorted(tab))
        rule_whole_document_parsers(r, p)

    rule_raw_to_runtime(ctx, p, cfg, "K7")
    rule_section_passed_whole(ctx, p, cfg, "K14")
    rule_filters_section_whole(ctx, p, cfg, "K16")
    from rules import accessors
    accessors.rule_fidelity(ctx, p, cfg, "K15")   # "agrees with the programmatic configuration": the builder methods the file path goes through (the plural setters) keep what they are given
    from rules import c13
    c13.rule_retention(ctx, p, cfg, "K12")   # what the lossy loader keeps of a partly broken document (C13.V2 re-evaluated)
    if "size_trigger" in feats:
        common.rule_config_reaches_component(ctx, p, cfg, "K13a", "SizeTriggerDeserializer", "SizeTrigger::new", stored={"limit": 1})
    if "time_trigger" in feats:
        common.rule_config_reaches_component(ctx, p, cfg, "K13b", "TimeTriggerDeserializer", "TimeTrigger::new", stored={"config": 1})
    if "onstartup_trigger" in feats:
        common.rule_config_reaches_component(ctx, p, cfg, "K13c", "OnStartUpTriggerDeserializer", "OnStartUpTrigger::new", stored={"min_size": 1})
    if "fixed_window_roller" in feats:
        rule_roller_window_from_document(ctx, p, cfg, "K13d")
    common.rule_visitor_entry_points(ctx, p, cfg, "K11", "config::raw::de_duration::", ("visit_str",), "refresh_rate")     # refresh_rate is a humantime string in every format: a bare number has no unit

    with ctx.rule("K8", "loading does not panic", cfg) as r:
        ents = ["config::file::load_config_file", "config::file::init_file", "config::create_raw_config", "config::raw::RawConfig::appenders_lossy"]
        for i in p.impls:
            if i.get("trait") == "config::raw::Deserialize":
                ents += [m for m in i["methods"] if m in p.fns]
        # builders/constructors run at load time belong to this cone; append/encode/trigger run-time behaviour does not
        cone = p.cone(ents, cut_traits=CUT, stop=("append::env_util::expand_env_vars", "ConfiguredLogger::add"))
        cone = {x for x in cone if x != "append::env_util::expand_env_vars"}
        # sites owned (and reported) by other properties' inventories: routing layer (C13.V4), pattern compiler (C11.P1), time trigger (C16.Q0), rotation (C08.E2)
        owned = _owned_elsewhere(p)
        mine = {x for x in cone if x not in owned}
        st = panics.check_cone(r, p, mine, "C14")
        ctx.extra.setdefault("panic_inventory", {})[cfg] = dict(st, cone=len(cone), owned_elsewhere=len(cone) - len(mine))
        r.floor("cone-size", len(cone), 30)
        r.ok("delegated", detail="%d functions of the loading cone are inventoried by C08/C11/C13/C16 (their panic sites, incl. the time trigger's known finding D5, are reported there)" % (len(cone) - len(mine)))


def _owned_elsewhere(p):
    out = set()
    try:
        from rules import c11, c13, c16, c08
        out |= c11.cone_of(p)
        out |= p.cone([c16.NEW], cut_traits=c16.CUT) if p.has_fn(c16.NEW) else set()
        out |= p.cone(["Logger::new", "Logger::new_with_err_handler", "config::init_config", "config::init_config_with_err_handler", "Handle::set_config"], cut_traits=c13.CUT)
        if p.has_fn(c08.rolling.APPEND):
            out |= c08.rotation_cone(p)
    except Exception:
        pass
    return out


def overridden_only_on_some(r, p, deser, setter, field, key):
    f = p.fn(deser)
    cs = f.calls(setter)
    r.require(len(cs) == 1, "%s-setter-site" % key, fn=f, detail="%s call sites: %d" % (setter.rsplit("::", 1)[-1], len(cs)))
    for c in cs:
        gate = []
        for sb, si, al in f.conditions(c.block):
            d = strip(si.discr)
            if d[0] == "discr" and any(x[0] == "field" and x[2] == field for x in walk(d)):
                gate.append({si.label(v) for v, _ in al})
        r.require(gate == [{"Some"}], "%s-overridden-only-when-given" % key, fn=f, site=c.at, detail="the default is replaced only if the config field is Some")
        a = c.arg(1)
        r.require(any(x[0] == "as" and x[2] == "Some" for x in walk(a)), "%s-uses-the-given-value" % key, fn=f, detail="setter argument %s" % show(a, 4))
        # the builder the setter returns is the builder that is built (a by-value setter on a Copy builder can be called and its
        # result dropped without a warning)
        bname = setter.rsplit("::", 1)[0] + "::build"
        builds = f.calls(bname)
        kept = any(x[0] == "call" and x[1] == setter and len(x) > 3 and x[3] == c.block for b_ in builds for x in walk(b_.arg(0)))
        r.require(bool(builds) and kept, "%s-setter-result-is-built" % key, fn=f, site=c.at, detail="build() is called on what %s returned" % setter.rsplit("::", 1)[-1],
                  fail_detail="%s(..) is called but build() runs on a builder that never went through it: the configured `%s` is dropped and the default is used" % (setter.rsplit("::", 1)[-1], field))


ROLLER_DESER = "<append::rolling_file::policy::compound::roll::fixed_window::FixedWindowRollerDeserializer as config::raw::Deserialize>::deserialize"
ROLLER_BASE = "append::rolling_file::policy::compound::roll::fixed_window::FixedWindowRollerBuilder::base"


def rule_roller_window_from_document(ctx, p, cfg, rid):
    """A fixed-window roller built from a document has the window the document states: `base` when given reaches the builder that
    is built, pattern and count are the configured ones."""
    with ctx.rule(rid, "the configured window reaches the roller", cfg) as r:
        overridden_only_on_some(r, p, ROLLER_DESER, ROLLER_BASE, "base", "roller-base")
        f = p.fn(ROLLER_DESER)
        for b_ in f.calls(ROLLER_BASE.rsplit("::", 1)[0] + "::build"):
            a1, a2 = deep_strip(b_.arg(1)), deep_strip(b_.arg(2))
            r.require(a1 == ("field", ("param", 2), "pattern") and a2 == ("field", ("param", 2), "count"), "pattern-and-count-as-configured", fn=f, site=b_.at,
                      detail="build(config.pattern, config.count): %s, %s" % (show(a1, 3), show(a2, 3)))
