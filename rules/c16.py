"""C16 — time trigger schedules the right boundary, fires once per boundary, never panics."""
from l4sa import q, panics
from l4sa.core import AnchorMissing, ShapeUnrecognised, SwitchInfo, strip, deep_strip, walk, show, calls_in, cmp_nf
from rules import rolling, common

CLAIMED = True
TECHNIQUE = "static analysis over type-checked MIR: panic/abort-site inventory of the trigger's cone (chrono LocalResult::unwrap, TimeDelta constructors, DateTime arithmetic, overflow/remainder asserts) with exhaustiveness discharge; comparison normal form; guard-span and edge-conditioned reschedule; per-variant schedule table (truncation constants, unit constructor, modulation operand); random-delay guard"
LEVEL_TEXT = """Static decision of the no-panic, ordering and schedule-shape clauses (the calendar arithmetic's numeric results are NOT claimed): (Q0) panic inventory over the cone of TimeTrigger::new / get_next_time / Trigger::trigger — today it reports the known finding D5 (LocalResult::unwrap on ambiguous/non-existent local times, `% n` with unguarded n, unchecked calendar arithmetic, out-of-range chrono Duration constructors), each site keyed individually so that any new site is still reported; the trailing panic! is discharged by exhaustiveness of the variant tests; (Q1) is_pre_process is const true, the appender rolls before writing (C05.R2 premises) and CompoundPolicy::process rolls whenever the trigger answers true (no second guard); (Q2) trigger returns now >= next in comparison normal form; (Q3) comparison and reschedule happen under one RwLock::write guard, the reschedule only on the true edge, its value coming from a fresh TimeTrigger::new(self.config); (Q4) per interval variant: the truncation passes constant 0 (or 1 for day/month) exactly for the finer components, the added Duration constructor matches the unit, and with modulate the increment is n - x % n with x from the matching accessor, else n; (Q5) gen_range(0..d) only on the d > 0 edge and the delay is added in seconds to the computed time. (Q8, Q8s) with config_parsing: an interval written as a bare number - u64, i64 or a string without a unit - is Second(that number) (C20.L8/L3 re-evaluated). (Q9) interval unit table (C20.L5 re-evaluated)."""
LEVEL_NOTE = "Trusted: rustc MIR/callee resolution; chrono accessor/constructor semantics; std RwLock; rand. The numeric correctness of the boundary (is this the right local instant) and DST behaviour beyond 'does not panic' are not decided."
EXPLANATION = """Decided: Q0 panic inventory (known finding D5 reported per site), Q1 pre-processing, Q2 comparator, Q3 atomic reschedule, Q4 schedule shape table, Q5 random-delay guard. Undecided: that the resulting instant is the right local boundary (numeric), DST behaviour beyond no-panic."""
DECIDED = ["Q0 (known finding D5)", "Q1", "Q2", "Q3", "Q4", "Q5", "Q6 the configuration reaches the trigger unchanged", "Q7 missing keys: no modulation, no random delay"]
UNDECIDED = ["calendar arithmetic results", "DST semantics beyond no-panic"]
TRUSTED = ["rustc nightly MIR + Instance::try_resolve", "chrono", "std::sync::RwLock", "rand", "external may-panic contract table"]

TT = "append::rolling_file::policy::compound::trigger::time::TimeTrigger"
NEW = TT + "::new"
TRIG = "<%s as append::rolling_file::policy::compound::trigger::Trigger>::trigger" % TT
IS_PRE = "<%s as append::rolling_file::policy::compound::trigger::Trigger>::is_pre_process" % TT
INTERVAL = "append::rolling_file::policy::compound::trigger::time::TimeTriggerInterval"
YMD = "chrono::offset::TimeZone::with_ymd_and_hms"
CUT = ("encode::Encode", "append::Append", "filter::Filter", "std::io::Write", "encode::Write")
ACC = {"chrono::traits::Datelike::year": "year", "chrono::traits::Datelike::month": "month", "chrono::traits::Datelike::day": "day",
       "chrono::traits::Timelike::hour": "hour", "chrono::traits::Timelike::minute": "minute", "chrono::traits::Timelike::second": "second",
       "chrono::traits::Datelike::month0": "month0", "chrono::traits::Datelike::ordinal0": "ordinal0", "chrono::naive::isoweek::IsoWeek::week0": "week0"}
WANT = {
    "Year":   {"trunc": ["*", 1, 1, 0, 0, 0], "dur": [], "x": "year"},
    "Month":  {"trunc": ["*", "*", 1, 0, 0, 0], "dur": [], "x": "month0"},
    "Week":   {"trunc": ["year", "month", "day", 0, 0, 0], "dur": ["weeks", "days"], "x": "week0"},
    "Day":    {"trunc": ["year", "month", "day", 0, 0, 0], "dur": ["days"], "x": "ordinal0"},
    "Hour":   {"trunc": ["year", "month", "day", "hour", 0, 0], "dur": ["hours"], "x": "hour"},
    "Minute": {"trunc": ["year", "month", "day", "hour", "minute", 0], "dur": ["minutes"], "x": "minute"},
    "Second": {"trunc": ["year", "month", "day", "hour", "minute", "second"], "dur": ["seconds"], "x": "second"},
}


def next_time_fn(p):
    """role: the function called by TimeTrigger::new that returns the DateTime and switches on the interval"""
    n = p.fn(NEW)
    c = [x for x in n.calls() if x.callee in p.fns and any("TimeTriggerInterval" in t for t in x.t.get("arg_tys", []))]
    if len(c) != 1:
        raise AnchorMissing("expected one schedule computation call in TimeTrigger::new, found %s" % [x.callee for x in c])
    return p.fn(c[0].callee), c[0]


def run(ctx):
    configs = ["default"] if ctx.tier == "quick" else ["default", "release", "full", "single:rolling_file_appender,compound_policy,time_trigger"]
    for cfg in configs:
        run_cfg(ctx, ctx.prog(cfg), cfg)


def run_cfg(ctx, p, cfg):
    if "config_parsing" in p.meta.get("features", []):
        from rules import serde_defaults
        common.rule_config_reaches_component(ctx, p, cfg, "Q6", "TimeTriggerDeserializer", "TimeTrigger::new", stored={"config": 1})
        serde_defaults.rule_missing_keys(ctx, p, cfg, "Q7", "trigger::time::TimeTriggerConfig")     # no modulation and no random delay unless asked for
        from rules import c20
        c20.rule_interval_units(ctx, p, cfg, "Q9")      # the unit the schedule is computed for is the unit written (C20.L5 re-evaluated)
        c20.rule_interval_number(ctx, p, cfg, "Q8")     # the schedule is computed from the interval the file asks for: a bare number is seconds, not a coarser unit (C20.L8/L3 re-evaluated)
    with ctx.rule("Q0", "panic inventory", cfg) as r:
        cone = p.cone([NEW, TRIG], cut_traits=CUT)
        st = panics.check_cone(r, p, cone, "C16")
        ctx.extra.setdefault("panic_inventory", {})[cfg] = dict(st, cone=len(cone))
        r.floor("cone-size", len(cone), 3)
        r.floor("sites", st["sites"], 20)

    with ctx.rule("Q1", "fires before the write", cfg) as r:
        f = p.fn(IS_PRE)
        e = f.local_expr(0)
        r.require(e == ("const", "bool", True), "time-trigger-is-pre-processing", fn=f, detail="is_pre_process returns %s" % show(e))
    rolling.rule_branch_order(ctx, p, cfg, "Q1b")
    if "compound_policy" in p.meta.get("features", []):
        rolling.rule_policy_order(ctx, p, cfg, "Q1c")   # a fired trigger always leads to the rotation

    with ctx.rule("Q2", "fires at or after the instant", cfg) as r:
        f = p.fn(TRIG)
        rets = q.ret_assignments(f)
        okrets = [(b, e) for b, e in rets if q.classify_ret(e) == "ok"]
        now = lambda e: any(x[0] == "call" and x[1] in ("chrono::offset::local::Local::now",) for x in walk(e))
        nxt = lambda e: any(x[0] == "call" and x[1].endswith("RwLock::<T>::write") for x in walk(e))
        nf = None
        payload = None
        if len(okrets) == 1:
            # Ok(now >= next)
            payload = dict(okrets[0][1][3]).get("0") if okrets[0][1][0] == "agg" else None
            nf = cmp_nf(payload) if payload else None
            r.ok("single-ok-return", fn=f, detail="one Ok return carrying the comparison")
        else:
            # `if now < next { return Ok(false) } ...; Ok(true)`: the condition under which Ok(true) is returned
            consts = {}
            for b, e in okrets:
                pl = deep_strip(dict(e[3]).get("0")) if e[0] == "agg" else None
                if pl and pl[0] == "const" and pl[1] == "bool":
                    consts.setdefault(pl[2], []).append(b)
            shape = len(okrets) == 2 and set(consts) == {True, False} and len(rets) == len(okrets)
            r.require(shape, "single-ok-return", fn=f, detail="Ok returns: %s" % [show(e, 3) for b, e in okrets])
            if shape:
                tb, fb = consts[True][0], consts[False][0]
                ct = [(sb, si, {si.label(v) for v, _ in al}) for sb, si, al in f.conditions(tb) if cmp_nf(si.discr, True) is not None]
                cf = [(sb, si, {si.label(v) for v, _ in al}) for sb, si, al in f.conditions(fb) if cmp_nf(si.discr, True) is not None]
                if len(ct) == 1 and len(cf) == 1 and ct[0][0] == cf[0][0] and ct[0][2] in ({True}, {False}) and cf[0][2] == {not list(ct[0][2])[0]}:
                    nf = cmp_nf(ct[0][1].discr, list(ct[0][2])[0])
        ok = False
        if nf:
            op, a, b = nf
            ok = op == "Le" and nxt(a) and now(b)
        r.require(ok, "now-ge-next", fn=f, detail="Ok(true) is returned exactly when next <= now: %s" % (show(("cmp",) + nf, 6) if nf else (show(payload, 5) if payload else None)))

    with ctx.rule("Q3", "once per boundary", cfg) as r:
        f = p.fn(TRIG)
        wl = [c for c in f.calls() if (c.callee or "").endswith("RwLock::<T>::write")]
        r.require(len(wl) == 1, "one-write-lock", fn=f, detail="RwLock::write sites: %d" % len(wl))
        if len(wl) == 1:
            span = q.GuardSpan(f, wl[0])
            cmpb = [c for c in f.calls() if (c.callee or "").startswith("core::cmp::PartialOrd::")]
            for c in cmpb:
                r.require(span.covers(c.block), "compare-under-lock", fn=f, site=c.at, detail="the comparison runs while the write guard is held")
            r.require(bool(cmpb), "has-comparison", fn=f, detail="comparison call present")
            # reschedule: assignment through the guard
            stores = []
            for b, i, s in f.assigns():
                if s["lhs"]["p"] and "chrono::datetime::DateTime<chrono::offset::local::Local>" == s.get("lhs_ty"):
                    stores.append((b, f._rvalue(s["rv"], frozenset(), 30, b)))
            r.require(len(stores) == 1, "one-reschedule", fn=f, detail="assignments to the scheduled instant: %d" % len(stores))
            for b, v in stores:
                r.require(span.covers(b), "reschedule-under-same-lock", fn=f, detail="the new instant is stored while the same guard is held")
                gate = []
                for sb, si, al in f.conditions(b):
                    labs = {si.label(x) for x, _ in al}
                    if cmp_nf(si.discr, True) is not None and labs in ({True}, {False}):
                        nfl = cmp_nf(si.discr, True in labs)
                        gate.append(nfl is not None and nfl[0] == "Le" and any(x[0] == "call" and x[1].endswith("RwLock::<T>::write") for x in walk(nfl[1]))
                                    and any(x[0] == "call" and x[1] == "chrono::offset::local::Local::now" for x in walk(nfl[2])))
                r.require(gate == [True], "reschedule-only-when-fired", fn=f, detail="the store is control-dependent on next <= now (the edge on which the trigger fires)")
                g_, _site = next_time_fn(p)
                fresh = any(x[0] == "call" and x[1] == NEW for x in walk(v)) or any(
                    x[0] == "call" and x[1] == g_.path and x[2] and any(y[0] == "call" and y[1] == "chrono::offset::local::Local::now" for y in walk(x[2][0]))
                    and not any(y[0] == "call" and "RwLock" in y[1] for y in walk(x[2][0])) for x in walk(v))
                r.require(fresh, "from-a-fresh-schedule", fn=f, detail="the stored instant is computed from a fresh reading of the clock (TimeTrigger::new or the schedule function applied to Local::now()): %s" % show(v, 6))
                news = [x for x in walk(v) if x[0] == "call" and x[1] == NEW]
                if news:
                    r.require(deep_strip(news[0][2][0])[0] == "field" and deep_strip(news[0][2][0])[1] == ("param", 1), "with-own-config", fn=f, detail="TimeTrigger::new(self.config)")
            # the schedule that follows a rotation is computed from the trigger's own configuration, not from an altered copy
            # (a copy with modulate/interval changed moves every later boundary off the configured grid)
            cfg_adt = "append::rolling_file::policy::compound::trigger::time::TimeTriggerConfig"
            rebuilt = [(b, i) for b, i, s in f.assigns() if s["rv"]["k"] == "agg" and s["rv"].get("adt") == cfg_adt]
            r.require(not rebuilt, "rescheduled-with-own-config", fn=f, detail="no TimeTriggerConfig is constructed while rescheduling",
                      fail_detail="Trigger::trigger builds a TimeTriggerConfig of its own (bb%s) to compute the next rotation: the reschedule no longer follows the configured interval/modulate/delay" % [b for b, i in rebuilt])
            r.require(all(rb in span.after_release for rb in f.return_blocks()), "guard-released", fn=f, detail="the guard is dropped before returning")

    with ctx.rule("Q4", "schedule shape", cfg) as r:
        g, _ = next_time_fn(p)
        interval_param = [i for i in range(1, g.nargs + 1) if g.locals[i] == INTERVAL]
        mod_param = [i for i in range(1, g.nargs + 1) if g.locals[i] == "bool"]
        cur_param = [i for i in range(1, g.nargs + 1) if "DateTime" in g.locals[i]]
        if not (len(interval_param) == len(mod_param) == len(cur_param) == 1):
            raise ShapeUnrecognised("cannot bind the schedule function's parameters by type")
        IP, MP, CP = interval_param[0], mod_param[0], cur_param[0]
        arms = {}
        for blk in g.blocks:
            if blk["term"]["k"] == "switch" and blk["id"] in g.reachable_blocks():
                si = SwitchInfo(g, blk["id"])
                d = strip(si.discr)
                if d[0] == "discr" and deep_strip(d[1]) == ("param", IP):
                    for lab, t in si.labelled_edges():
                        if isinstance(lab, str) and lab in WANT:
                            oth = [t2 for l2, t2 in si.labelled_edges() if t2 != t]
                            region = g.reach(t, include_src=True)
                            for o in oth:
                                region = region - g.reach(o, include_src=True)
                            arms[lab] = region
        r.require(set(arms) == set(WANT), "seven-variant-arms", fn=g, detail="variant arms found: %s" % sorted(arms))
        table = {}
        for v, region in sorted(arms.items()):
            want = WANT[v]
            ymd = [c for c in g.calls(YMD) if c.block in region]
            if not r.require(len(ymd) == 1, "%s:one-truncation" % v, fn=g, detail="with_ymd_and_hms sites in the %s arm: %d" % (v, len(ymd))):
                continue
            comps = []
            for a in ymd[0].arg_exprs()[1:7]:
                a = deep_strip(a)
                if a[0] == "const" and a[1] == "int":
                    comps.append(a[2])
                elif a[0] == "call" and a[1] in ACC and deep_strip(a[2][0]) == ("param", CP):
                    comps.append(ACC[a[1]])
                else:
                    comps.append("*")
            table[v] = {"trunc": comps}
            r.require(comps == want["trunc"], "%s:truncation" % v, fn=g, site=ymd[0].at, detail="with_ymd_and_hms components %s (expected %s)" % (comps, want["trunc"]))
            durs = [c.callee.rsplit("::", 1)[-1] for c in g.calls() if c.block in region and (c.callee or "").startswith("chrono::time_delta::TimeDelta::")]
            table[v]["dur"] = durs
            r.require(durs == want["dur"], "%s:unit-constructor" % v, fn=g, detail="Duration constructors %s (expected %s)" % (durs, want["dur"]))
            # modulation
            n_expr = ("field", ("as", ("param", IP), v), "0")
            incs = []
            for b, i, s in g.assigns():
                if b in region and s["rv"]["k"] == "use" and not s["lhs"]["p"]:
                    pass
            # the increment variable: a local with two root definitions inside the arm, one per modulate edge
            found = False
            for l in range(len(g.locals)):
                ds = [(b, e) for b, e in g.root_defs(l) if b in region] if any(d[1] in region for d in g.defs(l)) else []
                if len(ds) != 2:
                    continue
                pol = {}
                for b, e in ds:
                    gate = [(si, al) for sb, si, al in g.conditions(b) if deep_strip(si.discr) == ("param", MP)]
                    if len(gate) == 1:
                        labs = {gate[0][0].label(x) for x, _ in gate[0][1]}
                        if len(labs) == 1:
                            pol[labs.pop()] = deep_strip(e)
                if set(pol) != {True, False}:
                    continue
                found = True
                plain = _strip_cast(pol[False])
                okp = plain == n_expr
                m = _strip_cast(pol[True])
                okm = False
                xname = None
                if m[0] == "bin" and m[1] == "Sub" and _strip_cast(m[2]) == n_expr:
                    rem = _strip_cast(m[3])
                    if rem[0] == "bin" and rem[1] == "Rem" and _strip_cast(rem[3]) == n_expr:
                        xs = [ACC[x[1]] for x in walk(rem[2]) if x[0] == "call" and x[1] in ACC]
                        xname = xs[0] if xs else None
                        okm = xname == want["x"]
                table[v]["modulated"] = show(pol[True], 5)
                r.require(okp, "%s:unmodulated-increment-is-n" % v, fn=g, detail="without modulate: %s" % show(pol[False], 4))
                r.require(okm, "%s:modulated-increment" % v, fn=g, detail="with modulate: %s (expected n - %s %% n)" % (show(pol[True], 5), want["x"]))
                break
            r.require(found, "%s:increment-found" % v, fn=g, detail="a two-way (modulate) increment exists in the arm")
        ctx.extra["schedule_table"] = table

    with ctx.rule("Q5", "random delay", cfg) as r:
        n = p.fn(NEW)
        gr = n.calls("rand::rng::Rng::gen_range")
        r.require(len(gr) == 1, "one-gen_range", fn=n, detail="gen_range sites: %d" % len(gr))
        for c in gr:
            gate = []
            rng0 = [x for x in walk(c.arg(1)) if x[0] == "agg" and x[1].endswith("::Range")]
            end0 = deep_strip(dict(rng0[0][3])["end"]) if rng0 else None
            for sb, si, al in n.conditions(c.block):
                # `if max > 0 { .. }` and `match max { 0 => .., m => .. }` alike: the edge on which the bound is not zero
                ze = q.zero_edges(si, end0) if end0 is not None else None
                if ze is not None:
                    gate.append(({True} if {t_ for _, t_ in al} == {ze[1]} else {False}, end0))
            r.require(len(gate) == 1 and gate[0][0] == {True}, "only-when-delay-positive", fn=n, site=c.at, detail="gen_range is control-dependent on max_random_delay being non-zero (> 0)")
            rng = [x for x in walk(c.arg(1)) if x[0] == "agg" and x[1].endswith("::Range")]
            okr = bool(rng) and deep_strip(dict(rng[0][3])["start"]) == ("const", "int", 0) and gate and deep_strip(dict(rng[0][3])["end"]) == gate[0][1]
            r.require(okr, "range-0-to-max", fn=n, site=c.at, detail="range %s" % (show(rng[0], 4) if rng else None))
        g, site = next_time_fn(p)
        # the stored schedule is next_time (+ seconds(delay))
        aggs = [a for a in p.aggregates(TT) if a[0] is n]
        if aggs:
            e = n._rvalue(aggs[0][3], frozenset(), 30, aggs[0][1])
            nv = [v for nm, v in e[3] if any(x[0] == "call" and x[1].endswith("RwLock::<T>::new") for x in walk(v))]
            okv = bool(nv) and any(x[0] == "call" and x[1] == g.path for x in walk(nv[0]))
            r.require(okv, "schedule-stored", fn=n, detail="next_roll_time = RwLock::new(next_time [+ delay])")
            adds = [c for c in n.calls("core::ops::arith::Add::add")]
            secs = [c for c in n.calls("chrono::time_delta::TimeDelta::seconds")]
            r.require(len(adds) == 1 and len(secs) == 1 and any(x[0] == "call" and x[1] == "rand::rng::Rng::gen_range" for x in walk(secs[0].arg(0))) and
                      any(x[0] == "call" and x[1] == g.path for x in walk(adds[0].arg(0))), "delay-added-in-seconds", fn=n, detail="next_time + Duration::seconds(random_delay)")
        else:
            r.fail("trigger-aggregate", fn=n, detail="TimeTrigger aggregate not found in new()")
        # schedule computed from the current instant
        cur = site.arg(0)
        r.require(any(x[0] == "call" and x[1] == "chrono::offset::local::Local::now" for x in walk(cur)), "from-now", fn=n, site=site.at, detail="schedule computed from Local::now()")


def _strip_cast(e):
    e = deep_strip(e)
    while e[0] == "cast":
        e = deep_strip(e[2])
    if e[0] == "bin":
        return ("bin", e[1], _strip_cast(e[2]), _strip_cast(e[3]))
    return e
