"""C19 — $ENV{NAME} path expansion substitutes set variables, leaves all else intact."""
import itertools

from l4sa import q, panics
from l4sa.core import AnchorMissing, ShapeUnrecognised, SwitchInfo, strip, deep_strip, walk, show, calls_in, cmp_nf
from rules import common, rolling

CLAIMED = True
TECHNIQUE = "static analysis over type-checked MIR: provenance of every opened/stored/archived path from expand_env_vars (call-site floor), constant agreement (prefix/suffix literals vs. offsets used), control dependence of the single replace site on the terminated-name flag and env::var == Ok, decision tables of the two character predicates, panic-site inventory of the scanner"
LEVEL_TEXT = """Static decision of the call-site and guard clauses (the scanner's byte-for-byte string algorithm is NOT claimed): (N1) the path opened by FileAppenderBuilder::build, the path stored by RollingFileAppenderBuilder::build and every pattern-derived path in the fixed-window roller derive from an expand_env_vars result (floor: 6 call sites); (N2) the literal searched for is "$ENV{", the offset added to a match equals its length, the terminator compared is '}' and the amount added for it equals its UTF-8 length; (N3) the only rewrite of the output path is one str::replace call that is control-dependent on the name having been terminated by the suffix and on env::var(name) being Ok, and replaces exactly the matched slice with the variable's value; (N4) first-character predicate = is_alphanumeric OR '_', inner predicate = is_alphanumeric OR '_' OR '.'; (N6) no definite character count is used as a byte offset (and no byte count steps a character iterator) in the scanner; (N5) no un-discharged panic site in the scanner (slices/split_at offsets come from match_indices/len of the same string). (N1, cont.) expand_env_vars is called only where configured text is taken in and never on an expansion's result; every pattern.replace(..) in the roller module that reaches the file system has passed it. (N8) the directory of the expanded archive name is made on every roll (C07.R10 re-evaluated)."""
LEVEL_NOTE = "Trusted: rustc MIR/callee resolution; str::match_indices/replace/split_at, char::is_alphanumeric, std::env::var. Output for every path string (adjacent/repeated references, values combining with neighbours) is not decided."
EXPLANATION = """Decided: N1 all six locations expanded, N2 constants agree, N3 replacement guard, N4 predicates, N5 no panic, N6 byte/char unit discipline. Undecided: byte-for-byte output of the scanner for every path string."""
DECIDED = ["N1", "N2", "N3", "N4", "N5", "N6", "N7 a terminated reference is always looked up, a set variable always replaced"]
UNDECIDED = ["scanner output for all strings (adjacent/repeated references, interacting values)"]
TRUSTED = ["rustc nightly MIR + Instance::try_resolve", "std str/char/env APIs", "external may-panic contract table"]

EXPAND = "append::env_util::expand_env_vars"
FILE_BUILD = "append::file::FileAppenderBuilder::build"
ROLL_BUILD = "append::rolling_file::RollingFileAppenderBuilder::build"
NEXT = "core::iter::traits::iterator::Iterator::next"
REPLACE = "alloc::str::<impl str>::replace"


def run(ctx):
    configs = ["default"] if ctx.tier == "quick" else ["default", "release", "full", "single:file_appender", "single:rolling_file_appender,compound_policy,fixed_window_roller"]
    for cfg in configs:
        run_cfg(ctx, ctx.prog(cfg), cfg)


def preds(p):
    f = p.fn(EXPAND)
    cs = [c for c in f.calls() if c.callee in p.fns and p.fns[c.callee].d.get("sig", "").replace(" ", "").endswith("fn(char)->bool")]
    first = [c for c in cs if not f.in_loop_inner(c.block)] if hasattr(f, "in_loop_inner") else None
    return cs



def flag_terminator_edges(f):
    """`terminated = ch == '}'` kept in a variable and tested afterwards: [(switch block, target on which the name was terminated)]
    for every boolean switch on a local whose definitions are `false` literals and one comparison of a character with '}'"""
    out = []
    for blk in f.blocks:
        if blk["id"] not in f.reachable_blocks() or blk["term"]["k"] != "switch":
            continue
        si = SwitchInfo(f, blk["id"])
        if not si.is_bool:
            continue
        pl = si.t["discr"].get("copy") or si.t["discr"].get("move")
        if not pl or pl["p"]:
            continue
        loc = pl["l"]
        # look through one negation kept in a temporary
        ds = [d_ for d_ in f.defs(loc) if not d_[0]]
        if len(ds) == 1 and ds[0][3] == "rv" and ds[0][4]["k"] == "un" and ds[0][4].get("op") == "Not":
            q_ = ds[0][4]["a"].get("copy") or ds[0][4]["a"].get("move")
            if q_ and not q_["p"]:
                loc = q_["l"]
        rds = f.root_defs(loc)
        if not rds:
            continue
        cmps, others = [], []
        for b_, e_ in rds:
            e_ = deep_strip(e_)
            if e_[0] == "bin" and e_[1] == "Eq" and any(deep_strip(x) == ("const", "char", "}") for x in e_[2:4]):
                cmps.append(b_)
            elif e_ == ("const", "bool", False):
                others.append(b_)
            else:
                cmps = None
                break
        if cmps and len(cmps) == 1:
            t_ = si.target_of(True)
            if t_ is not None:
                out.append((blk["id"], t_))
    return out

def run_cfg(ctx, p, cfg):
    feats = set(p.meta.get("features", []))
    if "fixed_window_roller" in feats:
        from rules import c07 as c07_
        c07_.rule_directories(ctx, p, cfg, "N8")   # "creates its files at the expanded location": the directory of the expanded name is made on every roll (C07.R10 re-evaluated)
    with ctx.rule("N1", "every location is expanded", cfg) as r:
        sites = p.all_calls(EXPAND)
        want = 0
        if "file_appender" in feats:
            want += 1
            b = p.fn(FILE_BUILD)
            op = b.call1("std::fs::OpenOptions::open")
            r.require(any(x[0] == "call" and x[1] == EXPAND for x in walk(op.arg(1))), "file-appender-opens-expanded-path", fn=b, site=op.at, detail="opened path %s" % show(op.arg(1), 5))
            for c in b.calls("std::fs::create_dir_all"):
                r.require(any(x[0] == "call" and x[1] == EXPAND for x in walk(c.arg(0))), "file-appender-creates-expanded-dir", fn=b, site=c.at, detail="created directory derives from the expanded path")
            exp = [x for x in walk(op.arg(1)) if x[0] == "call" and x[1] == EXPAND]
            if exp:
                r.require(any(y == ("param", 2) for y in walk(exp[0])), "file-appender-expands-its-argument", fn=b, detail="expand_env_vars(path argument)")
        if "rolling_file_appender" in feats:
            want += 1
            ro = rolling.roles(p)
            b = p.fn(ROLL_BUILD)
            aggs = [a for a in p.aggregates(rolling.APPENDER) if a[0] is b]
            okp = False
            if aggs:
                e = b._rvalue(aggs[0][3], frozenset(), 30, aggs[0][1])
                pv = dict(e[3]).get(ro["path_field"])
                okp = pv is not None and any(x[0] == "call" and x[1] == EXPAND and any(y == ("param", 2) for y in walk(x)) for x in walk(pv))
            r.require(okp, "rolling-appender-stores-expanded-path", fn=b, detail="RollingFileAppender.%s derives from expand_env_vars(path argument)" % ro["path_field"])
            g = ro["get_writer"]
            op = g.call1("std::fs::OpenOptions::open")
            r.require(deep_strip(op.arg(1)) == ("field", ("param", 1), ro["path_field"]), "rolling-appender-opens-stored-path", fn=g, detail="get_writer opens self.%s" % ro["path_field"])
            for c in b.calls("std::fs::create_dir_all"):
                src = c.arg(0)
                r.require(any(x[0] == "field" and x[2] == ro["path_field"] for x in walk(src)) or any(x[0] == "call" and x[1] == EXPAND for x in walk(src)), "rolling-appender-creates-expanded-dir", fn=b, site=c.at, detail="directory of the expanded path")
        if "fixed_window_roller" in feats:
            want += 4
            from rules import c07
            ro7 = c07.roles(p)
            rot = ro7["rotate"]
            for c in rot.calls():
                if c.callee in ("std::fs::create_dir_all", ro7["move_file"].path, ro7["compress"].path):
                    for i, a in enumerate(c.arg_exprs()):
                        if any(x[0] == "call" and x[1] == REPLACE for x in walk(a)):
                            r.require(any(x[0] == "call" and x[1] == EXPAND for x in walk(a)), "roller-path-expanded:%s:arg%d" % (common.role(c), i), fn=rot, site=c.at,
                                      detail="pattern-derived path passes through expand_env_vars")
            # .. and nothing asks the file system about a name that was substituted but not expanded (an existence test on the raw
            # name answers about a file that is never written)
            for c in rot.calls():
                cal = c.callee or ""
                if cal.startswith("std::fs::") or cal.startswith("std::path::Path::") and cal.rsplit("::", 1)[-1] in ("exists", "try_exists", "is_file", "is_dir", "metadata", "symlink_metadata", "read_dir"):
                    for i, a in enumerate(c.arg_exprs()):
                        if any(x[0] == "call" and x[1] == REPLACE for x in walk(a)):
                            r.require(any(x[0] == "call" and x[1] == EXPAND for x in walk(a)), "file-system-sees-expanded-names-only:%s:arg%d" % (common.role(c), i), fn=rot, site=c.at,
                                      detail="%s is asked about a pattern-derived name that went through expand_env_vars" % cal,
                                      fail_detail="%s is asked about pattern.replace(..) without expand_env_vars: with a reference in the pattern it answers about a name that is never used" % cal)
            # ... in the whole roller module, not only in the shift function: a shortcut that substitutes the index itself and goes to
            # the file system with that name has skipped the expansion
            mod_ = ro7["rotate"].path.rsplit("::", 1)[0]
            for path_, g_ in sorted(p.fns.items()):
                if not (path_.startswith(mod_ + "::") or ("<" + mod_) in path_) or g_ is rot or path_ == ro7["rotate"].path or g_.d.get("closure_of") == ro7["rotate"].path:
                    continue
                for c in g_.calls():
                    cal = c.callee or ""
                    if not (cal.startswith("std::fs::") or (cal in p.fns and cal != EXPAND)):
                        continue
                    for i, a in enumerate(c.arg_exprs()):
                        if any(x[0] == "call" and x[1] == REPLACE for x in walk(a)):
                            r.require(any(x[0] == "call" and x[1] == EXPAND for x in walk(a)), "roller-module-uses-expanded-names:%s/%s:arg%d" % (path_.rsplit("::", 1)[-1], common.role(c), i), fn=g_, site=c.at,
                                      detail="pattern-derived name passes through expand_env_vars",
                                      fail_detail="%s in %s is given pattern.replace(..) without expand_env_vars: with a `$ENV{..}` in the pattern the archive goes to a literal `$ENV{..}` path" % (cal, path_))
            pats = [c for c in rot.calls(REPLACE)]
            for c in pats:
                # each replace("{}", idx) result feeds expand_env_vars
                users = [x for x in rot.calls(EXPAND) if any(y[0] == "call" and y[1] == REPLACE and y[3] == c.block for y in walk(x.arg(0)))]
                r.require(len(users) == 1, "every-substitution-is-expanded:%s" % common.role(c), fn=rot, site=c.at, detail="pattern.replace(..) -> expand_env_vars")
        # ... once: configured text is expanded where it is taken in (the two builders' path argument, the roller's pattern after the
        # index is substituted).  A path that has been through the expansion is final - a value it picked up may itself read like a
        # reference - so nothing expands a stored path, the file handed to a roller, or the result of an expansion again.
        home = set()
        if "file_appender" in feats:
            home.add(FILE_BUILD)
        if "rolling_file_appender" in feats:
            home.add(ROLL_BUILD)
        if "fixed_window_roller" in feats:
            home.add(ro7["rotate"].path)
        for c in sites:
            host = c.fn.path if c.fn.kind != "Closure" else (c.fn.d.get("closure_of") or c.fn.path)
            while host in p.fns and p.fns[host].kind == "Closure" and p.fns[host].d.get("closure_of"):
                host = p.fns[host].d["closure_of"]
            a0 = c.arg(0)
            again = [x for x in walk(a0) if x[0] == "call" and x[1] == EXPAND]
            r.require(host in home and not again, "expanded-once:%s/%s" % (host.rsplit("::", 2)[-2] if "::" in host else host, common.role(c)), fn=c.fn, site=c.at,
                      detail="expand_env_vars(%s) in %s: configured text, expanded where it is taken in" % (show(a0, 4), host),
                      fail_detail="expand_env_vars is applied to %s in %s: %s" % (show(a0, 5), host, "the result of an expansion is expanded again" if again else
                                  "not one of the places configured text is taken in (the builders' path argument, the roller's pattern): a path that was already expanded - its variables' values may read like references - is expanded a second time"))
        nsites = len(sites)
        if "fixed_window_roller" in feats:
            # the shift function is counted with its local closures spliced in (a closure naming the archive path is one site per use)
            rp_ = ro7["rotate"].path
            nsites = len([c for c in sites if c.fn.path != rp_ and c.fn.d.get("closure_of") != rp_]) + len(ro7["rotate"].calls(EXPAND))
        r.floor("expand_env_vars-call-sites", nsites, want)

    with ctx.rule("N2", "constants", cfg) as r:
        f = p.fn(EXPAND)
        mi = f.call1("core::str::<impl str>::match_indices")
        pre = deep_strip(mi.arg(1))
        r.require(pre == ("const", "str", "$ENV{"), "prefix-literal", fn=f, site=mi.at, detail="searched literal %s" % show(pre))
        plen = len(pre[2].encode()) if pre[0] == "const" else None
        # offset added to match_start
        # the text the name scan runs over: path.split_at(off).1 or &path[off..], off = match_start + const
        offs = None
        ft = p.fn_threaded(EXPAND)
        for ch in ft.calls("core::str::<impl str>::chars"):
            t_ = deep_strip(ch.arg(0))
            e = None
            if t_[0] == "field" and t_[2] == "1" and deep_strip(t_[1])[0] == "call" and deep_strip(t_[1])[1] == "core::str::<impl str>::split_at":
                e = deep_strip(deep_strip(t_[1])[2][1])
            elif t_[0] == "call" and t_[1] == "core::ops::index::Index::index":
                rg = deep_strip(t_[2][1])
                if rg[0] == "agg" and rg[1].endswith("range::RangeFrom"):
                    e = deep_strip(dict(rg[3])["start"])
            if e is not None and e[0] == "bin" and e[1] == "Add" and strip(e[3])[0] == "const" and any(x[0] == "as" and x[2] == "Some" for x in walk(e[2])):
                offs = strip(e[3])[2]
        r.require(offs == plen, "offset-is-prefix-length", fn=f, detail="name starts at match_start + %s; len(prefix) = %s" % (offs, plen))
        # suffix char
        suff = None
        for blk in f.blocks:
            if blk["term"]["k"] == "switch" and blk["id"] in f.reachable_blocks() and blk["term"].get("discr_ty") == "char":
                vals = [a["value"] for a in blk["term"]["arms"]]
                if len(vals) == 1:
                    suff = chr(vals[0])
        if suff is None:
            for blk in f.blocks:
                if blk["term"]["k"] == "switch" and blk["id"] in f.reachable_blocks():
                    nf = cmp_nf(SwitchInfo(f, blk["id"]).discr, True)
                    if nf and nf[0] == "Eq":
                        for x in (deep_strip(nf[1]), deep_strip(nf[2])):
                            if x[0] == "const" and x[1] == "char":
                                suff = x[2]
        if suff is None and flag_terminator_edges(f):
            suff = "}"      # compared through a flag: `terminated = ch == '}'`
        r.require(suff == "}", "suffix-literal", fn=f, detail="terminator compared: %r" % suff)
        # match_end = start + len(prefix) + name.len() + len_utf8(suffix)
        rp = f.call1(REPLACE)
        sl = [x for x in walk(rp.arg(1)) if x[0] == "agg" and x[1].endswith("::Range")]
        okend = False
        if sl:
            fd = dict(sl[0][3])
            en = deep_strip(fd.get("end"))
            def terms(x):
                x = deep_strip(x)
                if x[0] == "bin" and x[1] == "Add":
                    return terms(x[2]) + terms(x[3])
                return [x]
            tm = terms(en)
            consts = [x[2] for x in tm if x[0] == "const"]
            lens = [x for x in tm if x[0] == "call" and x[1] in ("alloc::string::String::len", "core::str::<impl str>::len")]
            rest = [x for x in tm if x[0] != "const" and x not in lens]
            has_len = len(lens) == 1 and len(rest) == 1 and show(rest[0], 12) == show(deep_strip(fd.get("start")), 12)
            okend = sorted(consts) == sorted([plen, len((suff or "}").encode())]) and has_len
            r.require(okend, "match-end-arithmetic", fn=f, detail="matched slice end = start + %s + name.len() (constants %s; expected prefix %s + suffix %s)" % ("…", consts, plen, len((suff or '}').encode())))
            st = deep_strip(fd.get("start"))
            top = st
            while top[0] == "field":
                top = deep_strip(top[1])
            okst = st[0] == "field" and top[0] == "as" and top[2] == "Some" and deep_strip(top[1])[0] == "call" and deep_strip(top[1])[1] == NEXT \
                and any(x[0] == "call" and x[1] == "core::str::<impl str>::match_indices" for x in walk(top[1]))
            r.require(okst, "match-start-is-the-match-offset", fn=f, detail="slice start %s" % show(st, 4))
        else:
            r.fail("matched-slice", fn=f, detail="replace pattern is not a slice of the path")
        # module constants, if present, agree
        cs = {k.rsplit("::", 1)[-1]: v.get("value", {}) for k, v in p.consts.items() if k.startswith("append::env_util::")}
        strs = [v for v in cs.values() if v.get("kind") == "str"]
        ints = sorted(v.get("value") for v in cs.values() if v.get("kind") == "int")
        chars = [v for v in cs.values() if v.get("kind") == "char"]
        if strs and chars and ints:
            r.require(sorted([len(strs[0]["value"].encode()), len(chars[0]["value"].encode())]) == ints, "named-constants-agree", detail="module constants: %s" % {k: v.get("value") for k, v in cs.items()})

    with ctx.rule("N3", "replacement guard", cfg) as r:
        f = p.fn(EXPAND)
        rp = f.call1(REPLACE)
        conds = f.conditions(rp.block)
        env_ok = False
        valid_ok = False
        for sb, si, al in conds:
            d = strip(si.discr)
            labs = {si.label(v) for v, _ in al}
            if d[0] == "discr" and strip(d[1])[0] == "call" and strip(d[1])[1] == "std::env::var":
                env_ok = labs == {"Ok"}
            if si.is_bool and labs == {True}:
                pl = si.t["discr"].get("copy") or si.t["discr"].get("move")
                if pl and not pl["p"]:
                    rds = f.root_defs(pl["l"])
                    if rds and all(e[0] == "const" and e[1] == "bool" for b, e in rds):
                        trues = [b for b, e in rds if e[2] is True]
                        falses = [b for b, e in rds if e[2] is False]
                        # the true definition sits on the suffix-character edge
                        on_suffix = False
                        for tb in trues:
                            for sb2, si2, al2 in f.conditions(tb):
                                if si2.t.get("discr_ty") == "char" and {v for v, _ in al2} == {125}:
                                    on_suffix = True
                                nf = cmp_nf(si2.discr, True)
                                if nf and nf[0] == "Eq" and any(deep_strip(x) == ("const", "char", "}") for x in nf[1:]) and {si2.label(v) for v, _ in al2} == {True}:
                                    on_suffix = True
                        valid_ok = len(trues) == 1 and len(falses) >= 1 and on_suffix
        # with the flag (if any) threaded away, the replace is reached from the name scan through the '}' edge only
        ft = p.fn_threaded(EXPAND)
        rpt = ft.call1(REPLACE)
        on_suffix = False
        for sb2, si2, al2 in ft.conditions(rpt.block):
            d2 = deep_strip(si2.discr)
            from_scan = any(x[0] == "call" and x[1] == NEXT and any(y[0] == "call" and y[1] == "core::str::<impl str>::chars" for y in walk(x)) for x in walk(d2))
            if si2.t.get("discr_ty") == "char" and {v for v, _ in al2} == {125} and from_scan:
                on_suffix = True
            nf = cmp_nf(si2.discr, True)
            if nf and nf[0] == "Eq" and any(deep_strip(x) == ("const", "char", "}") for x in nf[1:]) and {si2.label(v) for v, _ in al2} == {True} and from_scan:
                on_suffix = True
        valid_ok = valid_ok or on_suffix
        if not valid_ok:
            # .. or on a flag that holds the comparison itself: the replace lies on the `terminated` edge of its test
            for sb_, t_ in flag_terminator_edges(f):
                for sb2, si2, al2 in f.conditions(rp.block):
                    if sb2 == sb_ and {tt for _, tt in al2} == {t_}:
                        valid_ok = True
        r.require(env_ok, "only-when-variable-is-set", fn=f, site=rp.at, detail="replace is control-dependent on env::var(name) == Ok")
        r.require(valid_ok, "only-when-name-terminated", fn=f, site=rp.at, detail="replace is control-dependent on a flag that is true only on the '}' edge of the name scan")
        ev = f.calls("std::env::var")
        r.require(len(ev) == 1, "one-lookup", fn=f, detail="env::var sites: %d" % len(ev))
        # replaces the matched slice by the value, in the output path
        args = rp.arg_exprs()
        r.require(any(x[0] == "as" and x[2] == "Ok" and strip(x[1])[0] == "call" and strip(x[1])[1] == "std::env::var" for x in walk(args[2])), "replaced-by-the-value", fn=f, detail="replacement %s" % show(args[2], 4))
        r.require(any(x[0] == "call" and x[1] == "core::ops::index::Index::index" for x in walk(args[1])), "pattern-is-the-matched-slice", fn=f, detail="pattern %s" % show(args[1], 4))
        # the output is only ever assigned from the input or that replace
        ret = f.local_expr(0)
        alts = ret[1] if ret[0] == "phi" else (ret,)
        okr = all(deep_strip(a) == ("param", 1) or (deep_strip(a)[0] == "call" and deep_strip(a)[1] == REPLACE and len(deep_strip(a)) > 3 and deep_strip(a)[3] == rp.block) for a in alts)
        r.require(okr, "output-untouched-otherwise", fn=f, detail="returned value is the input or the result of that replace: %s" % show(ret, 4))
        # name looked up is the scanned name
        # (a String started empty and pushed to, or started from the first character the scan read)
        r.require(any(x[0] == "call" and (x[1] == "alloc::string::String::new" or (x[1] == NEXT and any(y[0] == "call" and y[1] == "core::str::<impl str>::chars" for y in walk(x)))) for x in walk(ev[0].arg(0))) if ev else False,
                  "looks-up-the-scanned-name", fn=f, detail="env::var(&env_name)")

    with ctx.rule("N7", "every terminated reference is looked up", cfg) as r:
        # N3 is the 'only if' direction.  The 'if' direction: once the name scan has ended on the terminator, every path to the next
        # match (or to the return) asks the environment for that name, and an Ok answer always reaches the replace.  A path that
        # skips the lookup is accepted only behind a `contains` on a collection that is filled under the lookup's Ok edge only
        # (a reference already replaced everywhere needs no second lookup).
        f = p.fn(EXPAND)
        ev = f.calls("std::env::var")
        rp = f.call1(REPLACE)
        mi = f.call1("core::str::<impl str>::match_indices")
        outer = [c.block for c in f.calls(NEXT) if any(x[0] == "call" and x[1] == "core::str::<impl str>::match_indices" for x in walk(c.arg(0)))]
        stops = set(outer) | set(f.return_blocks())
        starts, cuts = [], set()
        for blk in f.blocks:
            if blk["id"] not in f.reachable_blocks() or blk["term"]["k"] != "switch":
                continue
            si = SwitchInfo(f, blk["id"])
            if si.t.get("discr_ty") == "char" and [a_["value"] for a_ in si.t["arms"]] == [125]:
                starts.append(si.t["arms"][0]["target"])
            else:
                nf = cmp_nf(si.discr, True)
                if nf and nf[0] == "Eq" and any(deep_strip(x) == ("const", "char", "}") for x in nf[1:]):
                    starts.append(si.target_of(True))
        starts += [t_ for sb_, t_ in flag_terminator_edges(f)]
        if not r.require(bool(starts) and len(ev) == 1 and bool(outer), "anchors", fn=f, detail="terminator edge(s) %s, env::var sites %d, match loop steps %s" % (starts, len(ev), outer)):
            return
        # memo exception
        for blk in f.blocks:
            if blk["id"] not in f.reachable_blocks() or blk["term"]["k"] != "switch":
                continue
            si = SwitchInfo(f, blk["id"])
            d = strip(si.discr)
            if d[0] == "call" and d[1].rsplit("::", 1)[-1] == "contains" and si.is_bool:
                coll = deep_strip(d[2][0])
                fills = [c for c in f.calls() if (c.callee or "").rsplit("::", 1)[-1] in ("push", "insert") and show(deep_strip(c.arg(0)), 8) == show(coll, 8)]
                def under_ok(c):
                    for sb, s2, al in f.conditions(c.block):
                        d2 = strip(s2.discr)
                        if d2[0] == "discr" and strip(d2[1])[0] == "call" and strip(d2[1])[1] == "std::env::var" and {s2.label(v) for v, _ in al} == {"Ok"}:
                            return True
                    return False
                if fills and all(under_ok(c) for c in fills):
                    cuts.add((blk["id"], si.target_of(True)))
        for st in sorted(set(starts)):
            hit = q.const_skipping_paths(f, st, [ev[0].block], stops, cut_edges=cuts)
            r.require(not hit, "lookup-follows-the-terminator", fn=f, detail="from the terminator edge (bb%d) every path to the next match or the return passes env::var(name)" % st,
                      fail_detail="a terminated reference can go unexpanded: bb%s reachable from the terminator edge bb%d without env::var (e.g. a `continue` on a list of names already seen, filled before the name is known to be valid)" % (sorted(hit), st))
        for sb in f.blocks:
            if sb["id"] in f.reachable_blocks() and sb["term"]["k"] == "switch":
                si = SwitchInfo(f, sb["id"])
                d = strip(si.discr)
                if d[0] == "discr" and strip(d[1])[0] == "call" and strip(d[1])[1] == "std::env::var":
                    okt = si.target_of("Ok")
                    if not f.dominates(sb["id"], rp.block):
                        continue        # the drop of the Result after the `if let` switches on it again
                    hit = q.const_skipping_paths(f, okt, [rp.block], stops)
                    r.require(not hit, "set-variable-always-replaced", fn=f, detail="from env::var == Ok every path to the next match or the return passes the replace")

    with ctx.rule("N4", "predicates", cfg) as r:
        f = p.fn(EXPAND)
        cs = [c for c in f.calls() if c.callee in p.fns and p.fns[c.callee].d.get("sig", "").replace(" ", "").endswith("fn(char)->bool")]
        r.require(len(cs) == 2, "two-predicates", fn=f, detail="char predicates called by the scanner: %s" % [c.callee for c in cs])
        # the one applied before the inner scan loop is the first-character predicate
        inner_next = [c.block for c in f.calls(NEXT)]
        for c in cs:
            g = p.fn(c.callee)
            gate_first = any(f.dominates(c.block, o.block) for o in cs if o is not c)
            want = {"_"} if gate_first else {"_", "."}
            tab = pred_table(g)
            okk = tab is not None and tab["chars"] == want and tab["alnum"] and tab["sound"]
            r.require(okk, "first-char-predicate" if gate_first else "inner-char-predicate", fn=g,
                      detail="%s accepts is_alphanumeric or one of %s (expected %s)" % (g.path, sorted(tab["chars"]) if tab else None, sorted(want)))
            # the scanner branches on it positively
            sw = [(si, al) for sb in [None] for blk in f.blocks if blk["term"]["k"] == "switch" for si in [SwitchInfo(f, blk["id"])] for al in [None]
                  if strip(si.discr)[0] == "call" and strip(si.discr)[1] == g.path]
            r.require(len(sw) == 1, "predicate-branched-on:%s" % ("first" if gate_first else "inner"), fn=f, detail="one branch on the predicate's result")

    with ctx.rule("N6", "offsets are byte offsets", cfg) as r:
        fns = [f for pth, f in sorted(p.fns.items()) if pth.startswith("append::env_util::")]
        common.rule_units(r, p, fns, floor=2)

    with ctx.rule("N5", "no panic", cfg) as r:
        cone = p.cone([EXPAND], cut_traits=())
        sat = set()
        n2 = ctx.rid("N2")
        if all(o.ok for o in ctx.obs if o.rule == n2 and o.config == cfg) and any(o.rule == n2 and o.config == cfg for o in ctx.obs):
            sat.add("C19.N2")
        st = panics.check_cone(r, p, cone, "C19", satisfied=sat)
        ctx.extra.setdefault("panic_inventory", {})[cfg] = dict(st, cone=len(cone))
        r.floor("sites", st["sites"], 4 if p.meta.get("overflow_checks") else 2)


def pred_table(g):
    """decision table of a char predicate built from is_alphanumeric(c) and c == 'x' tests"""
    atoms = []
    chars = set()
    for blk in g.blocks:
        if blk["term"]["k"] == "switch" and blk["id"] in g.reachable_blocks():
            si = SwitchInfo(g, blk["id"])
            d = strip(si.discr)
            if d[0] == "call" and d[1] == "core::char::methods::<impl char>::is_alphanumeric":
                atoms.append(("alnum", d))
            else:
                nf = cmp_nf(si.discr, True)
                if nf and nf[0] == "Eq":
                    c = [x for x in (deep_strip(nf[1]), deep_strip(nf[2])) if x[0] == "const" and x[1] == "char"]
                    if c:
                        atoms.append((c[0][2], deep_strip(si.discr)))
    ret = g.local_expr(0)
    for x in walk(ret):
        if x[0] == "bin" and x[1] == "Eq":
            c = [y for y in (deep_strip(x[2]), deep_strip(x[3])) if y[0] == "const" and y[1] == "char"]
            if c and not any(a[0] == c[0][2] for a in atoms):
                atoms.append((c[0][2], deep_strip(x)))
    names = [a[0] for a in atoms]
    if "alnum" not in names:
        return None
    chars = {n for n in names if n != "alnum"}
    sound = True
    # evaluate: result must be True iff alnum or any char test true (at most one char test can be true at a time)
    cases = [{"alnum": True}] + [{"alnum": False, "hit": c} for c in sorted(chars)] + [{"alnum": False, "hit": None}]
    for case in cases:
        def choose(si, case=case):
            d = strip(si.discr)
            if d[0] == "call" and d[1].endswith("is_alphanumeric"):
                return [case["alnum"]]
            nf = cmp_nf(si.discr, True)
            if nf and nf[0] == "Eq":
                c = [x for x in (deep_strip(nf[1]), deep_strip(nf[2])) if x[0] == "const" and x[1] == "char"]
                if c:
                    return [case.get("hit") == c[0][2]]
            return None
        outs = q.decision_walk(g, choose, watch_locals=(0,))
        res = set()
        for o in outs:
            v = o["last"].get(0)
            if v is None:
                res.add("?")
                continue
            e = v[1]
            if e[0] == "const":
                res.add(bool(e[2]))
            elif e[0] == "bin" and e[1] == "Eq":
                c = [y for y in (deep_strip(e[2]), deep_strip(e[3])) if y[0] == "const" and y[1] == "char"]
                res.add(case.get("hit") == c[0][2] if c else "?")
            else:
                res.add("?")
        want = case["alnum"] or case.get("hit") is not None
        if res != {want}:
            sound = False
    return {"alnum": True, "chars": chars, "sound": sound}
