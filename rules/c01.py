"""C01 — routing delivers each record to exactly the appenders of its logger chain."""
from l4sa import q
from l4sa.core import AnchorMissing, ShapeUnrecognised, SwitchInfo, strip, deep_strip, walk, show, calls_in, cmp_nf
from rules import anchors, common, c13

CLAIMED = True
TECHNIQUE = "static analysis over type-checked MIR: cross-check of separator constants between insertion, lookup and name validation; dominance of an ascending sort over the insertion loop; control dependence of the additive extension; aggregate field provenance for inheritance; loop-edge analysis of the longest-prefix walk; comparison normal form; single indexed delivery site; same-vector provenance of the index table"
LEVEL_TEXT = """Static, all-paths decision of the structural clauses of the routing tree (the tree algorithm's exactness for every configuration and target is NOT claimed): (R11) the configuration accessors, builder setters and build() functions through which routing reads names, levels, additivity and appender lists return/store exactly the same-named field (C13.V7 re-evaluated); (R1) one separator constant in add/find, slice offset = len(SEP), and the name check uses SEP's character and length; (R2) the insertion loop iterates a vector on which an ascending sort by name length (or name) dominates the loop; (R3) the new node's appender list is extended with the parent's only on the additive==true edge; (R4) the leaf takes level/appenders from the parameters, the implied intermediate takes the parent's level and a clone of its appenders, chosen by rest.is_empty(); (R5) in find the only back edge is on the children.get(part)==Some arm which rebinds the node, None leaves the loop, the result is the last bound node; (R6) enabled is threshold >= level; (R7) exactly one indexed delivery site inside the loop over the node's own appender list, gated by enabled(record.level()); (R8) the name->index map is built from enumerate() over the same vector that becomes the appender table via into_iter() with no reordering in between; (R9) an existing child is never replaced: insert only on the get_mut==None edge, the Some edge recurses and returns; (R10) both recursive add calls forward rest/appenders/additive/level unchanged. (R15) with config_parsing: RawConfig::loggers hands every logger's name, level, appender list and additivity to the builder unconditionally (C14.K7 re-evaluated). (R16) set_config publishes the installed logger's maximum (C02.T3 re-evaluated); (R17) one snapshot per call, also through callees (C15.A1); (R18) build_lossy keeps items as given (C13.V9). (R19) the node looked up is the one for the record's own target (C02.T1 re-evaluated). (R20) each attachment delivers unless the appender's own filters reject (C03.F1 re-evaluated)."""
LEVEL_NOTE = "Trusted: rustc MIR/callee resolution; HashMap/str::find/split/sort_by_key semantics. Decides shape clauses on all paths of four functions; a shape-preserving semantic change inside the map keying (e.g. lower-casing a component) is not detected."
EXPLANATION = """Decided: R1 separator agreement, R2 ancestors first, R3 additive polarity, R4 inheritance shape, R5 longest-prefix walk, R6 threshold comparator, R7 fan-out, R8 index-table agreement, R9 no replacement of existing nodes, R10 recursion forwards its arguments. Undecided: exactness of the tree algorithm for every configuration and target (recursion, HashMap semantics, empty components, stray colons)."""
DECIDED = ["R1", "R2", "R3", "R4", "R5", "R6", "R7", "R8", "R9", "R10", "R11 config accessors/setters/build are faithful", "R12 a failing appender does not cost later attachments their delivery (C03.F3 re-evaluated)", "R13 every declared logger is inserted (no path through add() skips both the insertion and the recursion)", "R14 the published maximum ranges over every node of the tree (C02.T2 re-evaluated)"]
UNDECIDED = ["exact routing for all configurations/targets"]
TRUSTED = ["rustc nightly MIR + Instance::try_resolve", "std HashMap / str / slice::sort semantics"]

NEXT = "core::iter::traits::iterator::Iterator::next"
HM_GET = "std::collections::hash::map::HashMap::<K, V, S, A>::get"
HM_GET_MUT = "std::collections::hash::map::HashMap::<K, V, S, A>::get_mut"
HM_INSERT = "std::collections::hash::map::HashMap::<K, V, S, A>::insert"


def run(ctx):
    configs = ["default"] if ctx.tier == "quick" else ["default", "release", "full", "single:console_appender"]
    for cfg in configs:
        run_cfg(ctx, ctx.prog(cfg), cfg)


def node_fields(p, ro):
    node = p.adt(ro["node_adt"])
    fs = node["variants"][0]["fields"]
    lvl = [f["name"] for f in fs if f["ty"] == "log::LevelFilter"]
    apps = [f["name"] for f in fs if f["ty"].startswith("alloc::vec::Vec<usize")]
    kids = [f["name"] for f in fs if ro["node_adt"] in f["ty"] and "HashMap" in f["ty"]]
    if not (len(lvl) == len(apps) == len(kids) == 1):
        raise AnchorMissing("routing node: expected one level, one Vec<usize> and one children map field")
    return lvl[0], apps[0], kids[0]


def add_params(p, ro):
    """parameter positions of add by type/role: path(&str), appenders(Vec<usize>), additive(bool), level(LevelFilter)"""
    a = ro["add"]
    pos = {}
    for i in range(1, a.nargs + 1):
        t = a.locals[i]
        if t == "&str":
            pos["path"] = i
        elif t.startswith("alloc::vec::Vec<usize"):
            pos["appenders"] = i
        elif t == "bool":
            pos["additive"] = i
        elif t == "log::LevelFilter":
            pos["level"] = i
    if len(pos) != 4:
        raise ShapeUnrecognised("cannot bind add()'s parameters by type: %s" % a.locals[1:a.nargs + 1])
    return pos


def rest_expr_is(e, pos):
    """e is (a phi of) '' and a slice of the path parameter starting after the separator"""
    e = deep_strip(e)
    # `let (head, rest) = path.split_once(SEP).unwrap_or((path, ""))`: second component of that pair
    if e[0] == "field" and e[2] == "1":
        t = deep_strip(e[1])
        if t[0] == "call" and t[1].endswith("Option::<T>::unwrap_or") and len(t[2]) == 2:
            so, dflt = deep_strip(t[2][0]), deep_strip(t[2][1])
            if so[0] == "call" and so[1] == "core::str::<impl str>::split_once" and deep_strip(so[2][0]) == ("param", pos["path"]) \
                    and dflt[0] == "tuple" and len(dflt[1]) == 2 and deep_strip(dflt[1][0]) == ("param", pos["path"]) and deep_strip(dflt[1][1]) == ("const", "str", ""):
                return True
        # a (head, rest) pair built on two edges and projected afterwards
        if t[0] == "phi" and all(deep_strip(x)[0] == "tuple" and len(deep_strip(x)[1]) == 2 for x in t[1]):
            return rest_expr_is(("phi", tuple(deep_strip(x)[1][1] for x in t[1])), pos)
    alts = e[1] if e[0] == "phi" else (e,)
    okc, oks = False, False
    for a in alts:
        a = deep_strip(a)
        if a == ("const", "str", ""):
            okc = True
        elif a[0] == "call" and a[1] == "core::ops::index::Index::index" and deep_strip(a[2][0]) == ("param", pos["path"]) and any(x[0] == "agg" and x[1].endswith("RangeFrom") for x in walk(a)):
            oks = True
        elif a[0] == "field" and a[2] == "1" and _is_split_once_pair(deep_strip(a[1]), pos):
            oks = True      # `Some((head, tail)) => (head, tail)`: the tail split_once found
        else:
            return False
    return okc and oks


def _is_split_once_pair(t, pos):
    """the (head, tail) pair inside `path.split_once(SEP)`'s Some"""
    if t[0] == "field" and t[2] == "0":
        t = deep_strip(t[1])
    if t[0] == "as" and t[2] == "Some":
        c = deep_strip(t[1])
        return c[0] == "call" and c[1] == "core::str::<impl str>::split_once" and deep_strip(c[2][0]) == ("param", pos["path"])
    return False


def rule_add_total(ctx, p, cfg, rid="R13"):
    """Every declared logger ends up in the tree: in the insertion function no path returns without either recursing
    into an existing child or inserting a node (no early exit that drops a declaration)."""
    with ctx.rule(rid, "every declaration is inserted", cfg) as r:
        ro = anchors.routing(p)
        a = ro["add"]
        rec = [c.block for c in a.calls(a.path)]
        ins = [c.block for c in a.calls() if (c.callee or "").rsplit("::", 1)[-1] == "insert" and "HashMap" in (c.callee or "")]
        r.require(bool(ins), "has-insertion", fn=a, detail="children.insert sites: %d" % len(ins))
        via_self = [b for b in rec if not any(a.can_reach(x, b) and x != b for x in ins)]
        must = set(ins) | set(rec)
        bad = [rb for rb in a.return_blocks() if rb in a.reach(0, avoid=must, include_src=True)]
        r.require(not bad, "no-path-skips-insertion", fn=a, detail="every path to return passes the insertion or the recursion into an existing child",
                  fail_detail="a path through %s returns without inserting the logger and without descending (%s): that declaration is silently dropped — its targets resolve to an ancestor" % (
                      a.path, [q.path_between(a, 0, rb, avoid=list(must)) for rb in bad][:1]))


def rule_ancestors_first(ctx, p, cfg, rid="R2"):
    """the tree is built parents first from a total, ascending order of the names, and each logger is inserted with exactly its own
    name, level, additivity and every appender it names"""
    with ctx.rule(rid, "ancestors first", cfg) as r:
        ro = anchors.routing(p)
        sn = ro["shared_new"]
        site = ro["add_site"]
        nx = [c for c in sn.calls(NEXT) if sn.in_loop(c.block) and sn.dominates(c.block, site.block) and sn.can_reach(site.block, c.block)]
        if len(nx) > 1:
            # a loop nested in the body (resolving the names, spelled as a loop) also steps before the insertion: the loop that
            # feeds the insertion its logger is the outermost one
            nx = [n for n in nx if all(sn.dominates(n.block, m.block) for m in nx)]
        if len(nx) != 1:
            raise ShapeUnrecognised("insertion loop iterator not found")
        it = nx[0].arg(0)
        srcs = [x for x in walk(it) if x[0] == "call" and x[1] == "core::iter::traits::collect::IntoIterator::into_iter"]
        vec = deep_strip(srcs[0][2][0]) if srcs else None
        sorts = [c for c in sn.calls() if "sort" in (c.callee or "").rsplit("::", 1)[-1]]
        r.require(len(sorts) == 1, "one-sort", fn=sn, detail="sort calls: %s" % [c.callee for c in sorts])
        bad_iter = [x[1].rsplit("::", 1)[-1] for x in walk(it) if x[0] == "call" and x[1].rsplit("::", 1)[-1] in ("rev", "skip", "filter", "take", "step_by")]
        r.require(not bad_iter, "forward-complete-iteration", fn=sn, detail="iterator adaptors on the sorted vector: %s" % bad_iter)
        for c in sorts:
            r.require(sn.dominates(c.block, nx[0].block) and not sn.in_loop(c.block), "sort-dominates-loop", fn=sn, site=c.at, detail="the sort dominates the insertion loop")
            r.require(vec is not None and deep_strip(c.arg(0)) == vec, "sorts-the-iterated-vector", fn=sn, site=c.at, detail="sorted %s, iterated %s" % (show(deep_strip(c.arg(0)), 4), show(vec, 4) if vec else None))
            nm = c.callee.rsplit("::", 1)[-1]
            clo = [x for x in walk(c.arg(1)) if x[0] == "closure"] if len(c.args) > 1 else []
            if nm in ("sort_by_key", "sort_by_cached_key", "sort_unstable_by_key") and clo:
                ke = p.fn(clo[0][1]).local_expr(0)
                ks = deep_strip(ke)
                names = [x[1] for x in walk(ke) if x[0] == "call"]
                asc = not any("Reverse" in str(x) for x in walk(ke))
                by_len = ks[0] == "call" and ks[1] in ("core::str::<impl str>::len", "alloc::string::String::len") and any(n == "config::runtime::Logger::name" for n in names)
                by_name = ks[0] == "call" and ks[1] == "config::runtime::Logger::name"
                r.require((by_len or by_name) and asc, "key-is-name-length-ascending", fn=sn, site=c.at, detail="sort key %s" % show(ke, 4),
                          fail_detail="the sort key %s does not order ancestors before descendants" % show(ke, 4))
            elif nm in ("sort_by", "sort_unstable_by") and clo:
                ke = p.fn(clo[0][1]).local_expr(0)
                cm = [x for x in walk(ke) if x[0] == "call" and x[1].rsplit("::", 1)[-1] in ("cmp", "partial_cmp")]
                ok = bool(cm) and any(y == ("param", 2) for y in walk(cm[0][2][0])) and any(y == ("param", 3) for y in walk(cm[0][2][1])) and not any(x[0] == "call" and x[1].endswith("reverse") for x in walk(ke))
                r.require(ok, "comparator-ascending", fn=sn, site=c.at, detail="comparator %s" % show(ke, 5))
            else:
                r.fail("sort-form-unrecognised", fn=sn, site=c.at, detail="sort call %s" % c.callee)
        # no reordering between sort and loop
        if sorts:
            between = sn.reach(sorts[0].block, avoid={nx[0].block})
            bad = [c.callee for c in sn.calls() if c.block in between and (c.callee or "").rsplit("::", 1)[-1] in ("reverse", "swap", "rotate_left", "rotate_right", "shuffle", "dedup", "retain", "sort_by_key", "sort", "sort_by") and c.block != sorts[0].block]
            r.require(not bad, "nothing-reorders-after-sort", fn=sn, detail="reordering calls between sort and loop: %s" % bad)
        # the loop passes each logger's own settings
        args = site.arg_exprs()
        item = None
        for x in walk(args[1]):
            if x[0] == "as" and x[2] == "Some" and strip(x[1])[0] == "call" and strip(x[1])[1] == NEXT:
                item = x
        getters = {"config::runtime::Logger::name": None, "config::runtime::Logger::additive": None, "config::runtime::Logger::level": None, "config::runtime::Logger::appenders": None}
        for i, a in enumerate(args):
            for x in walk(a):
                if x[0] == "call" and x[1] in getters:
                    getters[x[1]] = i
        pos = add_params(p, ro)
        # each argument is exactly the logger's own getter (no conditional substitute)
        exact = {"path": "config::runtime::Logger::name", "additive": "config::runtime::Logger::additive", "level": "config::runtime::Logger::level"}
        for nm, g in exact.items():
            a = deep_strip(args[pos[nm] - 1])
            r.require(a[0] == "call" and a[1] == g and len(a[2]) == 1, "argument-is-exactly-the-getter:%s" % nm, fn=sn, site=site.at, detail="%s argument = %s" % (nm, show(a, 4)))
        aa = strip(args[pos["appenders"] - 1])
        chain = []
        x = aa
        while x[0] == "call" and x[2]:
            chain.append(x[1])
            x = strip(x[2][0])
        ok_chain = aa[0] == "call" and chain[:1] == ["core::iter::traits::iterator::Iterator::collect"] and "config::runtime::Logger::appenders" in chain and not any(c.rsplit("::", 1)[-1] in ("filter", "skip", "take", "rev", "filter_map", "take_while", "skip_while") for c in chain)
        if not ok_chain:
            # the same resolution spelled as a loop: a fresh vector, one push per name of logger.appenders(), none skipped
            from l4sa.panics import _root_local
            sl = sn
            op_ = site.t["args"][pos["appenders"] - 1]
            la = (op_.get("move") or op_.get("copy") or {}).get("l")
            fills = []
            for c in sl.calls():
                if not (c.callee or "").endswith("Vec::<T, A>::push") or not sl.in_loop(c.block):
                    continue
                rp = c.t["args"][0].get("move") or c.t["args"][0].get("copy")
                rd = [d_ for d_ in sl.defs(rp["l"])] if rp and not rp["p"] else []
                own = rd[0][4]["place"]["l"] if len(rd) == 1 and rd[0][3] == "rv" and rd[0][4]["k"] == "ref" and not rd[0][4]["place"]["p"] else None
                if own is not None and la is not None and _root_local(sl, own) == _root_local(sl, la):
                    fills.append(c)
            if len(fills) == 1:
                c = fills[0]
                inner = [n for n in sl.calls(NEXT) if sl.in_loop(n.block) and sl.dominates(n.block, c.block) and sl.can_reach(c.block, n.block) and n.block != nx[0].block]
                inner = [n for n in inner if all(sl.dominates(m.block, n.block) for m in inner)]      # the innermost
                if len(inner) == 1:
                    n_ = inner[0]
                    src_ok = any(x[0] == "call" and x[1] == "config::runtime::Logger::appenders" for x in walk(n_.arg(0))) and \
                        not any(x[0] == "call" and x[1].rsplit("::", 1)[-1] in ("filter", "skip", "take", "rev", "filter_map", "take_while", "skip_while", "step_by") for x in walk(n_.arg(0)))
                    val_ok = any(x[0] == "call" and x[1] == "core::ops::index::Index::index" for x in walk(c.arg(1))) and any(x[0] == "as" and x[2] == "Some" and strip(x[1])[0] == "call" and len(strip(x[1])) > 3 and strip(x[1])[3] == n_.block for x in walk(c.arg(1)))
                    sw_ = sl.term(n_.block).get("target")
                    some_ = SwitchInfo(sl, sw_).target_of("Some") if sw_ is not None and sl.term(sw_)["k"] == "switch" else None
                    all_ok = some_ is not None and not q.skipping_paths(sl, some_, {c.block}, {n_.block})
                    ok_chain = src_ok and val_ok and all_ok
        r.require(ok_chain, "appenders-resolved-unconditionally", fn=sn, site=site.at, detail="appenders argument = %s" % show(aa, 5),
                  fail_detail="the appender indices handed to add() are not simply logger.appenders() resolved through the map (%s): an attachment can be dropped for some loggers, and additive descendants lose it too" % show(aa, 5))
        r.require(getters["config::runtime::Logger::name"] == pos["path"] - 1 and getters["config::runtime::Logger::additive"] == pos["additive"] - 1 and getters["config::runtime::Logger::level"] == pos["level"] - 1 and getters["config::runtime::Logger::appenders"] == pos["appenders"] - 1,
                  "loop-passes-own-settings", fn=sn, site=site.at, detail="add(root, logger.name(), indices(logger.appenders()), logger.additive(), logger.level()): argument positions %s" % getters)


def run_cfg(ctx, p, cfg):
    from rules import accessors, c03
    from rules import c02
    c02.rule_tree_max(ctx, p, cfg, "R14")   # records reach their appenders through the log macros only if the published maximum covers every node (C02.T2 re-evaluated)
    accessors.rule_fidelity(ctx, p, cfg, "R11")   # routing reads names, levels, additivity and appender lists through these
    c03.rule_error_isolation(ctx, p, cfg, "R12")   # a failing appender does not cost the later attachments their delivery
    rule_add_total(ctx, p, cfg, "R13")
    from rules import c15
    c15.rule_one_snapshot(ctx, p, cfg, "R17")   # the node found and the appender table indexed belong to one configuration (C15.A1 re-evaluated)
    from rules import c13
    c13.rule_kept_as_given(ctx, p, cfg, "R18")   # the names, levels and lists the tree is built from are the ones declared (C13.V9 re-evaluated)
    c03.rule_chain_interpreter(ctx, p, cfg, "R20")   # each attachment produces its delivery unless the appender's own filters reject (C03.F1 re-evaluated)
    c02.rule_same_predicate(ctx, p, cfg, "R19")   # the node looked up is the one for the record's own target - an empty target is the root's (C02.T1 re-evaluated)
    c02.rule_install_publishes(ctx, p, cfg, "R16")   # ... and only if the maximum published with an installation is the installed logger's, not its predecessor's (C02.T3 re-evaluated)
    if "config_parsing" in p.meta.get("features", []):
        from rules import c14
        c14.rule_raw_to_runtime(ctx, p, cfg, "R15")   # a logger declared in a file reaches the tree with the additivity, level and appenders written there (C14.K7 re-evaluated)
    with ctx.rule("R1", "separator agreement", cfg) as r:
        ro = anchors.routing(p)
        a, f = ro["add"], ro["find"]
        pos = add_params(p, ro)
        sep = c13.separator_facts(p)
        r.require(len(sep["routing_seps"]) >= 2 and len(set(sep["routing_seps"])) == 1, "one-separator", detail="separator constants in add/find: %s" % sep["routing_seps"])
        s = sep["routing_sep"] or ""
        # offset added to the found index before slicing == len(SEP)
        offs = []
        for c in a.calls("core::ops::index::Index::index"):
            for x in walk(c.arg(1)):
                if x[0] == "agg" and x[1].endswith("RangeFrom"):
                    st = dict(x[3]).get("start")
                    st = deep_strip(st)
                    if st[0] == "bin" and st[1] == "Add" and strip(st[3])[0] == "const":
                        offs.append(strip(st[3])[2])
                    elif st[0] == "bin" and st[1] == "Add" and strip(st[2])[0] == "const":
                        offs.append(strip(st[2])[2])
                    else:
                        offs.append(0)
        uses_find = any((c.callee or "").endswith("::find") for c in a.calls())
        if uses_find:
            r.require(offs == [len(s)], "slice-offset-is-separator-length", fn=a, detail="rest = &path[idx + %s..] with len(SEP) = %d" % (offs, len(s)))
            # the part is path[..idx] with the same idx
            r.require(any(x[0] == "agg" and x[1].endswith("RangeTo") for c in a.calls("core::ops::index::Index::index") for x in walk(c.arg(1))), "part-is-prefix-up-to-match", fn=a, detail="part = &path[..idx]")
        else:
            r.require(any((c.callee or "").endswith("split_once") for c in a.calls()), "split_once-form", fn=a, detail="add splits with split_once(SEP)")
        from rules import c13 as _c13
        okl, why = _c13.name_language_ok(p)
        r.require(sep["check_char"] == s[:1] and len(set(s)) == 1 and okl, "name-check-agrees", detail="name check: char %r; SEP %r; %s" % (sep["check_char"], s, why))
        # both functions split the same argument kind (the path / target string)
        fsplit = [c for c in f.calls() if (c.callee or "").startswith("core::str::<impl str>::") and (c.callee or "").rsplit("::", 1)[-1] in ("split", "find", "split_once")]
        r.require(len(fsplit) == 1 and deep_strip(fsplit[0].arg(0)) == ("param", 2), "find-splits-the-target", fn=f, detail="find splits its path argument")

    rule_ancestors_first(ctx, p, cfg, "R2")

    with ctx.rule("R3", "additive polarity", cfg) as r:
        ro = anchors.routing(p)
        a = ro["add"]
        pos = add_params(p, ro)
        lvl, apps, kids = node_fields(p, ro)
        ext = [c for c in a.calls() if (c.callee or "").rsplit("::", 1)[-1] in ("extend", "extend_from_slice", "append")]
        r.require(len(ext) == 1, "one-extension", fn=a, detail="extension calls: %d" % len(ext))
        for c in ext:
            tgt, src = deep_strip(c.arg(0)), c.arg(1)
            r.require(tgt == ("param", pos["appenders"]), "extends-the-new-list", fn=a, site=c.at, detail="extended list %s" % show(tgt))
            r.require(any(deep_strip(x) == ("field", ("param", 1), apps) for x in walk(src)), "with-the-parents-appenders", fn=a, site=c.at, detail="source %s" % show(src, 5))
            gate = [(si, al) for sb, si, al in a.conditions(c.block) if deep_strip(si.discr) == ("param", pos["additive"])]
            r.require(len(gate) == 1 and {gate[0][0].label(v) for v, _ in gate[0][1]} == {True}, "only-when-additive", fn=a, site=c.at, detail="extension is control-dependent on additive == true")
            # and only for the leaf (rest.is_empty())
            leaf = [(si, al) for sb, si, al in a.conditions(c.block) if strip(si.discr)[0] == "call" and strip(si.discr)[1] == "core::str::<impl str>::is_empty"]
            r.require(len(leaf) == 1 and {leaf[0][0].label(v) for v, _ in leaf[0][1]} == {True}, "only-for-the-leaf", fn=a, site=c.at, detail="extension happens when the remaining path is empty")

    rule_inheritance_shape(ctx, p, cfg, "R4")
    run_cfg_after_r4(ctx, p, cfg)


def rule_inheritance_shape(ctx, p, cfg, rid="R4"):
    with ctx.rule(rid, "inheritance shape", cfg) as r:
        ro = anchors.routing(p)
        a = ro["add"]
        pos = add_params(p, ro)
        lvl, apps, kids = node_fields(p, ro)
        aggs = [(b, i, a._rvalue(s["rv"], frozenset(), 30, b)) for b, i, s in a.assigns() if s["rv"]["k"] == "agg" and s["rv"].get("adt") == ro["node_adt"]]
        r.require(len(aggs) == 2, "two-node-constructions", fn=a, detail="node aggregates in add: %d (leaf, implied intermediate)" % len(aggs))
        leaf, mid = None, None
        for b, i, e in aggs:
            fd = {n: deep_strip(v) for n, v in e[3]}
            gate = [(si, al) for sb, si, al in a.conditions(b) if strip(si.discr)[0] == "call" and strip(si.discr)[1] == "core::str::<impl str>::is_empty"]
            pol = {gate[0][0].label(v) for v, _ in gate[0][1]} if gate else None
            if fd.get(lvl) == ("param", pos["level"]) and fd.get(apps) == ("param", pos["appenders"]):
                leaf = (b, pol, gate)
            elif fd.get(lvl) == ("field", ("param", 1), lvl) and fd.get(apps)[0] == "field" and fd.get(apps) == ("field", ("param", 1), apps):
                mid = (b, pol, gate)
        r.require(leaf is not None and leaf[1] == {True}, "leaf-takes-own-settings", fn=a, detail="when rest is empty the node gets the level/appenders parameters")
        r.require(mid is not None and mid[1] == {False}, "intermediate-inherits-parent", fn=a, detail="an implied intermediate gets the parent's level and a clone of its appenders")
        if leaf and leaf[2]:
            r.require(rest_expr_is(strip(leaf[2][0][0].discr)[2][0], pos), "decided-by-rest.is_empty", fn=a, detail="tested string: %s" % show(strip(leaf[2][0][0].discr)[2][0], 5))
        # the clone really is a clone call of the parent's list (not an empty vec)
        if mid:
            raw = [e for b, i, e in aggs if b == mid[0]][0]
            av = dict(raw[3]).get(apps)
            r.require(any(x[0] == "call" and x[1] == "core::clone::Clone::clone" for x in walk(av)), "intermediate-clones-appenders", fn=a, detail="appenders: %s" % show(av, 4))


def run_cfg_after_r4(ctx, p, cfg):
    rule_longest_prefix_walk(ctx, p, cfg, "R5")
    run_cfg_after_r5(ctx, p, cfg)


def rule_longest_prefix_walk(ctx, p, cfg, rid="R5"):
    with ctx.rule(rid, "longest-prefix walk", cfg) as r:
        ro = anchors.routing(p)
        f = ro["find"]
        lvl, apps, kids = node_fields(p, ro)
        be = f.back_edges()
        gets = f.calls(HM_GET)
        r.require(len(gets) == 1, "one-lookup-per-component", fn=f, detail="children.get sites: %d" % len(gets))
        if gets:
            g = gets[0]
            sw = None
            for blk in f.blocks:
                if blk["term"]["k"] == "switch" and blk["id"] in f.reachable_blocks():
                    si = SwitchInfo(f, blk["id"])
                    d = strip(si.discr)
                    inner_ = strip(d[1]) if d[0] == "discr" else None
                    if inner_ is not None and inner_[0] == "phi":
                        # `iter.next().and_then(|part| children.get(part))`: the lookup's result, or None when the components ran out
                        calls_ = [strip(a_) for a_ in inner_[1] if strip(a_)[0] == "call"]
                        rest_ = [a_ for a_ in inner_[1] if strip(a_)[0] != "call"]
                        if len(calls_) == 1 and all(strip(a_)[0] == "agg" and strip(a_)[2] == "None" for a_ in rest_):
                            inner_ = calls_[0]
                    if inner_ is not None and inner_[0] == "call" and inner_[1] == HM_GET:
                        sw = si
            if sw is None:
                raise ShapeUnrecognised("no match on children.get() in find")
            st, nt = sw.target_of("Some"), sw.target_of("None")
            nxb = [c.block for c in f.calls(NEXT)]
            r.require(len(be) == 1 and be[0][0] in f.reach(st, avoid={nt}, include_src=True) | {st}, "only-back-edge-on-hit", fn=f, detail="back edges: %s; Some arm bb%s" % (be, st))
            rn = f.reach(nt, include_src=True)
            r.require(g.block not in rn and not (set(nxb) & rn), "miss-stops-the-walk", fn=f, detail="from the None arm neither another lookup nor the iterator step is reachable")
            key = g.arg(1)
            r.require(any(x[0] == "as" and x[2] == "Some" and strip(x[1])[0] == "call" and strip(x[1])[1] == NEXT for x in walk(key)), "looks-up-the-component", fn=f, detail="lookup key %s" % show(key, 5))
            m = deep_strip(g.arg(0))
            r.require(m[0] in ("field", "phi") and any(x[0] == "field" and x[2] == kids for x in walk(g.arg(0))), "in-the-current-nodes-children", fn=f, detail="map %s" % show(g.arg(0), 5))
            ret = f.local_expr(0)
            r.require(any(deep_strip(x) == ("param", 1) for x in walk(ret)) and any(x[0] == "as" and x[2] == "Some" and strip(x[1])[0] == "call" and strip(x[1])[1] == HM_GET for x in walk(ret)), "returns-last-bound-node", fn=f,
                      detail="result %s" % show(ret, 5))
            it = f.calls(NEXT)[0].arg(0) if f.calls(NEXT) else None
            bad = [x[1].rsplit("::", 1)[-1] for x in walk(it) if x[0] == "call" and x[1].rsplit("::", 1)[-1] in ("rev", "rsplit", "skip", "filter", "take", "rsplitn")] if it else ["?"]
            r.require(not bad, "components-left-to-right", fn=f, detail="iterator adaptors: %s" % bad)



def rule_index_table(ctx, p, cfg, rid="R8"):
    """the positions stored in the nodes and the appender table of the snapshot come from one vector, in one order"""
    with ctx.rule(rid, "index table agreement", cfg) as r:
        # The nodes store positions; the snapshot stores the appenders.  Both come from one vector V: the name -> position map
        # enumerates V front to back, the table is V's elements in V's order, and V is not touched in between.  Everything is
        # read on the loop view, where `.enumerate().map(..).collect::<HashMap>()` and `for (i, a) in V.iter().enumerate() {
        # map.insert(a.name(), i) }` (likewise the table's map/collect and an explicit push loop) are the same loops.
        ro = anchors.routing(p)
        sn = p.fn_loops(ro["shared_new"].path)
        ITER_OK = ("enumerate", "iter", "into_iter")
        DROP = ("rev", "filter", "skip", "take", "step_by", "filter_map", "skip_while", "take_while", "chain", "zip", "sort", "sort_by_key", "dedup", "retain")

        def loop_source(call):
            """(source vector expr, adaptor names, the next call) of the loop a block sits in"""
            nx = [c for c in sn.calls(NEXT) if sn.in_loop(c.block) and sn.dominates(c.block, call.block) and sn.can_reach(call.block, c.block)]
            if len(nx) != 1:
                return None, [], None
            it = nx[0].arg(0)
            names = [x[1].rsplit("::", 1)[-1] for x in walk(it) if x[0] == "call"]
            src = None
            for x in walk(it):
                if x[0] == "call" and x[1].rsplit("::", 1)[-1] in ("iter", "into_iter") and x[2]:
                    src = deep_strip(x[2][0])
            return src, names, nx[0]

        def every_element(call, nx):
            """no path from the iterator step back to itself (or out of the loop through exhaustion of a later step) skips `call`"""
            sw_ = sn.term(nx.block).get("target")
            if sw_ is None:
                return False
            some_ = None
            if sn.term(sw_)["k"] == "switch":
                some_ = SwitchInfo(sn, sw_).target_of("Some")
            if some_ is None:
                return False
            return not q.skipping_paths(sn, some_, {call.block}, {nx.block})
        ins = [c for c in sn.calls(HM_INSERT) if any(t_.startswith("&mut std::collections::hash::map::HashMap<&") for t_ in (c.t.get("arg_tys") or [])[:1]) or True]
        ins = [c for c in ins if sn.in_loop(c.block)]
        r.require(len(ins) == 1, "one-enumerated-map", fn=sn, detail="insertions into a name -> position map inside a loop: %d" % len(ins))
        srcv = None
        if len(ins) == 1:
            c = ins[0]
            srcv, names, nx = loop_source(c)
            bad = [n for n in names if n in DROP]
            r.require(srcv is not None and "enumerate" in names and not bad, "map-enumerates-the-whole-vector", fn=sn, site=c.at,
                      detail="map filled in a loop over enumerate(%s) (adaptors %s)" % (show(srcv, 4) if srcv else None, bad))
            k_, v_ = c.arg(1), c.arg(2)
            item = [x for x in walk(v_) if x[0] == "as" and x[2] == "Some" and strip(x[1])[0] == "call" and strip(x[1])[1] == NEXT]
            okk = any(x[0] == "call" and x[1] == "config::runtime::Appender::name" for x in walk(k_)) and bool(item) and deep_strip(v_) == ("field", ("field", item[0], "0"), "0") \
                or (any(x[0] == "call" and x[1] == "config::runtime::Appender::name" for x in walk(k_)) and bool(item) and deep_strip(v_)[0] == "field" and deep_strip(v_)[2] == "0"
                    and not any(x[0] in ("bin", "un") for x in walk(v_)))
            r.require(okk, "map-entry-is-(name,index)", fn=sn, site=c.at, detail="inserts (%s, %s)" % (show(k_, 4), show(v_, 5)))
            r.require(nx is not None and every_element(c, nx), "map-has-every-element", fn=sn, site=c.at, detail="no element of the vector is skipped when the map is filled")
        # the table
        aggs = [a for a in p.aggregates("SharedLogger") if a[0].path == sn.path] or [a for a in p.aggregates(ro["shared_new"].d.get("impl_self_adt") or "") if a[0].path == sn.path]
        ag = [(b_, i_, st_) for b_, i_, st_ in sn.assigns() if st_["rv"]["k"] == "agg" and st_["rv"].get("adt") in ("SharedLogger", ro["shared_new"].d.get("impl_self_adt"))]
        if not ag:
            r.fail("table-field", fn=sn, detail="the snapshot aggregate was not found")
        else:
            b_, i_, st_ = ag[0]
            e = sn._rvalue(st_["rv"], frozenset(), 30, b_)
            tops = [(n, op) for n, op in zip(st_["rv"].get("field_names", []), st_["rv"]["fields"]) if "Appender" in str(_field_ty(p, e[1], n))]
            if not tops:
                r.fail("table-field", fn=sn, detail="appender table field not found in the snapshot aggregate")
            else:
                tl = (tops[0][1].get("move") or tops[0][1].get("copy") or {}).get("l")
                pushes = [c for c in sn.calls() if (c.callee or "").endswith("Vec::<T, A>::push") and sn.in_loop(c.block)
                          and any(x[0] == "agg" and str(x[1]).endswith("Appender") for x in walk(c.arg(1)))]
                okt = len(pushes) == 1
                tsrc, tnames = None, []
                if okt:
                    tsrc, tnames, tnx = loop_source(pushes[0])
                    r.require(tnx is not None and every_element(pushes[0], tnx), "table-has-every-element", fn=sn, site=pushes[0].at,
                              detail="every element of the vector is pushed to the table (a filtered table no longer lines up with the positions in the map)")
                    from l4sa.panics import _root_local
                    recv = pushes[0].t["args"][0].get("move") or pushes[0].t["args"][0].get("copy")
                    rdefs = [d_ for d_ in sn.defs(recv["l"])] if recv else []
                    owner = rdefs[0][4]["place"]["l"] if len(rdefs) == 1 and rdefs[0][3] == "rv" and rdefs[0][4]["k"] == "ref" else None
                    okt = owner is not None and tl is not None and _root_local(sn, tl) == _root_local(sn, owner)
                bad2 = [n for n in tnames if n in DROP]
                r.require(okt and tsrc is not None and srcv is not None and tsrc == srcv and not bad2, "table-from-the-same-vector-in-order", fn=sn,
                          detail="table pushed in a loop over %s; map from %s; adaptors %s" % (show(tsrc, 4) if tsrc else None, show(srcv, 4) if srcv else None, bad2))
        # no mutation of the vector between the two uses
        muts = [c.callee for c in sn.calls() if c.t.get("arg_tys") and c.t["arg_tys"][0].startswith("&mut alloc::vec::Vec<config::runtime::Appender")]
        r.require(not muts, "vector-not-mutated", fn=sn, detail="mutating calls on the appender vector: %s" % muts)
        # indices stored in nodes come from that map: the root's and every logger's list are looked up in it
        look = [c for c in sn.calls("core::ops::index::Index::index") if any("HashMap" in t_ for t_ in (c.t.get("arg_tys") or [])[:1])]
        r.require(len(look) >= 2, "indices-come-from-the-map", fn=sn, detail="lookups in the map: %d (root, loggers)" % len(look))

def run_cfg_after_r5(ctx, p, cfg):
    with ctx.rule("R6", "threshold comparator", cfg) as r:
        ro = anchors.routing(p)
        pred = ro["enabled_pred"]
        nf = cmp_nf(pred.local_expr(0))
        ok = nf is not None and nf[0] == "Le" and deep_strip(nf[1]) == ("param", 2) and deep_strip(nf[2])[0] == "field" and deep_strip(nf[2])[1] == ("param", 1)
        r.require(ok, "threshold-ge-level", fn=pred, detail="normal form %s" % (show(("cmp",) + nf, 4) if nf else show(pred.local_expr(0))))

    with ctx.rule("R7", "fan-out", cfg) as r:
        ro = anchors.routing(p)
        nl, ds, pred = ro["node_log"], ro["deliver_site"], ro["enabled_pred"]
        lvl, apps, kids = node_fields(p, ro)
        sites = [c for c in nl.calls(ds.callee)]
        r.require(len(sites) == 1 and nl.in_loop(ds.block), "one-delivery-site-in-loop", fn=nl, detail="delivery sites: %d" % len(sites))
        nx = [c for c in nl.calls(NEXT) if nl.dominates(c.block, ds.block)]
        r.require(len(nx) == 1 and any(deep_strip(x) == ("field", ("param", 1), apps) for x in walk(nx[0].arg(0))), "loops-over-own-appender-list", fn=nl, detail="iterator %s" % (show(nx[0].arg(0), 5) if nx else None))
        if nx:
            bad = [x[1].rsplit("::", 1)[-1] for x in walk(nx[0].arg(0)) if x[0] == "call" and x[1].rsplit("::", 1)[-1] in ("rev", "skip", "take", "filter", "step_by", "skip_while", "take_while", "filter_map", "dedup", "nth", "peekable", "chain")]
            r.require(not bad, "whole-list-each-once", fn=nl, detail="iterator adaptors on the node's appender list: %s" % bad)
        a0 = ds.arg(0)
        idx = [x for x in walk(a0) if x[0] == "index"]
        r.require(bool(idx) and deep_strip(idx[0][1]) == ("param", 3) and any(x[0] == "as" and x[2] == "Some" for x in walk(idx[0][2])), "indexes-table-with-loop-item", fn=nl, site=ds.at, detail="receiver %s" % show(a0, 6))
        r.require(deep_strip(ds.arg(1)) == ("param", 2), "delivers-the-record", fn=nl, detail="record passed through")
        gate = [(si, al, want) for sb, si, al, d_, want in common.threshold_gates(nl, ds.block, pred)]
        r.require(len(gate) == 1 and {gate[0][0].label(v) for v, _ in gate[0][1]} == {gate[0][2]}, "gated-by-threshold", fn=nl, detail="loop is control-dependent on enabled(record.level())")
        # nothing else delivers: no other call reaching dyn Append in the function
        oth = [c.callee for c in nl.calls() if c.callee == "append::Append::append"]
        r.require(not oth, "no-direct-delivery", fn=nl, detail="direct Append::append calls in the node's log(): %s" % oth)
        # the table passed by Log::log is the snapshot's
        site = ro["node_log_site"]
        r.require(any(x[0] == "field" for x in walk(site.arg(2))) and any(x[0] == "call" and x[1] == anchors.LOAD for x in walk(site.arg(2))), "table-from-snapshot", fn=site.fn, detail="appender table argument %s" % show(site.arg(2), 6))

    rule_index_table(ctx, p, cfg, "R8")

    with ctx.rule("R9", "existing nodes are never replaced", cfg) as r:
        ro = anchors.routing(p)
        a = ro["add"]
        pos = add_params(p, ro)
        gm = a.calls(HM_GET_MUT)
        ins = a.calls(HM_INSERT)
        r.require(len(gm) == 1 and len(ins) == 1, "one-lookup-one-insert", fn=a, detail="get_mut %d, insert %d" % (len(gm), len(ins)))
        if gm and ins:
            sw = None
            for blk in a.blocks:
                if blk["term"]["k"] == "switch" and blk["id"] in a.reachable_blocks():
                    si = SwitchInfo(a, blk["id"])
                    d = strip(si.discr)
                    if d[0] == "discr" and strip(d[1])[0] == "call" and strip(d[1])[1] == HM_GET_MUT:
                        sw = si
            if sw is None:
                raise ShapeUnrecognised("no match on children.get_mut() in add")
            st, nt = sw.target_of("Some"), sw.target_of("None")
            rs = a.reach(st, include_src=True)
            r.require(ins[0].block not in rs, "insert-only-when-absent", fn=a, detail="HashMap::insert is unreachable from the Some arm")
            gate = [(si, al) for sb, si, al in a.conditions(ins[0].block) if sb == sw.b]
            r.require(len(gate) == 1 and {gate[0][0].label(v) for v, _ in gate[0][1]} == {"None"}, "insert-dominated-by-absence-test", fn=a,
                      detail="every path to HashMap::insert passes the None edge of children.get_mut(part)",
                      fail_detail="HashMap::insert can be reached without the children.get_mut(part) == None test: an existing node (and its subtree) can be replaced")
            rec = [c for c in a.calls(a.path) if c.block in rs and c.block not in a.reach(nt, include_src=True)]
            r.require(len(rec) == 1, "existing-child-recurses", fn=a, detail="the Some arm recurses into the existing child")
            if rec:
                r.require(any(x[0] == "as" and x[2] == "Some" and strip(x[1])[0] == "call" and strip(x[1])[1] == HM_GET_MUT for x in walk(rec[0].arg(0))), "recurses-into-that-child", fn=a, detail="receiver %s" % show(rec[0].arg(0), 5))
            # same key for lookup and insert
            k1, k2 = deep_strip(gm[0].arg(1)), deep_strip(ins[0].arg(1))
            r.require(k1 == k2, "same-key", fn=a, detail="lookup key %s / insert key %s" % (show(k1, 4), show(k2, 4)))

    with ctx.rule("R10", "recursion forwards its arguments", cfg) as r:
        ro = anchors.routing(p)
        a = ro["add"]
        pos = add_params(p, ro)
        rec = a.calls(a.path)
        r.require(len(rec) == 2, "two-recursive-calls", fn=a, detail="recursive add calls: %d" % len(rec))
        for n, c in enumerate(rec):
            args = c.arg_exprs()
            for nm in ("appenders", "additive", "level"):
                r.require(deep_strip(args[pos[nm] - 1]) == ("param", pos[nm]), "forwards-%s#%d" % (nm, n), fn=a, site=c.at, detail="argument %s = %s" % (nm, show(args[pos[nm] - 1], 3)))
            r.require(rest_expr_is(args[pos["path"] - 1], pos), "forwards-rest#%d" % n, fn=a, site=c.at, detail="path argument %s" % show(args[pos["path"] - 1], 5))


def _field_ty(p, adt, name):
    a = p.adts.get(adt)
    if not a:
        return None
    for f in a["variants"][0]["fields"]:
        if f["name"] == name:
            return f["ty"]
    return None
