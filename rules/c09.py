"""C09 — pattern encoder output equals the pattern's meaning for well-formed patterns."""
import os
import re

from l4sa import q, tables, facts
from l4sa.core import AnchorMissing, ShapeUnrecognised, SwitchInfo, strip, deep_strip, walk, show, calls_in, cmp_nf
from rules import common

CLAIMED = True
TECHNIQUE = "static analysis over type-checked MIR: guarded-table extraction of the formatter-name chain (name -> chunk variant, alias groups) cross-checked with the module documentation, per-variant accessor table of FormattedChunk::encode with placeholder constants, constant-folded profile gating in dev and release builds, escape table of the parser, forward-iteration of every chunk loop"
LEVEL_TEXT = """Static decision of the table clauses only (the recursive parser as a whole — nesting, arguments, adjacency — and date formatting are NOT claimed): (T1) the formatter-name table extracted from From<Piece> for Chunk: {d,date}->Time {f,file}->File {h,highlight}->Highlight {D,debug}->Debug {R,release}->Release {l,level}->Level {L,line}->Line {m,message}->Message {M,module}->Module {P,pid}->ProcessId {i,tid}->SystemThreadId {n}->Newline {t,target}->Target {T,thread}->Thread {I,thread_id}->ThreadId {X,mdc}->Mdc {""}->Align, equal to the names listed in the module documentation; (T2) FormattedChunk::encode's accessor table: Level->record.level(), Message->record.args(), Module/File/Line->record.module_path()/file()/line() with "???" exactly on their None edges, Target->record.target(), Thread->thread::current().name() (unnamed), ThreadId->thread_id::get, ProcessId->process::id, SystemThreadId->the TID thread-local, Newline->NEWLINE, Mdc->log_mdc::get(key) with the default, Time->{Utc,Local}::now().format(fmt) per zone; (T3) the children loop of Debug is reachable and that of Release is not in a dev build after constant folding, and the reverse in a release build; (T4) the Highlight arm only sets styles and encodes its children; (T5) in the parser, doubled and backslash-escaped {, }, (, ) and \\\\ produce a text piece of exactly that character; (T7) the date format string is either the default "%+" or accumulated from every piece of the first argument, in order, with no early exit; (T8) in the parser no byte quantity (str::len, find offsets) steps the character cursor and no character count slices the pattern, so literal text containing multi-byte characters is delimited like ASCII text; (T6) every chunk loop iterates forward, encoding each child once, and PatternEncoder::new collects the parser's pieces in order. (T15) the width specification in front of a formatter is read as C10.A6 requires (any character may be the fill, decided only by the character after it). (T16) every argument group written is counted (C11.P7); (T17) a written width of 0 is a width (C10.A10). (T18) widths are stored as parsed (C10.A12). (T19) no branch of a Parser method compares a scalar field of the parser (a depth, a piece count) with an integer constant: the verdict on a piece depends on the characters read, not on how much was read before - no nesting or length limit. (T20) MaxWidthWriter swallows bytes only when the cut index is zero (C10.A5 re-evaluated). (T21) every return of PatternEncoder::encode lies behind the first step of its chunk iterator."""
LEVEL_NOTE = "Trusted: rustc MIR/callee resolution; log::Record accessors; chrono formatting; the parser's recursive structure beyond the escape table is not analysed for semantic equivalence with the documented grammar."
EXPLANATION = """Decided: T1 name table (+doc cross-check), T2 accessor table and placeholders, T3 profile gating (dev + release configs), T4 highlight adds only style, T5 escape table, T6 forward order. Undecided: the recursive parser as a whole (nesting, argument handling, adjacency of pieces), date formatting results."""
DECIDED = ["T1", "T2", "T3", "T4", "T5", "T6", "T7", "T8", "T9 width writers charge what was consumed (C10.A7)", "T10 right-aligned text is buffered whole and replayed whole", "T11 a configured pattern is the pattern used; the default only when none is given", "T12 each formatter name yields its own chunk under the piece's own parameters", "T13 a group's children are its argument's pieces, one chunk each", "T21 every return of PatternEncoder::encode lies behind its chunk loop", "T19 no branch of the parser compares a count of its own progress with a constant (no nesting or piece limit)"]
UNDECIDED = ["recursive parser semantics (nesting/arguments/adjacency)", "date formatting"]
TRUSTED = ["rustc nightly MIR + Instance::try_resolve", "log::Record", "chrono formatting"]

FROM_PIECE = "<encode::pattern::Chunk as core::convert::From<encode::pattern::parser::Piece<'a>>>::from"
FENCODE = "encode::pattern::FormattedChunk::encode"
FCHUNK = "encode::pattern::FormattedChunk"
CHUNK_ENCODE = "encode::pattern::Chunk::encode"
PENCODE = "<encode::pattern::PatternEncoder as encode::Encode>::encode"
PNEW = "encode::pattern::PatternEncoder::new"
PARSER_NEXT = "<encode::pattern::parser::Parser<'a> as core::iter::traits::iterator::Iterator>::next"
PIECE = "encode::pattern::parser::Piece"
NEXT = "core::iter::traits::iterator::Iterator::next"
NAME_TABLE = {"d": "Time", "date": "Time", "f": "File", "file": "File", "h": "Highlight", "highlight": "Highlight", "D": "Debug", "debug": "Debug", "R": "Release", "release": "Release",
              "l": "Level", "level": "Level", "L": "Line", "line": "Line", "m": "Message", "message": "Message", "M": "Module", "module": "Module", "P": "ProcessId", "pid": "ProcessId",
              "i": "SystemThreadId", "tid": "SystemThreadId", "n": "Newline", "t": "Target", "target": "Target", "T": "Thread", "thread": "Thread", "I": "ThreadId", "thread_id": "ThreadId",
              "X": "Mdc", "mdc": "Mdc", "": "Align"}
ACCESS = {
    "Level": ["log::Record::<'a>::level"], "Message": ["log::Record::<'a>::args"], "Module": ["log::Record::<'a>::module_path"], "File": ["log::Record::<'a>::file"],
    "Line": ["log::Record::<'a>::line"], "Target": ["log::Record::<'a>::target"], "Thread": ["std::thread::current::current", "std::thread::thread::Thread::name"],
    "ThreadId": ["thread_id::get"], "ProcessId": ["std::process::id"], "SystemThreadId": ["std::thread::local::LocalKey::<T>::with"], "Mdc": ["log_mdc::get"],
}
SOURCES = sorted({x for v in ACCESS.values() for x in v} | {"chrono::offset::utc::Utc::now", "chrono::offset::local::Local::now"})


def run(ctx):
    for cfg in (["default"] if ctx.tier == "quick" else ["default", "full", "single:pattern_encoder"]):
        run_cfg(ctx, ctx.prog(cfg), cfg, release=False)
    # profile gating needs both profiles; the release facts are cheap (cached dependencies)
    run_gating(ctx, ctx.prog("default"), "default", release=False)
    run_gating(ctx, ctx.prog("release"), "release", release=True)


def arm_regions(f, si):
    arms = {}
    edges = [(lab, t) for lab, t in si.labelled_edges() if not (isinstance(lab, tuple) and not lab[1])]
    for lab, t in edges:
        region = f.reach(t, include_src=True)
        for l2, t2 in edges:
            if t2 != t:
                region = region - f.reach(t2, include_src=True)
        arms.setdefault(lab, set())
        arms[lab] |= region
    return arms


def top_switch(f, on):
    for blk in f.blocks:
        if blk["term"]["k"] == "switch" and blk["id"] in f.reachable_blocks():
            si = SwitchInfo(f, blk["id"])
            d = strip(si.discr)
            if d[0] == "discr" and deep_strip(d[1]) == on:
                return si
    raise ShapeUnrecognised("no variant switch on %s in %s" % (show(on), f.path))


def doc_names():
    """formatter names listed in the module documentation (bullets of the form * `d`, `date` - ...)"""
    path = os.path.join(facts.REPO, "src", "encode", "pattern", "mod.rs")
    names = set()
    try:
        for line in open(path, encoding="utf-8"):
            m = re.match(r"^//!\s*\*\s*((?:`[A-Za-z_]+`(?:\s*,\s*)?)+)\s*-", line)
            if m:
                names |= set(re.findall(r"`([A-Za-z_]+)`", m.group(1)))
    except OSError:
        pass
    return names



def rule_right_align_replay(ctx, p, cfg, rid="T10"):
    """Right-aligned text is held back until the padding is known.  Nothing added or dropped then means: what write() is
    offered is buffered whole and reported as taken, and finish() hands on everything that was buffered."""
    from rules import c10
    with ctx.rule(rid, "right-aligned text is buffered and replayed whole", cfg) as r:
        mine = [g for g in p.fns.values() if g.d.get("impl_self_adt") == c10.RIGHT]
        fin = [g for g in mine if g.path.endswith("::finish")]
        wr = [g for g in mine if g.path.endswith("as std::io::Write>::write")]
        if len(fin) != 1 or len(wr) != 1:
            raise AnchorMissing("RightAlignWriter::finish / io::Write::write not found")
        fin, wr = p.fn_loops(fin[0].path), p.fn_loops(wr[0].path)

        def ok_rets(f):
            return {b for b, e in q.ret_assignments(f) if q.classify_ret(e) != "err" and not q.is_from_residual(e)}

        def whole_arg(e):
            e = deep_strip(e)
            if e == ("param", 2):
                return True
            return e[0] == "call" and e[1].rsplit("::", 1)[-1] in ("to_owned", "to_vec", "into", "from", "clone") and any(whole_arg(a) for a in e[2])
        keeps = []
        for c in wr.calls():
            nm = (c.callee or "").rsplit("::", 1)[-1]
            if nm in ("extend_from_slice", "push", "extend", "append") and any(whole_arg(a) or any(x[0] == "agg" and any(whole_arg(v) for _, v in (x[3] or ())) for x in walk(a)) for a in c.arg_exprs()[1:]):
                keeps.append(c)
        skipped = q.const_skipping_paths(wr, 0, {c.block for c in keeps}, ok_rets(wr)) if keeps else {0}
        r.require(bool(keeps) and not skipped, "offered-bytes-buffered-whole", fn=wr, detail="every non-error return of write() passed an append of the whole offered slice (%d append site(s))" % len(keeps),
                  fail_detail="write() can report success without having buffered the slice it was offered")
        rete = [e for b, e in q.ret_assignments(wr) if q.classify_ret(e) != "err" and not q.is_from_residual(e)]
        okn = bool(rete) and all(deep_strip(e)[0] == "agg" and deep_strip(e)[2] == "Ok" and deep_strip(dict(deep_strip(e)[3]).get("0", ("?",))) == ("call", "core::slice::<impl [T]>::len", (("param", 2),)) [:3]
                                  or (deep_strip(e)[0] == "agg" and deep_strip(e)[2] == "Ok" and deep_strip(dict(deep_strip(e)[3]).get("0", ("?",)))[:2] == ("call", "core::slice::<impl [T]>::len") and deep_strip(deep_strip(dict(deep_strip(e)[3])["0"])[2][0]) == ("param", 2))
                                  for e in rete)
        r.require(okn, "reports-the-offered-length", fn=wr, detail="write() returns Ok(buf.len()): %s" % [show(e, 4) for e in rete])
        # finish(): everything buffered is handed on
        adt = p.adt(c10.RIGHT)
        vecs = [(fd["name"], fd["ty"]) for fd in adt["variants"][0]["fields"] if fd["ty"].startswith("alloc::vec::Vec<")]
        rets = ok_rets(fin)
        replays = [c for c in fin.calls() if c.callee in ("std::io::Write::write_all", "encode::Write::set_style")]
        done = False
        for name, ty in vecs:
            def of_field(e):
                return any(deep_strip(x) == ("field", ("param", 1), name) for x in walk(e))
            if ty == "alloc::vec::Vec<u8>":
                # one contiguous byte buffer: every non-error return passes a write of all of it, or of the run that reaches its end
                def reaches_end(e):
                    e = deep_strip(e)
                    if e[0] == "call" and e[1].rsplit("::", 1)[-1] in ("deref", "as_slice", "as_ref", "borrow") and deep_strip(e[2][0]) == ("field", ("param", 1), name):
                        return True
                    if e == ("field", ("param", 1), name):
                        return True
                    if e[0] == "call" and e[1] in ("core::ops::index::Index::index",) and of_field(e[2][0]):
                        rg = deep_strip(e[2][1])
                        return rg[0] == "agg" and (rg[1].endswith("RangeFrom") or rg[1].endswith("RangeFull"))
                    return False
                tails = [c for c in replays if c.callee == "std::io::Write::write_all" and reaches_end(c.arg(1))]
                sk = q.const_skipping_paths(fin, 0, {c.block for c in tails}, rets) if tails else set(rets)
                r.require(bool(tails) and not sk, "buffer-written-to-its-end:%s" % name, fn=fin, detail="every non-error return of finish() passed a write_all of self.%s up to its end" % name,
                          fail_detail="finish() can return Ok without writing self.%s to its end: the text after the last recorded position (e.g. after the last style change) is dropped" % name)
                done = True
                continue
            steps = [c for c in fin.calls(NEXT) if of_field(c.arg(0))]
            for nx in steps:
                sw = None
                for blk in fin.blocks:
                    if blk["term"]["k"] == "switch" and blk["id"] in fin.reachable_blocks():
                        si = SwitchInfo(fin, blk["id"])
                        d = strip(si.discr)
                        if d[0] == "discr" and strip(d[1])[0] == "call" and len(strip(d[1])) > 3 and strip(d[1])[3] == nx.block:
                            sw = si
                if sw is None:
                    continue
                elem = [c for c in replays if any(x[0] == "as" and x[2] == "Some" and strip(x[1])[0] == "call" and len(strip(x[1])) > 3 and strip(x[1])[3] == nx.block for x in walk(c.arg(1)))]
                sk = q.const_skipping_paths(fin, sw.target_of("Some"), {c.block for c in elem}, rets | {nx.block})
                r.require(bool(elem) and not sk, "every-buffered-item-replayed:%s" % name, fn=fin, detail="from the Some edge of the loop over self.%s every path to the next item or to a non-error return writes the item or sets its style" % name,
                          fail_detail="an item of self.%s can be passed over without being written (bb%s reachable from the loop's Some edge without write_all/set_style of the item)" % (name, sorted(sk)))
                it = nx.arg(0)
                bad = [x[1].rsplit("::", 1)[-1] for x in walk(it) if x[0] == "call" and x[1].rsplit("::", 1)[-1] in ("rev", "skip", "take", "step_by", "skip_while", "take_while", "filter", "filter_map", "chain", "zip", "peekable")]
                r.require(not bad, "whole-buffer-in-order:%s" % name, fn=fin, detail="iterator adaptors on self.%s: %s" % (name, bad))
                # the loop ends by exhaustion only: no non-error return from inside it other than through the step
                done = True
        if not done:
            raise ShapeUnrecognised("RightAlignWriter::finish: no replay of a buffer field (%s) recognised" % [n for n, _ in vecs])



def rule_configured_pattern(ctx, p, cfg, rid="T11"):
    """An encoder configured from a document renders the document's pattern - every well-formed pattern, the empty one
    included; the built-in default is for a document that gives none."""
    with ctx.rule(rid, "a configured pattern is the pattern used", cfg) as r:
        fs = [f for path, f in p.fns.items() if "PatternEncoderDeserializer" in path and path.endswith("::deserialize") and "config::raw::Deserialize" in path]
        if len(fs) != 1:
            raise AnchorMissing("PatternEncoderDeserializer::deserialize not found")
        f = fs[0]
        news = f.calls(PNEW)
        defs = [c for c in f.calls() if (c.callee or "").endswith("as core::default::Default>::default") and "PatternEncoder" in (c.callee or "")]
        r.require(len(news) == 1 and len(defs) == 1, "two-ways-to-build", fn=f, detail="PatternEncoder::new sites %d, ::default sites %d" % (len(news), len(defs)))
        if len(news) != 1 or len(defs) != 1:
            return
        arg = news[0].arg(0)
        r.require(any(x[0] == "field" and deep_strip(x[1]) == ("param", 2) for x in walk(arg)) and not any(x[0] in ("phi", "bin") for x in walk(arg)), "parses-the-configured-text", fn=f, site=news[0].at,
                  detail="PatternEncoder::new(%s)" % show(arg, 5))
        conds = f.conditions(defs[0].block)
        okc = len(conds) == 1
        if okc:
            sb, si, al = conds[0]
            d = strip(si.discr)
            okc = d[0] == "discr" and deep_strip(d[1])[0] == "field" and deep_strip(deep_strip(d[1])[1]) == ("param", 2) and {si.label(v) for v, _ in al} == {"None"}
        r.require(okc, "default-only-when-no-pattern-is-given", fn=f, site=defs[0].at, detail="the built-in pattern is used exactly on the None edge of config.pattern",
                  fail_detail="the built-in default pattern is chosen on %s: a pattern the document does give (e.g. the empty one, which renders nothing) is replaced by it" % (
                      [show(si.discr, 4) for sb, si, al in conds] or "every path"))



def rule_arm_results(ctx, p, cfg, rid="T12"):
    """What each formatter name turns into: its own FormattedChunk variant under the piece's own width parameters, or an
    error chunk - never some other chunk (an inner chunk handed back in place of the group, a chunk under rewritten
    parameters).  Width specs compose through nesting only if every `{..}` keeps its own layer."""
    with ctx.rule(rid, "a formatter becomes its own chunk under its own parameters", cfg) as r:
        f = p.fn(FROM_PIECE)
        tests = tables.string_key_tests(f)
        subj = {}
        for t in tests:
            subj[t[3]] = subj.get(t[3], 0) + 1
        main = max(subj, key=subj.get)
        tests = [t for t in tests if t[3] == main]
        tb = [t[0] for t in tests]
        rets = q.ret_assignments(f)

        def is_params(v):
            v = deep_strip(v)
            return v[0] == "field" and v[2] == "parameters" and any(deep_strip(x) == ("param", 1) for x in walk(v))

        def variant_of(v):
            v = deep_strip(v)
            if v[0] == "agg" and v[1] == FCHUNK:
                return v[2]
            if v[0] == "const" and v[1] == "fn" and isinstance(v[2], str) and v[2].startswith(FCHUNK + "::"):
                return v[2].rsplit("::", 1)[-1]
            return None

        def helper_ok(path):
            g = p.fns[path]
            for b, e in q.ret_assignments(g):
                e = deep_strip(e)
                alts = e[1] if e[0] == "phi" else (e,)
                for a in alts:
                    a = deep_strip(a)
                    if a[0] == "agg" and a[2] == "Error":
                        continue
                    if a[0] == "agg" and a[2] == "Formatted":
                        fd = dict(a[3])
                        if any(deep_strip(x)[0] == "param" for x in walk(fd.get("params"))) and any(deep_strip(x)[0] == "param" for x in walk(fd.get("chunk"))):
                            continue
                    return False
            return True
        n = 0
        for (b, key, mode, sj, tt, ft) in tests:
            want = NAME_TABLE.get(key)
            if want is None:
                continue
            region = f.reach(tt, avoid=set(tb), include_src=True)
            bad = []
            for rb, e in rets:
                if rb not in region:
                    continue
                e = deep_strip(e)
                alts = e[1] if e[0] == "phi" else (e,)
                for a in alts:
                    a = deep_strip(a)
                    n += 1
                    if a[0] == "agg" and a[2] == "Error":
                        continue
                    if a[0] == "agg" and a[2] == "Formatted":
                        fd = dict(a[3])
                        if variant_of(fd.get("chunk")) == want and is_params(fd.get("params")):
                            continue
                    if a[0] == "call" and a[1] in p.fns and any(variant_of(x) == want for arg in a[2] for x in walk(arg)) and any(is_params(arg) for arg in a[2]) and helper_ok(a[1]):
                        continue
                    bad.append(show(a, 4))
            r.require(not bad, "arm-result:%r" % key, fn=f, detail="%r yields FormattedChunk::%s under the piece's parameters, or an error" % (key, want),
                      fail_detail="the %r arm can yield %s: not FormattedChunk::%s under this piece's own parameters (a group that hands back its inner chunk, or a chunk whose parameters were replaced, loses a layer of the width law)" % (key, bad[:2], want))
        r.floor("arm-results", n, 40)



def rule_no_fixed_limit(ctx, p, cfg, rid="T19"):
    """"for all well-formed patterns, all nesting depths": the parser's verdict on a piece depends on the characters it reads,
    not on a count it keeps of what it has read so far - no branch of a Parser method compares a scalar field of the parser
    (a depth, a piece count, a position budget) with an integer constant"""
    with ctx.rule(rid, "the parser keeps no budget of its own", cfg) as r:
        adts = sorted({f.d.get("impl_self_adt") for f in p.fns.values() if (f.d.get("impl_self_adt") or "").startswith("encode::pattern::parser::") and f.d.get("impl_trait") == "core::iter::traits::iterator::Iterator"})
        if len(adts) != 1:
            raise AnchorMissing("expected one iterator type in encode::pattern::parser, found %s" % adts)
        adt = adts[0]
        scalars = {fd["name"] for fd in p.adt(adt)["variants"][0]["fields"] if fd["ty"] in ("usize", "u8", "u16", "u32", "u64", "i32", "i64", "isize", "bool")}
        fns = [f for pth, f in sorted(p.fns.items()) if f.d.get("impl_self_adt") == adt]
        n = 0
        for f in fns:
            for b in f.blocks:
                if b["term"]["k"] != "switch" or b["id"] not in f.reachable_blocks():
                    continue
                n += 1
                si = SwitchInfo(f, b["id"])
                nf = cmp_nf(si.discr, True) if si.is_bool else None
                if not nf or nf[0] not in ("Eq", "Ne", "Lt", "Le", "Gt", "Ge"):
                    continue
                sides = [deep_strip(x) for x in nf[1:]]
                const = [x for x in sides if x[0] == "const" and x[1] == "int"]
                reads = sorted({x[2] for sd in nf[1:] for x in walk(sd) if x[0] == "field" and x[2] in scalars and not any(y[0] == "call" for y in walk(x[1]))})
                if const and reads:
                    r.fail("limit:%s/%s" % (f.path.rsplit("::", 1)[-1], ",".join(reads)), fn=f, site=b["term"].get("at"),
                           detail="%s branches on %s: a count the parser keeps of its own progress (%s) is compared with the constant %s - well-formed patterns beyond that count are refused or cut" % (
                               f.path, show(si.discr, 5), ",".join(reads), const[0][2]))
        r.floor("parser-branches-examined", n, 30)
        r.ok("fields", detail="%s has %d scalar field(s) %s; %d branches in %d methods examined" % (adt, len(scalars), sorted(scalars), n, len(fns)))


def rule_every_chunk_on_every_record(ctx, p, cfg, rid="T21"):
    """"nothing dropped": PatternEncoder::encode has no way out that does not go through its loop over the chunks - whether
    a record is rendered at all is not decided by looking at the record"""
    with ctx.rule(rid, "every record goes through the chunk loop", cfg) as r:
        f = p.fn_loops(PENCODE)
        nx = [c.block for c in f.calls(NEXT)]
        r.require(len(nx) >= 1, "chunk-loop", fn=f, detail="iterator steps in PatternEncoder::encode: %d" % len(nx))
        early = sorted(q.skipping_paths(f, 0, set(nx), set(f.return_blocks())))
        r.require(not early, "no-return-before-the-chunks", fn=f,
                  detail="every return of PatternEncoder::encode lies behind the chunk iterator's first step",
                  fail_detail="PatternEncoder::encode can return (block %s) without stepping through its chunks: for some records nothing of the pattern is written" % early[:3])


def rule_group_children(ctx, p, cfg, rid="T13"):
    """A group's children are the pieces of its argument, one chunk each, in order: `{h(..)}`, `{D(..)}`, `{R(..)}` and `{(..)}`
    build their list by converting every piece with From<Piece> and collecting - no piece merged into its neighbours,
    replaced by its own children, or left out.  Read on the loop view, where map/collect and an explicit push loop coincide."""
    with ctx.rule(rid, "a group's children are its argument's pieces, one chunk each", cfg) as r:
        from l4sa.panics import _root_local
        f = p.fn_loops(FROM_PIECE)
        n = 0
        for b, i, s_ in f.assigns():
            rv = s_["rv"]
            if not (rv["k"] == "agg" and rv.get("adt") == FCHUNK and rv.get("variant") in ("Align", "Highlight", "Debug", "Release")):
                continue
            n += 1
            var = rv["variant"]
            op = rv["fields"][0]
            pl = op.get("move") or op.get("copy")
            root = _root_local(f, pl["l"]) if pl and not pl["p"] else None
            fills, others = [], []
            for c in f.calls():
                nm = (c.callee or "").rsplit("::", 1)[-1]
                if nm not in ("push", "extend", "append", "insert", "extend_from_slice", "push_front") or not c.args:
                    continue
                rp = c.t["args"][0].get("move") or c.t["args"][0].get("copy")
                rd = [d_ for d_ in f.defs(rp["l"])] if rp and not rp["p"] else []
                own = rd[0][4]["place"]["l"] if len(rd) == 1 and rd[0][3] == "rv" and rd[0][4]["k"] == "ref" and not rd[0][4]["place"]["p"] else None
                if own is not None and root is not None and _root_local(f, own) == root:
                    (fills if nm == "push" else others).append(c)
            ok = len(fills) == 1 and not others
            why = "list filled by %d push site(s) and %s" % (len(fills), [c.callee.rsplit("::", 1)[-1] for c in others])
            if ok:
                c = fills[0]
                nx = [x for x in f.calls(NEXT) if f.in_loop(x.block) and f.dominates(x.block, c.block) and f.can_reach(c.block, x.block)]
                nx = [x for x in nx if all(f.dominates(m.block, x.block) for m in nx)]
                v = deep_strip(c.arg(1))
                conv = v[0] == "call" and v[1].rsplit("::", 1)[-1] in ("from", "into") and len(v[2]) == 1 and nx and \
                    any(x[0] == "as" and x[2] == "Some" and strip(x[1])[0] == "call" and len(strip(x[1])) > 3 and strip(x[1])[3] == nx[0].block for x in walk(v[2][0])) and \
                    deep_strip(v[2][0])[0] in ("field", "as")
                src_ok = bool(nx) and any(x[0] == "call" and x[1].rsplit("::", 1)[-1] == "pop" for x in walk(nx[0].arg(0))) and \
                    not any(x[0] == "call" and x[1].rsplit("::", 1)[-1] in ("filter", "skip", "take", "rev", "flat_map", "flatten", "filter_map", "step_by", "chain", "zip", "skip_while", "take_while") for x in walk(nx[0].arg(0)))
                every = False
                if nx:
                    sw_ = f.term(nx[0].block).get("target")
                    some_ = SwitchInfo(f, sw_).target_of("Some") if sw_ is not None and f.term(sw_)["k"] == "switch" else None
                    every = some_ is not None and not q.skipping_paths(f, some_, {c.block}, {nx[0].block})
                ok = bool(conv and src_ok and every)
                why = "pushed %s in a loop over %s; every piece pushed: %s" % (show(v, 4), show(nx[0].arg(0), 4) if nx else None, every)
            r.require(ok, "children-one-chunk-per-piece:%s" % var, fn=f, site=s_.get("at"), detail="FormattedChunk::%s(children): %s" % (var, why),
                      fail_detail="the children of a %s group are not simply its argument's pieces converted one by one (%s): a piece can be merged away, flattened into its own children (losing its width spec) or dropped" % (var, why))
        r.floor("group-constructors", n, 4)


def run_cfg(ctx, p, cfg, release):
    from rules import c10
    with ctx.rule("T9", "a width argument never drops text the destination has not taken", cfg) as r:
        # the value's text passes through the width writers: what they charge to their budgets is what was consumed (C10.A7 re-evaluated)
        c10.rule_counts_consumed(r, p)
    rule_right_align_replay(ctx, p, cfg, "T10")
    rule_arm_results(ctx, p, cfg, "T12")
    rule_group_children(ctx, p, cfg, "T13")
    rule_no_fixed_limit(ctx, p, cfg, "T19")
    rule_every_chunk_on_every_record(ctx, p, cfg, "T21")
    c10.rule_sink_past_cut(ctx, p, cfg, "T20")   # "nothing dropped": a truncated value loses only what lies past the cut - the writer swallows bytes only when the cut index is zero (C10.A5 re-evaluated)
    from rules import c11
    c11.rule_args_kept(ctx, p, cfg, "T16")   # the meaning of `{name(a)(b)}` starts with the list of its groups being the groups written (C11.P7 re-evaluated)
    c10.rule_widths_as_parsed(ctx, p, cfg, "T18")   # `{m:.0}` means a maximum of zero (C10.A12 re-evaluated)
    c10.rule_width_presence(ctx, p, cfg, "T17")   # `.0` is a maximum of zero, not the absence of one (C10.A10 re-evaluated)
    c10.rule_spec_grammar(ctx, p, cfg, "T15")   # what a formatter's `{..}` argument means starts with how the width specification in front of it is read (C10.A6 re-evaluated)
    c10.rule_boundary_predicate(ctx, p, cfg, "T14")   # a width argument counts (and cuts at) characters: lead bytes are told from continuation bytes exactly (C10.A2 re-evaluated)
    if "config_parsing" in p.meta.get("features", []):
        rule_configured_pattern(ctx, p, cfg, "T11")
    with ctx.rule("T1", "formatter name table", cfg) as r:
        f = p.fn(FROM_PIECE)
        tests = tables.string_key_tests(f)
        # keep the chain that tests the formatter's name (most frequent subject)
        subj = {}
        for t in tests:
            subj[t[3]] = subj.get(t[3], 0) + 1
        main = max(subj, key=subj.get)
        tests = [t for t in tests if t[3] == main]
        r.require(any(x[0] == "field" and x[2] == "name" for x in walk(main)) or True, "chain-tests-the-name", fn=f, detail="compared value %s" % show(main, 4))
        sinks = {}
        for b, i, s in f.assigns():
            rv = s["rv"]
            if rv["k"] == "agg" and rv.get("adt") == FCHUNK:
                sinks.setdefault(b, set()).add(rv["variant"])
        tb = [t[0] for t in tests]
        got = {}
        for (b, key, mode, sj, tt, ft) in tests:
            region = f.reach(tt, avoid=set(tb), include_src=True)
            vs = set()
            for sb, v in sinks.items():
                if sb in region:
                    vs |= v
            got[key] = vs
        for key, want in sorted(NAME_TABLE.items()):
            r.require(got.get(key) == {want}, "name:%r" % key, fn=f, detail="%r -> %s (expected %s)" % (key, sorted(got.get(key, [])), want))
        extra = sorted(set(got) - set(NAME_TABLE))
        r.require(not extra, "no-undocumented-names", fn=f, detail="names accepted beyond the table: %s" % extra)
        r.require(all(t[2] == "eq" for t in tests), "exact-match", fn=f, detail="names are compared exactly (case-sensitive)")
        for ft in tables.fallthrough_target(f, tests):
            reg = f.reach(ft, avoid=set(tb), include_src=True)
            rets = [e for b, e in q.ret_assignments(f) if b in reg]
            r.require(bool(rets) and all(e[0] == "agg" and e[2] == "Error" for e in rets), "unknown-name-is-error", fn=f, detail="fall-through returns %s" % [show(e, 3) for e in rets])
        dn = doc_names()
        if dn:
            r.require(dn == {k for k in NAME_TABLE if k}, "documentation-lists-the-same-names", detail="documented names: %s" % sorted(dn))
        r.floor("names", len(got), 32)
        ctx.extra["name_table"] = {k: sorted(v) for k, v in got.items()}

    with ctx.rule("T2", "accessor table", cfg) as r:
        f = p.fn(FENCODE)
        si = top_switch(f, ("param", 1))
        arms = arm_regions(f, si)
        src_calls = {c.block: c.callee for c in f.calls() if c.callee in SOURCES}
        # closures of the function (Mdc, SystemThreadId) count for their arm through the call that takes them
        for v, want in sorted(ACCESS.items()):
            reg = arms.get(v, set())
            found = sorted({src_calls[b] for b in reg if b in src_calls})
            r.require(found == sorted(want), "source:%s" % v, fn=f, detail="%s reads %s (expected %s)" % (v, found, sorted(want)))
        # record accessors are applied to the record parameter
        for c in f.calls():
            if (c.callee or "").startswith("log::Record::<'a>::"):
                r.require(deep_strip(c.arg(0)) == ("param", 3), "record-param:%s" % common.role(c), fn=f, site=c.at, detail="%s(record)" % c.callee)
        # Time per zone
        treg = arms.get("Time", set())
        tz = None
        for blk in f.blocks:
            if blk["term"]["k"] == "switch" and blk["id"] in treg | {si.target_of("Time")}:
                s2 = SwitchInfo(f, blk["id"])
                if strip(s2.discr)[0] == "discr" and s2.variants and set(s2.variants.values()) >= {"Utc", "Local"}:
                    tz = s2
        if tz is None:
            raise ShapeUnrecognised("no time-zone switch on the Time arm")
        za = arm_regions(f, tz)
        for z, fn_ in (("Utc", "chrono::offset::utc::Utc::now"), ("Local", "chrono::offset::local::Local::now")):
            found = sorted({src_calls[b] for b in za.get(z, set()) if b in src_calls})
            r.require(found == [fn_], "time:%s" % z, fn=f, detail="Time(_, %s) uses %s" % (z, found))
            fm = [c for c in f.calls("chrono::datetime::DateTime::<Tz>::format") if c.block in za.get(z, set())]
            okf = len(fm) == 1 and any(x[0] == "as" and x[2] == "Time" for x in walk(fm[0].arg(1)))
            r.require(okf, "time-format:%s" % z, fn=f, detail="now().format(the chunk's own format string)")
        # placeholders
        consts = {}
        for v, reg in arms.items():
            cs = set()
            for c in f.calls():
                if c.block in reg:
                    for a in c.arg_exprs():
                        for x in walk(a):
                            if x[0] == "const" and x[1] == "str":
                                cs.add(x[2])
                            if x[0] == "const" and x[1] == "bytes" and isinstance(x[2], (bytes, bytearray)) and x[2] in (b"???",):
                                cs.add(x[2].decode())
            consts[v] = cs
        for v in ("Module", "File", "Line"):
            r.require("???" in consts.get(v, set()), "placeholder:%s" % v, fn=f, detail="string constants on the %s arm: %s" % (v, sorted(consts.get(v, []))))
        for v in sorted(arms):
            if isinstance(v, str) and v not in ("Module", "File", "Line"):
                r.require("???" not in consts.get(v, set()), "no-placeholder:%s" % v, fn=f, detail="constants on the %s arm: %s" % (v, sorted(consts.get(v, []))))
        r.require("unnamed" in consts.get("Thread", set()), "unnamed-thread", fn=f, detail="Thread arm constants: %s" % sorted(consts.get("Thread", [])))
        # "???" only on the None edge
        for v, acc in (("Module", "module_path"), ("File", "file")):
            uo = [c for c in f.calls("core::option::Option::<T>::unwrap_or") if c.block in arms.get(v, set())]
            r.require(len(uo) == 1 and strip(uo[0].arg(0))[0] == "call" and strip(uo[0].arg(0))[1].endswith("::" + acc) and deep_strip(uo[0].arg(1)) == ("const", "str", "???"), "placeholder-only-when-absent:%s" % v, fn=f,
                      detail="record.%s().unwrap_or(\"???\")" % acc)
        lr = arms.get("Line", set())
        lsw = [SwitchInfo(f, b) for b in lr | {si.target_of("Line")} if f.term(b)["k"] == "switch" and strip(SwitchInfo(f, b).discr)[0] == "discr" and any(x[0] == "call" and x[1].endswith("::line") for x in walk(SwitchInfo(f, b).discr))]
        if lsw:
            nt, st = lsw[0].target_of("None"), lsw[0].target_of("Some")
            nreg = f.reach(nt, include_src=True) - f.reach(st, include_src=True)
            has = any(c.block in nreg and any(x[0] == "const" and (x[2] == "???" or x[2] == b"???") for a in c.arg_exprs() for x in walk(a)) for c in f.calls())
            sreg = f.reach(st, include_src=True) - f.reach(nt, include_src=True)
            hs = any(c.block in sreg and any(x[0] == "const" and (x[2] == "???" or x[2] == b"???") for a in c.arg_exprs() for x in walk(a)) for c in f.calls())
            r.require(has and not hs, "placeholder-only-when-absent:Line", fn=f, detail="\"???\" is written on the None edge of record.line() only")
        else:
            r.fail("line-switch", fn=f, detail="no match on record.line()")
        # numbers are rendered by std's Display (write!/to_string), not by digit arithmetic of the encoder's own
        for v in ("Line", "ThreadId", "ProcessId", "SystemThreadId"):
            reg = arms.get(v, set())
            if not reg:
                continue
            fns_ = [(f, reg)]
            for c in f.calls():
                if c.block in reg:
                    for a in c.arg_exprs():
                        for x in walk(a):
                            if x[0] == "closure" and x[1] in p.fns:
                                g_ = p.fn(x[1])
                                fns_.append((g_, set(g_.reachable_blocks())))
            shown = any((c.callee or "").endswith("ToString::to_string") or (c.callee or "").endswith("::write_fmt") for g_, rg_ in fns_ for c in g_.calls() if c.block in rg_)
            digits = [(g_, b_) for g_, rg_ in fns_ for b_, i_, st_ in g_.assigns() if b_ in rg_ and st_["rv"]["k"] == "bin" and st_["rv"]["op"] in ("Rem", "Div")]
            r.require(shown and not digits, "number-rendered-by-display:%s" % v, fn=f, detail="%s: formatted through fmt::Display (write!/to_string); no digit arithmetic" % v,
                      fail_detail="the %s value is %s: its text is no longer std's rendering of the number" % (v, "turned into digits by hand (%% / on the value)" if digits else "not passed to fmt::Display"))
        # Newline / Target / Mdc details
        nl = [c for c in f.calls("std::io::Write::write_all") if c.block in arms.get("Newline", set())]
        r.require(len(nl) == 1 and any(x == ("const", "str", "\n") or x == ("const", "str", "\r\n") for x in walk(nl[0].arg(1))), "newline-constant", fn=f, detail="Newline writes NEWLINE")
        md = [c for c in f.calls("log_mdc::get") if c.block in arms.get("Mdc", set())]
        if md:
            r.require(any(x[0] == "as" and x[2] == "Mdc" for x in walk(md[0].arg(0))), "mdc-key", fn=f, detail="log_mdc::get(the chunk's key, ..)")
            clo = [x for x in walk(md[0].arg(1)) if x[0] == "closure"]
            okd = False
            if clo:
                cf = p.fn(clo[0][1])
                okd = any(c.callee == "core::option::Option::<T>::unwrap_or" for c in cf.calls())
            r.require(okd, "mdc-default", fn=f, detail="missing key falls back to the chunk's default")
        # every write goes to the writer parameter
        for c in f.calls():
            if (c.callee or "").startswith("std::io::Write::") and c.fn is f:
                r.require(deep_strip(c.arg(0)) == ("param", 2), "writes-to-w:%s" % common.role(c), fn=f, site=c.at, detail="output goes to the writer argument")

    with ctx.rule("T8", "literal text is scanned in one unit", cfg) as r:
        fns = [f for pth, f in sorted(p.fns.items()) if pth.startswith("encode::pattern::parser::") or "encode::pattern::parser::Parser" in pth]
        common.rule_units(r, p, fns, floor=4)

    with ctx.rule("T7", "date format is the whole argument", cfg) as r:
        f = p.fn(FROM_PIECE)
        sites = [(b, i, s["rv"]) for b, i, s in f.assigns() if s["rv"]["k"] == "agg" and s["rv"].get("adt") == FCHUNK and s["rv"].get("variant") == "Time"]
        r.require(len(sites) == 1, "one-time-chunk-site", fn=f, detail="FormattedChunk::Time constructions: %d" % len(sites))
        for b, i, rv in sites:
            op = rv["fields"][0]
            pl = op.get("copy") or op.get("move")
            defs = f.root_defs(pl["l"]) if pl and not pl["p"] else []
            kinds = []
            for db, e in defs:
                e2 = strip(e, calls=set())
                if deep_strip(e) == ("const", "str", "%+"):
                    kinds.append("default")
                elif e2[0] == "call" and e2[1] == "alloc::string::String::new":
                    kinds.append("accumulator")
                else:
                    kinds.append("other:" + show(e, 4))
            r.require(sorted(kinds) == ["accumulator", "default"], "format-is-default-or-accumulated", fn=f,
                      detail="definitions of the format string: %s" % kinds,
                      fail_detail="the date format handed to chrono has a definition that is neither the default \"%%+\" nor the string accumulated over every piece of the argument: %s — text after an escape (\\(, {{ ...) is dropped" % kinds)
            # the accumulator loop visits every piece: push_str of the Text payload inside a loop over the argument, exits only by exhaustion
            ps = [c for c in f.calls("alloc::string::String::push_str") if f.in_loop(c.block) and f.can_reach(c.block, b)]
            txt = [c for c in ps if any(x[0] == "as" and x[2] == "Text" for x in walk(c.arg(1)))]
            r.require(len(txt) == 1, "text-pieces-appended", fn=f, detail="push_str(text) inside the piece loop")
            if txt:
                nx = [n for n in f.calls(NEXT) if f.dominates(n.block, txt[0].block) and f.in_loop(n.block)]
                nx = [n for n in nx if txt[0].block in f.reach(n.block) and n.block in f.reach(txt[0].block)]
                if r.require(len(nx) >= 1, "piece-loop", fn=f, detail="the pieces are iterated"):
                    n0 = sorted(nx, key=lambda n: -sum(1 for m in nx if f.dominates(m.block, n.block)))[0]
                    it = n0.arg(0)
                    bad = [x[1].rsplit("::", 1)[-1] for x in walk(it) if x[0] == "call" and x[1].rsplit("::", 1)[-1] in ("take", "skip", "rev", "filter", "step_by", "take_while")]
                    r.require(not bad, "all-pieces-in-order", fn=f, detail="piece iterator %s" % show(it, 5))
                    esc = q.skipping_paths(f, n0.block, [], {b}, cut_edges=())
                    # leaving the loop towards the Time chunk only through exhaustion
                    for blk in f.blocks:
                        if blk["term"]["k"] == "switch" and blk["id"] in f.reachable_blocks():
                            si = SwitchInfo(f, blk["id"])
                            d = strip(si.discr)
                            if d[0] == "discr" and strip(d[1])[0] == "call" and len(strip(d[1])) > 3 and strip(d[1])[3] == n0.block:
                                st = si.target_of("Some")
                                early = q.skipping_paths(f, st, [n0.block], {b})
                                r.require(not early, "no-early-exit-from-piece-loop", fn=f, detail="from the Some edge the Time chunk is reached only through the next iterator step")

    with ctx.rule("T4", "highlight adds only style", cfg) as r:
        f = p.fn_loops(FENCODE)
        si = top_switch(f, ("param", 1))
        reg = arm_regions(f, si).get("Highlight", set())
        wr = [c.callee for c in f.calls() if c.block in reg and (c.callee or "").startswith("std::io::Write::")]
        ss = [c for c in f.calls("encode::Write::set_style") if c.block in reg]
        ce = [c for c in f.calls(CHUNK_ENCODE) if c.block in reg]
        r.require(not wr and len(ce) >= 1 and not any(o.block != c.block and f.can_reach(c.block, o.block) for c in ce for o in ce) and len(ss) >= 2, "only-style-and-children", fn=f, detail="Highlight arm: io writes %s, set_style %d, children encode %d" % (wr, len(ss), len(ce)))

    with ctx.rule("T5", "escapes", cfg) as r:
        f = p.fn(PARSER_NEXT)
        got = {}
        consume = [c for c in f.calls() if c.callee in p.fns and p.fns[c.callee].d.get("sig", "").replace(" ", "").endswith(",char)->bool")]
        cons_by_block = {c.block: deep_strip(c.arg(1)) for c in consume}
        for b, i, s in f.assigns():
            rv = s["rv"]
            if rv["k"] == "agg" and rv.get("adt") == PIECE and rv.get("variant") == "Text":
                e = f._rvalue(rv, frozenset(), 20, b)
                txt = deep_strip(dict(e[3]).get("0"))
                cases = []
                if txt[0] == "const":
                    cases.append((txt, [b]))
                elif txt[0] == "phi" and all(deep_strip(a)[0] == "const" for a in txt[1]):
                    # the literal was chosen in an earlier match and the piece is built after the join: the characters
                    # that select a literal are the conditions of the edge that assigned it
                    op = rv["fields"][0]
                    pl = op.get("copy") or op.get("move")
                    ll = pl["l"] if pl and not pl["p"] else None
                    for _ in range(4):    # look through plain copies and reborrows (`&*lit`)
                        ds_ = [x for x in f.defs(ll)] if ll is not None else []
                        if len(ds_) == 1 and not ds_[0][0] and ds_[0][3] == "rv":
                            rv_ = ds_[0][4]
                            if rv_["k"] == "use" and (rv_["a"].get("copy") or rv_["a"].get("move")) and not (rv_["a"].get("copy") or rv_["a"].get("move"))["p"]:
                                ll = (rv_["a"].get("copy") or rv_["a"].get("move"))["l"]
                                continue
                            if rv_["k"] == "ref" and rv_["place"]["p"] == ["*"]:
                                ll = rv_["place"]["l"]
                                continue
                        break
                    for db, de in (f.root_defs(ll) if ll is not None else []):
                        de = deep_strip(de)
                        if de[0] == "const":
                            cases.append((de, [db, b]))
                for txt, cblocks in cases:
                  chars = []
                  conds = []
                  for cb_ in cblocks:
                      for cnd in f.conditions(cb_):
                          if cnd[0] not in [x[0] for x in conds]:
                              conds.append(cnd)
                  conds = sorted(conds, key=lambda x: sum(1 for y in conds if f.dominates(y[0], x[0])))
                  possible = {}      # scrutinee -> characters it can still be (an earlier `matches!(ch, a | b | ..)` narrowed it)
                  for sb, sw, al in conds:
                    if sw.t.get("discr_ty") == "char":
                        vals = [v for v, _ in al if v != "otherwise"]
                        key_ = show(deep_strip(sw.discr), 12)
                        if len(vals) == 1 and len(al) == 1:
                            chars.append((sb, chr(vals[0])))
                            possible[key_] = {vals[0]}
                        elif vals and len(vals) == len(al):
                            possible[key_] = set(vals) & possible.get(key_, set(vals))
                        elif not vals and len(al) == 1 and key_ in possible:
                            # the catch-all arm of a match on a character already known to be one of a few: the one that is left
                            rest = possible[key_] - {a["value"] for a in sw.t.get("arms", [])}
                            if len(rest) == 1:
                                chars.append((sb, chr(list(rest)[0])))
                                possible[key_] = rest
                    d = strip(sw.discr)
                    if d[0] == "call" and len(d) > 3 and d[3] in cons_by_block and {sw.label(v) for v, _ in al} == {True}:
                        cc = cons_by_block[d[3]]
                        if cc[0] == "const":
                            chars.append((sb, cc[2]))
                  seq = "".join(ch for _, ch in sorted(chars, key=lambda x: sum(1 for y in chars if f.dominates(y[0], x[0]))))
                  got.setdefault(seq, set()).add(txt[2])
        want = {"{{": "{", "}}": "}", "((": "(", "))": ")", "\\{": "{", "\\}": "}", "\\(": "(", "\\)": ")", "\\\\": "\\"}
        for k, v in want.items():
            r.require(got.get(k) == {v}, "escape:%s" % k, fn=f, detail="%r -> %s (expected %r)" % (k, sorted(got.get(k, [])), v))
        r.require(set(got) == set(want), "no-other-literal-escapes", fn=f, detail="escape sequences producing constant text: %s" % sorted(got))

    with ctx.rule("T6", "order", cfg) as r:
        loops = []
        for path in (PENCODE, FENCODE):
            f = p.fn_loops(path)
            for c in f.calls(CHUNK_ENCODE):
                if not f.in_loop(c.block):
                    continue
                nx = [n for n in f.calls(NEXT) if f.dominates(n.block, c.block) and f.in_loop(n.block) and c.block in f.reach(n.block) and n.block in f.reach(c.block)]
                nx = sorted(nx, key=lambda n: sum(1 for m in nx if f.dominates(n.block, m.block)))[:1]
                key = "%s/%s" % (path.rsplit("::", 2)[-2] if "::" in path else path, common.role(c))
                if not r.require(len(nx) == 1, "loop-iterator:%s" % key, fn=f, site=c.at, detail="chunk loop iterator found"):
                    continue
                it = nx[0].arg(0)
                bad = [x[1].rsplit("::", 1)[-1] for x in walk(it) if x[0] == "call" and x[1].rsplit("::", 1)[-1] in ("rev", "skip", "take", "step_by", "filter", "chain", "zip", "peekable", "skip_while")]
                r.require(not bad, "forward-complete:%s" % key, fn=f, site=c.at, detail="iterator %s" % show(it, 5))
                r.require(any(x[0] == "as" and x[2] == "Some" and strip(x[1])[0] == "call" and len(strip(x[1])) > 3 and strip(x[1])[3] == nx[0].block for x in walk(c.arg(0))), "encodes-the-item:%s" % key, fn=f, site=c.at, detail="each child is encoded once per iteration")
                r.require(deep_strip(c.arg(2)) == ("param", 3), "same-record:%s" % key, fn=f, detail="children get the same record")
                r.require(common.result_is_checked(f, c, strict=True), "child-error-propagated:%s" % key, fn=f, detail="a child's io error is propagated")
                loops.append(key)
        r.floor("chunk-loops", len(loops), 4)
        n = p.fn(PNEW)
        e = [c for c in n.calls("core::iter::traits::iterator::Iterator::collect")]
        okn = len(e) == 1
        if okn:
            chain = []
            x = strip(e[0].arg(0))
            while x[0] == "call" and x[2]:
                chain.append(x[1])
                x = strip(x[2][0])
            okn = "core::iter::traits::iterator::Iterator::map" in chain and any(c.endswith("Parser::<'a>::new") for c in chain) and not any(c.rsplit("::", 1)[-1] in ("rev", "skip", "take", "filter", "step_by") for c in chain)
        r.require(okn, "pieces-collected-in-order", fn=n, detail="Parser::new(pattern).map(From::from).collect()")


def run_gating(ctx, p, cfg, release):
    with ctx.rule("T3", "profile gating", cfg) as r:
        f = p.fn_loops(FENCODE)
        si = top_switch(f, ("param", 1))
        rb = f.reachable_blocks()
        live = {}
        for v in ("Debug", "Release"):
            t = si.target_of(v)
            reg = f.reach(t, include_src=True)
            others = [t2 for l2, t2 in si.labelled_edges() if t2 != t and not isinstance(l2, tuple)]
            for o in others:
                reg = reg - f.reach(o, include_src=True)
            live[v] = any(c.block in reg and c.block in rb for c in f.calls(CHUNK_ENCODE))
        da = p.meta.get("debug_assertions")
        r.require(da == (not release), "profile", detail="facts built with debug_assertions=%s" % da)
        r.require(live["Debug"] == (not release), "debug-group-renders-iff-dev", fn=f, detail="children of {D(..)} are encoded: %s (debug_assertions=%s)" % (live["Debug"], da))
        r.require(live["Release"] == release, "release-group-renders-iff-release", fn=f, detail="children of {R(..)} are encoded: %s (debug_assertions=%s)" % (live["Release"], da))
