"""C11 — any pattern string is safe: no panic, errors surface as {ERROR: ...} markers."""
import re

from l4sa import q, panics
from l4sa.core import AnchorMissing, ShapeUnrecognised, SwitchInfo, strip, deep_strip, walk, show, calls_in, cmp_nf
from rules import common, c10

CLAIMED = True
TECHNIQUE = "static analysis over type-checked MIR: panic/abort-site inventory over the call-graph cone of PatternEncoder::new/encode/deserialize (overflow/bounds asserts, may-panic external contracts, fallible Display into write_fmt), discharged by dominating-guard must-facts or a construct-keyed allow-list; dominance of strftime validation over every Time chunk construction; checked width accumulation; error-marker template"
LEVEL_TEXT = """Static, all-paths decision that no un-discharged panic site is reachable from PatternEncoder::new, <PatternEncoder as Encode>::encode or the pattern deserializer (cone over resolved callees incl. closures and callbacks through external generics; cut at dyn Encode and at writers outside the pattern module): (P1) every MIR overflow/bounds/div assert and every call whose external contract is 'may panic' is discharged by a dominating guard (vector length / Option emptiness / non-zero must-facts), or by an allow-list entry keyed by function+construct+operand provenance with a stated reason; (P2) every construction of the Time chunk is dominated by a strftime validation of the same format string whose failure edge yields an error chunk (chrono's Display fails on bad directives and write_fmt would panic); (P3) the decimal width accumulator uses checked/saturating arithmetic only, with the overflow edge surfacing an error piece (dev and release configurations); (P4) the error arm of Chunk::encode writes '{ERROR: <msg>}' and every Piece::Error becomes Chunk::Error. Stack depth under nested patterns (parser/From recursion) is listed, not decided. (P7) in Parser::args every group parsed is pushed before the next is looked for or the list returned; (P8) nothing in the module's cone is sized by a parsed width. (P1, cont.) a run-time width or precision argument of a format string (`{:1$}`) is a panic site (core::fmt takes at most u16::MAX). (P9) each group formatter is built under `args.len() == 1` (or pop() is Some and nothing is left)."""
LEVEL_NOTE = "Trusted: rustc MIR/callee resolution; the external-contract table (an external callee not listed is assumed not to panic); io::Write contract (n <= buf.len()) for the inner writer; chrono's StrftimeItems reports every invalid directive as Item::Error. Conservative: a new un-discharged site in the cone is reported even if it cannot fail for reasons the dischargers do not see."
EXPLANATION = """Decided: P1 panic-site inventory over the cone (all sites discharged), P2 validated strftime formats, P3 checked width accumulation, P4 error rendering. Undecided: stack depth for deeply nested patterns (recursion noted), behaviour of the underlying writer (C18 owns the console/ANSI writers)."""
DECIDED = ["P1 panic inventory", "P2 strftime validated before use", "P3 checked width accumulation", "P4 {ERROR: ..} rendering", "P5 the parser's cursor moves before every piece it returns"]
UNDECIDED = ["recursion depth on nested patterns", "underlying writer behaviour"]
TRUSTED = ["rustc nightly MIR + Instance::try_resolve", "external may-panic contract table (l4sa/panics.py)", "io::Write contract of inner writers", "chrono StrftimeItems reports invalid directives as Item::Error"]

NEW = "encode::pattern::PatternEncoder::new"
ENCODE = "<encode::pattern::PatternEncoder as encode::Encode>::encode"
DESER = "<encode::pattern::PatternEncoderDeserializer as config::raw::Deserialize>::deserialize"
FROM_PIECE = "<encode::pattern::Chunk as core::convert::From<encode::pattern::parser::Piece<'a>>>::from"
CHUNK_ENCODE = "encode::pattern::Chunk::encode"
FCHUNK = "encode::pattern::FormattedChunk"
CHUNK = "encode::pattern::Chunk"
CUT = ("encode::Write", "std::io::Write", "encode::Encode", "append::Append", "filter::Filter")


def cone_of(p):
    ents = [NEW, ENCODE]
    if p.has_fn(DESER):
        ents.append(DESER)
    return p.cone(ents, cut_traits=CUT, impl_filter=lambda st, tr: st.startswith("encode::pattern::"))


def run(ctx):
    configs = ["default"] if ctx.tier == "quick" else ["default", "release", "full", "single:pattern_encoder"]
    for cfg in configs:
        run_cfg(ctx, ctx.prog(cfg), cfg)


ARGS_FN = "encode::pattern::parser::Parser::<'a>::args"
ARG_FN = "encode::pattern::parser::Parser::<'a>::arg"


def rule_args_kept(ctx, p, cfg, rid="P7"):
    """Wrong argument counts can only be surfaced if the arguments are counted as written: in Parser::args every group that
    arg() parsed is pushed onto the list - whatever it contains, an empty `()` included - before the next group is looked
    for or the list is returned."""
    with ctx.rule(rid, "every argument group written is counted", cfg) as r:
        f = p.fn_loops(ARGS_FN)
        cs = [c for c in f.calls() if c.callee == ARG_FN]
        if not cs:
            raise AnchorMissing("Parser::args does not call Parser::arg")
        pushes = {c.block for c in f.calls() if (c.callee or "").rsplit("::", 1)[-1] in ("push", "extend", "push_back") and c.args and
                  any(x[0] == "call" and x[1] == ARG_FN for x in walk(c.arg(1)))}
        r.require(bool(pushes), "argument-pushed", fn=f, detail="the parsed group is pushed onto the argument list")
        okrets = {b for b, e in q.ret_assignments(f) if q.classify_ret(e) != "err" and not q.is_from_residual(e)}
        for i, c in enumerate(cs):
            nxt = c.t.get("target")
            stops = okrets | {x.block for x in cs}
            hit = q.const_skipping_paths(f, nxt, pushes, stops) if nxt is not None else set()
            # the failure edge of `arg()?` returns the error: not a stop
            r.require(not hit, "group-kept-on-every-path#%d" % i, fn=f, site=c.at, detail="from arg()'s return no path reaches the next group or an Ok return without the push",
                      fail_detail="a group parsed by arg() can be dropped: bb%s is reached without pushing it (an empty `()` after a formatter that takes no arguments then goes unreported)" % sorted(hit))


SIZED = ("take", "with_capacity", "reserve", "reserve_exact", "resize", "resize_with", "from_elem", "repeat", "repeat_n", "extend_from_within", "try_reserve", "truncate")


def rule_no_width_sized_allocation(ctx, p, cfg, rid="P8"):
    """A width is any number that fits in a usize, and a minimum or maximum that large is legal as long as nothing is ever done
    `width` times ahead of the text: no function of the pattern module asks for memory (or builds a value) whose size is a parsed
    width - `String::with_capacity(min)`, `repeat(fill).take(min).collect()`, `vec![x; max]` fail with capacity overflow, or
    take the machine down, at construction or at the first record."""
    with ctx.rule(rid, "nothing is allocated in proportion to a parsed width", cfg) as r:
        seen, bad = 0, []
        for path in sorted(cone_of(p)):
            f = p.fns[path]
            for c in f.calls():
                nm = (c.callee or "").rsplit("::", 1)[-1]
                if nm not in SIZED or not c.args:
                    continue
                seen += 1
                for i, a in enumerate(c.arg_exprs()):
                    if any((x[0] == "call" and x[1] == c10.INTEGER_FN) or (x[0] == "field" and x[2] in ("min_width", "max_width")) for x in walk(a)):
                        bad.append((f, c, i))
        r.require(not bad, "no-allocation-by-width", fn=(bad[0][0] if bad else None), site=(bad[0][1].at if bad else None),
                  detail="size-taking calls in the pattern module's cone: %d, none sized by a parsed width" % seen,
                  fail_detail="%s(..) in %s is sized by a parsed width: `{m:9223372036854775808}` is a legal pattern and would make it allocate that much" % (
                      bad[0][1].callee if bad else "", bad[0][0].path if bad else ""))


GROUPS = ("Highlight", "Debug", "Release", "Align")


def rule_group_arity(ctx, p, cfg, rid="P9"):
    """A group formatter takes exactly one `(..)` group: the chunk is built only where the number of groups written was found
    to be one (`args.len() == 1`, in either polarity) - "there is at least one" (`pop()` gave Some) lets surplus groups, and the
    errors inside them, pass in silence."""
    with ctx.rule(rid, "a group formatter is built from exactly one group", cfg) as r:
        f = p.fn(FROM_PIECE)
        n = 0
        for (g, b, i, rv) in p.aggregates("encode::pattern::FormattedChunk"):
            if g.path != f.path or rv.get("variant") not in GROUPS:
                continue
            n += 1
            pc = q.path_condition(f, b)
            if pc is None:
                raise ShapeUnrecognised("the condition guarding a group chunk is a disjunction")
            ok = False
            for c in pc:
                neg = False
                d = c
                while isinstance(d, tuple) and d and d[0] == "un" and d[1] == "Not":
                    neg = not neg
                    d = d[2]
                nf = cmp_nf(d, not neg)
                if nf and nf[0] == "Eq" and any(deep_strip(x) == ("const", "int", 1) for x in nf[1:]) and \
                        any(y[0] == "call" and y[1].rsplit("::", 1)[-1] == "len" and any(z[0] == "field" and z[2] == "args" for z in walk(y)) for x in nf[1:] for y in walk(x)):
                    ok = True
            if not ok:
                # the same count taken apart: the last group was there (`pop()` gave Some) and nothing was left (`is_empty()`)
                popped = any(c[0] == "inset" and c[2] == ("Some",) and any(y[0] == "call" and y[1].rsplit("::", 1)[-1] == "pop" for y in walk(c[1])) for c in pc)
                emptied = any(deep_strip(c)[0] == "call" and deep_strip(c)[1].rsplit("::", 1)[-1] == "is_empty" for c in pc if c[0] != "inset")
                ok = popped and emptied
            r.require(ok, "exactly-one-group:%s#%d" % (rv.get("variant"), n), fn=f, detail="%s is built under args.len() == 1" % rv.get("variant"),
                      fail_detail="FormattedChunk::%s is built without the test that exactly one group was written: `{h(a)(b)}` is accepted, one group is used and the other dropped" % rv.get("variant"))
        r.floor("group-constructions", n, 4)


def run_cfg(ctx, p, cfg):
    rule_args_kept(ctx, p, cfg, "P7")
    rule_group_arity(ctx, p, cfg, "P9")
    rule_no_width_sized_allocation(ctx, p, cfg, "P8")
    satisfied = set()
    with ctx.rule("P2", "format strings are validated before use", cfg) as r:
        f = p.fn(FROM_PIECE)
        sites = []
        for g in p.fns.values():
            if "Derive" in (g.d.get("exp") or ""):
                continue  # derived Clone rebuilds an already validated value
            for b, i, s in g.assigns():
                rv = s["rv"]
                if rv["k"] == "agg" and rv.get("adt") == FCHUNK and rv.get("variant") == "Time":
                    sites.append((g, b, i, rv))
        r.require(len(sites) >= 1 and all(g.path == FROM_PIECE for g, b, i, rv in sites), "time-chunk-built-only-when-compiling-the-pattern",
                  detail="FormattedChunk::Time aggregates in: %s" % sorted({g.path for g, b, i, rv in sites}))
        allok = bool(sites)
        for n, (g, b, i, rv) in enumerate(sites):
            fmt = deep_strip(g.expr(rv["fields"][0]))
            ok, why = validated(g, b, fmt)
            r.require(ok, "time-format-validated#%d" % n, fn=g, site=None,
                      detail="FormattedChunk::Time(fmt, _): %s" % why,
                      fail_detail="FormattedChunk::Time is built from pattern text that is not validated as a strftime string (chrono's DelayedFormat::fmt errs on a bad directive and write_fmt panics at encode time): %s" % why)
            allok = allok and ok
        if allok:
            satisfied.add("C11.P2")

    with ctx.rule("P3", "width accumulation is checked", cfg) as r:
        cone = cone_of(p)
        accs = {}
        for x in cone:
            if p.fns[x].calls("core::char::methods::<impl char>::to_digit"):
                root = p.fns[x].d.get("closure_of") or x   # a digit test written inside a closure belongs to its function
                accs[root] = p.fn(root)
        accs = [accs[k] for k in sorted(accs)]
        r.require(len(accs) == 1, "accumulator-function", detail="functions in the cone parsing decimal digits: %s" % [a.path for a in accs])
        for f in accs:
            scope = [f] + p.closures_of(f.path)
            bad = []
            good = []
            for g in scope:
                for b, i, s in g.assigns():
                    rv = s["rv"]
                    if rv["k"] == "bin" and rv["op"] in ("Add", "Mul", "AddWithOverflow", "MulWithOverflow", "AddUnchecked", "MulUnchecked", "Shl"):
                        if rv["op"].startswith("Add") and panics.bounded_counter(g, b, [rv["a"], rv["b"]]):
                            continue   # a digit counter (one increment per consumed character), not the width being accumulated
                        if rv.get("ty") in ("usize", "u64", "u32", "u128", "i64", "isize"):
                            bad.append("%s %s @%s" % (rv["op"], rv.get("ty"), s.get("at")))
                for c in g.calls():
                    nm = (c.callee or "").rsplit("::", 1)[-1]
                    if nm.startswith("wrapping_") or nm.startswith("overflowing_") or nm.startswith("unchecked_"):
                        bad.append(c.callee)
                    if nm in ("checked_mul", "checked_add", "saturating_mul", "saturating_add"):
                        good.append(nm)
            r.require(not bad, "no-unchecked-arithmetic-on-width", fn=f,
                      detail="checked ops used: %s" % sorted(set(good)),
                      fail_detail="the decimal width accumulator uses unchecked arithmetic (%s): an absurd width panics in dev builds and wraps in release builds instead of surfacing an error" % bad)
            if not bad:
                r.require(("checked_mul" in good and "checked_add" in good) or ("saturating_mul" in good and "saturating_add" in good), "uses-checked-or-saturating", fn=f,
                          detail="accumulation by %s" % sorted(set(good)))
                satisfied.add("C11.P3")

    with ctx.rule("P4", "errors are rendered", cfg) as r:
        f = p.fn(CHUNK_ENCODE)
        top = None
        for blk in f.blocks:
            if blk["term"]["k"] == "switch" and blk["id"] in f.reachable_blocks():
                si = SwitchInfo(f, blk["id"])
                d = strip(si.discr)
                if d[0] == "discr" and deep_strip(d[1]) == ("param", 1):
                    top = si
                    break
        if top is None:
            raise ShapeUnrecognised("no variant switch on self in Chunk::encode")
        et = top.target_of("Error")
        if et is None:
            raise ShapeUnrecognised("Chunk::Error has no arm of its own")
        others = [t for lab, t in top.labelled_edges() if lab != "Error" and not isinstance(lab, tuple)]
        region = f.reach(et, include_src=True)
        for o in others:
            region = region - f.reach(o, include_src=True)
        wf = [c for c in f.calls("std::io::Write::write_fmt") if c.block in region]
        r.require(len(wf) == 1, "error-arm-writes", fn=f, detail="write_fmt calls on the Error arm: %d" % len(wf))
        for c in wf:
            a = c.arg(1)
            tmpl = [x[2] for x in walk(a) if x[0] == "const" and x[1] == "bytes" and x[2]]
            okt = any(b"{ERROR: " in t and t.rstrip(b"\x00").endswith(b"}") for t in tmpl)
            r.require(okt, "error-template", fn=f, site=c.at, detail="format template bytes: %s" % tmpl)
            msg = [x for x in walk(a) if x[0] == "call" and x[1] == "core::fmt::rt::Argument::<'_>::new_display"]
            okm = bool(msg) and any(y[0] == "as" and y[2] == "Error" for y in walk(msg[0]))
            r.require(okm, "error-message-shown", fn=f, site=c.at, detail="argument: %s" % (show(msg[0], 5) if msg else None))
            r.require(deep_strip(c.arg(0)) == ("param", 2), "written-to-the-output", fn=f, site=c.at, detail="writer %s" % show(c.arg(0)))
        # Piece::Error -> Chunk::Error
        g = p.fn(FROM_PIECE)
        ptop = None
        for blk in g.blocks:
            if blk["term"]["k"] == "switch" and blk["id"] in g.reachable_blocks():
                si = SwitchInfo(g, blk["id"])
                d = strip(si.discr)
                if d[0] == "discr" and deep_strip(d[1]) == ("param", 1):
                    ptop = si
                    break
        if ptop is None:
            raise ShapeUnrecognised("no variant switch on the piece in From<Piece>")
        pe = ptop.target_of("Error")
        oth = [t for lab, t in ptop.labelled_edges() if lab != "Error" and not isinstance(lab, tuple)]
        reg = g.reach(pe, include_src=True)
        for o in oth:
            reg = reg - g.reach(o, include_src=True)
        rets = [(b, e) for b, e in q.ret_assignments(g) if b in reg]
        okp = bool(rets) and all(e[0] == "agg" and e[1] == CHUNK and e[2] == "Error" and any(y[0] == "as" and y[2] == "Error" for y in walk(e)) for b, e in rets)
        r.require(okp, "piece-error-becomes-chunk-error", fn=g, detail="on the Piece::Error arm From returns %s" % [show(e, 4) for b, e in rets])
        # unknown formatter -> Chunk::Error (fallthrough of the name chain)
        allrets = q.ret_assignments(g)
        r.require(any(e[0] == "agg" and e[2] == "Error" and any(x[0] == "call" and x[1] == "alloc::fmt::format" for x in walk(e)) for b, e in allrets), "unknown-formatter-is-error", fn=g,
                  detail="a formatted error chunk exists for unknown names")
        # PatternEncoder::encode writes chunks in order, stopping on io errors only
        h = p.fn_loops(ENCODE)      # `chunks.iter().try_for_each(|c| c.encode(w, record))` is the loop it denotes
        ce = h.calls(CHUNK_ENCODE)
        r.require(len(ce) == 1 and h.in_loop(ce[0].block), "encode-iterates-chunks", fn=h, detail="one Chunk::encode call inside the chunk loop")

    with ctx.rule("P5", "the parser advances with every piece", cfg) as r:
        # PatternEncoder::new collects the parser until it returns None.  If a piece can be produced without a character having
        # been taken from the pattern, the same piece comes again and again and construction never returns (it ends when the
        # allocator gives up): on every path to `Some(piece)` the parser's own cursor has moved - a next() on it (not on a
        # clone), a store to it, or one of the parser's own &mut self steps
        from rules import c09
        f = p.fn(c09.PARSER_NEXT)
        padt = f.d.get("impl_self_adt")

        def on_cursor(e):
            return any(x[0] == "field" and deep_strip(x[1]) in (("param", 1), ("deref", ("param", 1))) for x in walk(e)) and not any(x[0] == "call" and x[1].rsplit("::", 1)[-1] in ("clone", "cloned", "by_ref_clone") for x in walk(e))
        moves = set()
        for c in f.calls():
            cal = c.callee or ""
            if cal.rsplit("::", 1)[-1] in ("next", "nth", "advance_by", "next_if", "next_if_eq") and c.args and on_cursor(c.arg(0)):
                moves.add(c.block)
            elif cal in p.fns and c.args and deep_strip(c.arg(0)) == ("param", 1) and (p.fns[cal].d.get("sig") or "").split("fn(", 1)[-1].split(",")[0].split(")")[0].strip().startswith(("&mut", "&'")) \
                    and " mut " in (p.fns[cal].d.get("sig") or "").split("fn(", 1)[-1].split(",")[0].split(")")[0] + " ":
                moves.add(c.block)
        for b, i, st in f.assigns():
            if st["lhs"]["l"] == 1 and any(isinstance(e, dict) and "f" in e for e in st["lhs"]["p"]):
                moves.add(b)
        # (`self.it.peek()?` hands the `None` on: in a function returning an Option the residual of `?` is the end of the pieces)
        somes = {b for b, e in q.ret_assignments(f) if not (deep_strip(e)[0] == "agg" and deep_strip(e)[2] == "None") and not q.is_from_residual(e)}
        r.require(bool(moves) and bool(somes), "anchors", fn=f, detail="cursor moves in %d blocks, %d returns of a piece" % (len(moves), len(somes)))
        stuck = q.skipping_paths(f, 0, moves, somes)
        r.require(not stuck, "every-piece-consumes-input", fn=f, detail="every path to a returned piece passes a step of the parser's cursor",
                  fail_detail="a piece is returned (bb%s) on a path on which the parser's cursor has not moved: the next call returns the same piece, and collecting the parser never ends" % sorted(stuck))

    with ctx.rule("P6", "the parser's own errors are not swallowed", cfg) as r:
        # "absurd widths ... are surfaced as a visible {ERROR: ..} marker": an Err produced by one step of the parser reaches the
        # piece that renders it.  Every call of a parser step that returns Result<_, String> is consumed by `?` or by a match
        # on it - never by unwrap_or / unwrap_or_default / ok(), which turn the error into an ordinary value.
        n = 0
        for path, f in sorted(p.fns.items()):
            if "encode::pattern::parser::Parser" not in path or f.kind == "Closure" or "Derive" in (f.d.get("exp") or ""):
                continue
            for c in f.calls():
                if c.callee not in p.fns or "encode::pattern::parser::" not in c.callee or not c.t.get("dest_ty", "").startswith("core::result::Result<"):
                    continue
                n += 1
                def looked(blk_id, callee, depth=0):
                    """the Result produced by the call in blk_id is matched, `?`-ed, or handed on through an error-preserving combinator whose result is"""
                    for blk in f.blocks:
                        if blk["id"] not in f.reachable_blocks() or blk["term"]["k"] != "switch":
                            continue
                        d = strip(SwitchInfo(f, blk["id"]).discr)
                        if d[0] == "discr":
                            inner = strip(d[1])
                            if inner[0] == "call" and inner[1].endswith("Try::branch") and inner[2]:
                                inner = strip(inner[2][0])
                            if inner[0] == "call" and len(inner) > 3 and inner[3] == blk_id and inner[1] == callee:
                                return True
                    # `result.unwrap_or_else(Piece::Error)`: the error text becomes the error piece - that is the rendering
                    for u in f.calls():
                        if (u.callee or "").rsplit("::", 1)[-1] == "unwrap_or_else" and "Result" in (u.callee or "") and len(u.args) == 2:
                            a0 = strip(u.arg(0))
                            a1 = deep_strip(u.arg(1))
                            if a0[0] == "call" and len(a0) > 3 and a0[3] == blk_id and a0[1] == callee and ((a1[0] == "const" and a1[1] == "fn" and str(a1[2]).endswith("Piece::Error")) or (a1[0] == "fnref" and str(a1[1]).endswith("Piece::Error"))):
                                return True
                    if depth < 3:
                        for u in f.calls():
                            if (u.callee or "").rsplit("::", 1)[-1] in ("and_then", "map", "map_err") and "Result" in (u.callee or "") and u.args:
                                a0 = strip(u.arg(0))
                                if a0[0] == "call" and len(a0) > 3 and a0[3] == blk_id and a0[1] == callee and looked(u.block, u.callee, depth + 1):
                                    return True
                    return False
                looked_at = looked(c.block, c.callee)
                swallowed = []
                for u in f.calls():
                    nm = (u.callee or "").rsplit("::", 1)[-1]
                    if nm in ("unwrap_or", "unwrap_or_default", "unwrap_or_else", "ok", "is_ok", "is_err", "unwrap", "expect") and "Result" in (u.callee or "") and u.args:
                        a0 = strip(u.arg(0))
                        if a0[0] == "call" and len(a0) > 3 and a0[3] == c.block and a0[1] == c.callee:
                            swallowed.append(nm)
                r.require(looked_at and not swallowed, "error-propagated:%s/%s" % (path.rsplit("::", 1)[-1], common.role(c)), fn=f, site=c.at,
                          detail="the Result of %s is matched or propagated with `?`" % c.callee.rsplit("::", 1)[-1],
                          fail_detail="the Result of %s is consumed by %s: its error (e.g. a width that is too large) never reaches the {ERROR: ..} piece" % (c.callee.rsplit("::", 1)[-1], swallowed or "nothing that looks at it"))
        r.floor("parser-steps-returning-a-Result", n, 5)

    with ctx.rule("P1", "panic inventory", cfg) as r:
        cone = cone_of(p)
        if common.established(c10.rule_char_counting, p):
            satisfied.add("C10.A1")
        st = panics.check_cone(r, p, cone, "C11", satisfied=satisfied)
        ctx.extra.setdefault("panic_inventory", {})[cfg] = dict(st, cone=len(cone))
        r.floor("cone-size", len(cone), 40)
        r.floor("sites", st["sites"], 12)
        # recursion note
        rec = sorted(x for x in cone if x in p.callees(p.fns[x], CUT) or any(x in p.callees(p.fns[y], CUT) and y in p.callees(p.fns[x], CUT) for y in cone if y != x))
        ctx.note("recursive functions in the cone (stack depth is input-driven, not decided): %s" % rec[:8])


def validated(g, block, fmt):
    """Is `block` reachable only through the success edge of a *trial formatting* with fmt?
    Parsing the format (StrftimeItems ... Item::Error) is not enough: chrono parses items such as `%#z` that exist only for
    parsing, and DelayedFormat's Display then fails at encode time, where io::Write::write_fmt panics.  The only validation
    that covers what Display can reject is to run Display once into a fmt::Write sink and test the result."""
    weaker = None
    for sb, si, al in g.conditions(block):
        d = strip(si.discr)
        labs = {si.label(v) for v, _ in al}
        trial = [x for x in walk(d) if x[0] == "call" and x[1] == "core::fmt::Write::write_fmt"]
        fmts = [y for x in trial for y in walk(x) if y[0] == "call" and y[1].endswith("::format") and "chrono" in y[1] and len(y[2]) >= 2 and deep_strip(y[2][1]) == fmt]
        if trial and fmts:
            good = (d[0] == "discr" and labs and labs <= {"Ok", "Continue"}) or \
                   (d[0] == "call" and d[1].rsplit("::", 1)[-1] == "is_err" and labs == {False}) or \
                   (d[0] == "call" and d[1].rsplit("::", 1)[-1] == "is_ok" and labs == {True})
            if good:
                return True, "guarded by a successful trial formatting (fmt::Write::write_fmt of DateTime::format(fmt))"
        if any(x[0] == "call" and x[1].startswith("chrono::format::strftime::StrftimeItems") for x in walk(d)):
            weaker = "only the parse of the format is checked (StrftimeItems); parse-only items such as %#z pass it and fail in Display"
    return False, weaker or ("no dominating validation of %s" % show(fmt, 4))
