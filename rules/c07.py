"""C07 — fixed-window roller keeps the newest `count` files at base..base+count-1."""
from l4sa import q, panics, tables
from l4sa.core import AnchorMissing, ShapeUnrecognised, SwitchInfo, strip, deep_strip, walk, show, calls_in, cmp_nf
from rules import common

CLAIMED = True
TECHNIQUE = "static analysis over type-checked MIR: iterator-type and index-expression recovery of the shift loop (linear forms over base/count), call-order/dominance of the final move, error-edge classification of move_file, per-arm ordering of the compression variants, file-system effect inventory with path provenance over the roller modules, panic-site inventory of the roll cone"
LEVEL_TEXT = """Static, all-paths decision of the shift/effect clauses: (R1) the shift loop iterates a reversed u32 range and moves pattern(i) to pattern(i+1) (both via replace("{}", i) and env expansion); (R2) the range is base .. base+count-1 as a linear form over the roller's own base/count (checked/unchecked variants alike); (R3) after the loop the rolled file is moved/compressed into pattern(base) and that error is propagated; (R4) count == 0 only removes the file and returns that result; (R5) move_file: rename first, Ok => Ok, NotFound => Ok, otherwise copy then remove the source only on success; (R6) compression arms: None => move_file, gzip/zstd => open, create, copy, finish, and remove the source only after finish succeeded; (R7) the roller modules' file-system mutators are within {rename, copy, remove_file, create_dir_all, File::create} and every path derives from the pattern+index, the rolled file or a temp name derived from it; (R8) DeleteRoller::roll = remove_file(file), result returned; (R9) no un-discharged panic site in the cone of the Roll implementations. Byte-for-byte contents after N rolls and the decompression round trip are not decided. (R16) a roller built from a document has the document's base, pattern and count; (R17n1-n7) the C19 rule set on expand_env_vars as a premise of every archive name. (R2, cont.) the overflow guard is on base + count - 1; (R10, cont.) the base directory is made on every roll, conditional on nothing but the parent being there."""
LEVEL_NOTE = "Trusted: rustc MIR/callee resolution; std::fs rename/copy/remove semantics; flate2/zstd encoders; str::replace. Decides the shape of the shift and the effect inventory on all paths, not directory contents."
EXPLANATION = """Decided: R1 shift order, R2 range linear form, R3 final step, R4 count==0, R5 move_file contract, R6 compression ordering (configs with gzip/zstd), R7 effect inventory, R8 delete roller, R9 panic inventory. Undecided: contents after any number of rolls, decompression round trip, all initial directory states."""
DECIDED = ["R1", "R2", "R3", "R4", "R5", "R6", "R7", "R8", "R9", "R11 a successful roll has taken the file away", "R12 staging name checked absent", "R13 archive write errors surface", "R14 one background rotation at a time; a lowered busy flag is always handed to a worker", "R5+ on every success path of move_file the source is gone"]
UNDECIDED = ["byte-for-byte contents after N rolls", "decompression round trip (flate2/zstd trusted)", "initial directory states"]
TRUSTED = ["rustc nightly MIR + Instance::try_resolve", "std::fs semantics", "flate2 / zstd", "external may-panic contract table"]

ROLL_IMPL = "<append::rolling_file::policy::compound::roll::fixed_window::FixedWindowRoller as append::rolling_file::policy::compound::roll::Roll>::roll"
DELETE_IMPL = "<append::rolling_file::policy::compound::roll::delete::DeleteRoller as append::rolling_file::policy::compound::roll::Roll>::roll"
BUILDER_BUILD = "append::rolling_file::policy::compound::roll::fixed_window::FixedWindowRollerBuilder::build"
ROLLER = "append::rolling_file::policy::compound::roll::fixed_window::FixedWindowRoller"
EXPAND = "append::env_util::expand_env_vars"
REPLACE = "alloc::str::<impl str>::replace"
NEXT = "core::iter::traits::iterator::Iterator::next"
CUT = ("encode::Encode", "append::Append", "filter::Filter", "std::io::Write", "encode::Write")
FS_MUTATORS = {"std::fs::rename", "std::fs::copy", "std::fs::remove_file", "std::fs::create_dir_all", "std::fs::create_dir", "std::fs::remove_dir", "std::fs::remove_dir_all",
               "std::fs::File::create", "std::fs::File::create_new", "std::fs::write", "std::fs::OpenOptions::open", "std::fs::hard_link", "std::fs::set_permissions",
               "std::os::unix::fs::symlink", "std::fs::File::set_len", "std::fs::soft_link"}
FS_ALLOWED = {"std::fs::rename", "std::fs::copy", "std::fs::remove_file", "std::fs::create_dir_all", "std::fs::File::create"}


def roles(p):
    if getattr(p, "_fw", None) is not None:
        return p._fw
    r = {}
    cone = p.cone([ROLL_IMPL], cut_traits=CUT)
    fns = [p.fns[x] for x in cone if p.fns[x].kind != "Closure"]
    mv = [f for f in fns if f.calls("std::fs::rename")]
    if len(mv) != 1:
        raise AnchorMissing("expected one function calling fs::rename, found %s" % [f.path for f in mv])
    r["move_file"] = mv[0]
    loops = [f for f in fns if f.back_edges() and any(f.in_loop(c.block) for c in f.calls(mv[0].path))]
    as_adaptor = False
    if not loops:
        # the shift loop spelled `(base..last).rev().try_for_each(|i| ..)`: the loop it denotes
        loops = [f for f in fns if p.fn_loops(f.path).back_edges() and any(p.fn_loops(f.path).in_loop(c.block) for c in p.fn_loops(f.path).calls(mv[0].path))]
        as_adaptor = True
    as_results = False
    if not loops:
        # ... with the move inside `.and_then(|()| move_file(..))`: Result combinators over closures as the matches they denote
        loops = [f for f in fns if p.fn_results(f.path).back_edges() and any(p.fn_results(f.path).in_loop(c.block) for c in p.fn_results(f.path).calls(mv[0].path))]
        as_results = True
    if len(loops) != 1:
        raise AnchorMissing("expected one looping function calling the move helper in Cone(FixedWindowRoller::roll), found %s" % [f.path for f in loops])
    r["rotate"] = p.fn_results(loops[0].path) if as_results else p.fn_loops(loops[0].path) if as_adaptor else p.fn_closure_calls(loops[0].path)     # a local closure naming the archive path is a local helper
    rot = r["rotate"]
    head = loop_head(rot, mv[0].path)
    comp = [c for c in rot.calls() if c.callee in p.fns and not rot.in_loop(c.block) and c.callee != EXPAND and head is not None and rot.dominates(head, c.block)]
    if len(comp) != 1:
        raise AnchorMissing("expected one final move/compress call after the loop in %s, found %s" % (rot.path, [c.callee for c in comp]))
    r["compress_site"] = comp[0]
    r["compress"] = p.fn(comp[0].callee)
    # base / count fields by role: build(self, pattern, count)
    b = p.fn(BUILDER_BUILD)
    aggs = [a for a in p.aggregates(ROLLER) if a[0] is b]
    if len(aggs) != 1:
        raise AnchorMissing("FixedWindowRoller aggregate not found in the builder")
    e = b._rvalue(aggs[0][3], frozenset(), 30, aggs[0][1])
    for name, v in e[3]:
        v = deep_strip(v)
        if v == ("param", 3):
            r["count_field"] = name
        elif v[0] == "field" and v[1] == ("param", 1):
            r["base_field"] = name
        elif any(x == ("param", 2) for x in walk(v)):
            r["pattern_field"] = name
    for k in ("count_field", "base_field", "pattern_field"):
        if k not in r:
            raise AnchorMissing("cannot identify the roller's %s" % k)
    r["cone"] = cone
    p._fw = r
    return r


def loop_body(rot, move_path):
    """blocks of the natural loop around the in-loop call of the move helper"""
    mvs = [c for c in rot.calls(move_path) if rot.in_loop(c.block)]
    if not mvs:
        return None, set()
    b = mvs[0].block
    body = {x for x in rot.reach(b, include_src=True) if b in rot.reach(x, include_src=True)}
    return mvs[0], body


def loop_head(rot, move_path):
    """the block deciding whether another shift iteration runs: the in-loop Iterator::next call of a `for`,
    or the comparison switch of a `while` whose one edge leaves the loop"""
    mv, body = loop_body(rot, move_path)
    if mv is None:
        return None
    nx = [c.block for c in rot.calls(NEXT) if c.block in body]
    if nx:
        return nx[0]
    heads = []
    for b in sorted(body):
        t = rot.term(b)
        if t["k"] != "switch":
            continue
        si = SwitchInfo(rot, b)
        if not si.is_bool or cmp_nf(si.discr, True) is None:
            continue
        outs = [x for x in rot.succ[b] if x not in body]
        if outs and rot.dominates(b, mv.block):
            heads.append(b)
    return heads[0] if len(heads) == 1 else None


def _chase(f, l):
    """look through single-definition whole-local copies"""
    seen = set()
    while l not in seen:
        seen.add(l)
        ds = f.defs(l)
        if len(ds) == 1 and not ds[0][0] and ds[0][3] == "rv" and ds[0][4]["k"] == "use" and not (1 <= l <= f.nargs):
            pl = ds[0][4]["a"].get("copy") or ds[0][4]["a"].get("move")
            if pl and not pl["p"]:
                l = pl["l"]
                continue
        break
    return l


def _loopvar_pred(init):
    """predicate recognising the loop-carried variable in recovered expressions: a join of its initial value with
    values derived from itself by a constant step (the cut point of the cycle depends on where recovery started)"""
    init = deep_strip(init)

    def pred(e):
        if e[0] != "phi":
            return False
        alts = [deep_strip(a) for a in e[1]]
        if init not in alts:
            return False
        for a in alts:
            if a == init:
                continue
            cyc = [y for y in walk(a) if y[0] == "cycle"]
            if not cyc:
                return False
            lf = linear(a, {"v": cyc[0]})
            if lf not in ({"v": 1}, {"v": 1, 1: -1}):
                return False
        return True
    return pred


def shift_loop(p):
    """Model of the shift loop, from either spelling:
         for i in (lo..hi).rev() { move(pattern(i), pattern(i+1)) }
         let mut v = hi; while v > lo { move(pattern(v-1), pattern(v)); v -= 1 }
       -> dict(kind, head, var (expression of the loop variable in index expressions), first, last (linear forms over
          base/count of the variable's first and last value), desc, exit (callable: conditions entry -> bool), detail)"""
    ro = roles(p)
    rot = ro["rotate"]
    pr = rotate_params(p)
    vars_ = {"base": ("param", pr["base"]), "count": ("param", pr["count"])}
    mv, body = loop_body(rot, ro["move_file"].path)
    if mv is None:
        raise ShapeUnrecognised("no move_file call inside a loop of %s" % rot.path)
    head = loop_head(rot, ro["move_file"].path)
    if head is None:
        raise ShapeUnrecognised("cannot identify the shift loop's continuation test in %s" % rot.path)
    nx = [c for c in rot.calls(NEXT) if c.block == head]
    m = {"head": head, "mv": mv, "body": body}
    if nx:
        it = nx[0].arg(0)
        revs = [x for x in walk(it) if x[0] == "call" and x[1] == "core::iter::traits::iterator::Iterator::rev"]
        rngs = [x for x in walk(it) if x[0] == "agg" and x[1] in ("core::ops::range::Range", "core::ops::range::RangeInclusive")]
        ity = nx[0].t.get("arg_tys", [""])[0]
        item = None
        for x in walk(mv.arg(0)):
            if x[0] == "as" and x[2] == "Some" and strip(x[1])[0] == "call" and strip(x[1])[1] == NEXT:
                item = ("field", x, "0")
        m.update(kind="range", site=nx[0], iter_expr=it, iter_ty=ity, var=deep_strip(item) if item else None,
                 desc=len(revs) == 1 and len(rngs) == 1 and any(y is rngs[0] or y == rngs[0] for y in walk(revs[0])) and "Rev<" in ity and "Range<u32>" in ity)
        if len(rngs) == 1:
            fd = dict(rngs[0][3])
            ls, le = linear(fd.get("start"), vars_), linear(fd.get("end"), vars_)
            incl = rngs[0][1].endswith("RangeInclusive")
            if le is not None and not incl:
                le = dict(le)
                le[1] = le.get(1, 0) - 1
                le = {k: v for k, v in le.items() if v != 0}
            # a reversed range starts at its (inclusive) end and stops at its start
            m.update(first=le, last=ls, range_start=fd.get("start"), range_end=fd.get("end"), inclusive=incl)
        else:
            m.update(first=None, last=None)

        def exit_(sb, si, al):
            d = strip(si.discr)
            return d[0] == "discr" and strip(d[1])[0] == "call" and strip(d[1])[1] == NEXT and {si.label(v) for v, _ in al} == {"None"}
        m["exit"] = exit_
        m["detail"] = "for over %s" % show(it, 5)
        return m
    # countdown
    si = SwitchInfo(rot, head)
    stay = [x for x in rot.succ[head] if x in body]
    if len(stay) != 1:
        raise ShapeUnrecognised("shift loop header bb%d has %d edges into the loop" % (head, len(stay)))
    truth = None
    for v, t in si.edges:
        if t == stay[0]:
            truth = si.label(v)
    nf = cmp_nf(si.discr, bool(truth)) if truth in (True, False) else None
    if nf is None or nf[0] not in ("Lt", "Le"):
        raise ShapeUnrecognised("shift loop continuation test is not an ordering comparison: %s" % show(si.discr, 4))
    op, lo_e, var_e = nf[0], deep_strip(nf[1]), deep_strip(nf[2])
    if var_e[0] != "phi":
        raise ShapeUnrecognised("shift loop continuation test `%s %s %s`: the right-hand side is not a loop-carried variable (only the descending form `bound < v` is recognised)" % (
            show(lo_e, 3), op, show(var_e, 3)))
    inits = [a for a in var_e[1] if not any(y[0] == "cycle" for y in walk(a))]
    steps = [a for a in var_e[1] if any(y[0] == "cycle" for y in walk(a))]
    if len(inits) != 1 or not steps:
        raise ShapeUnrecognised("loop variable %s: expected one initial value and a step" % show(var_e, 4))
    cyc = [y for a in steps for y in walk(a) if y[0] == "cycle"][0]
    step_ok = all(linear(a, {"v": cyc}) == {"v": 1, 1: -1} for a in steps)
    # the variable is only updated after the move of the iteration
    dl = None
    pl = si.t["discr"].get("copy") or si.t["discr"].get("move")
    upd_after = False
    upd_before = False
    if pl is not None:
        for (dp, b, i, kind, payload) in rot.defs(pl["l"]):
            if kind == "rv" and payload["k"] == "bin":
                for o in (payload["a"], payload["b"]):
                    q_ = o.get("copy") or o.get("move")
                    if q_ and not q_["p"]:
                        q_ = {"l": _chase(rot, q_["l"]), "p": []}
                        ds = [d for d in rot.defs(q_["l"]) if not d[0]]
                        inl = [d for d in ds if d[1] in body]
                        if len(ds) >= 2 and inl and len(inl) < len(ds):
                            dl = q_["l"]
                            upd_after = all(rot.dominates(mv.block, d[1]) for d in inl)
                            # `v -= 1` as the first thing in the body: every use in the iteration sees the decremented value
                            uses = [c.block for c in rot.calls() if c.block in body and c.callee in (ro["move_file"].path, EXPAND, REPLACE, "alloc::string::ToString::to_string")]
                            upd_before = bool(inl) and all(all(rot.dominates(d[1], ub) and d[1] != ub for ub in uses) for d in inl)
    first = linear(inits[0], vars_)
    lo = linear(lo_e, vars_)
    last = None
    if lo is not None:
        last = dict(lo)
        if op == "Lt":
            last[1] = last.get(1, 0) + 1
        last = {k: v for k, v in last.items() if v != 0}

    if upd_before and not upd_after:
        # the values used inside the body are one less than the values tested by the header
        def dec(lf):
            if lf is None:
                return None
            o = dict(lf)
            o[1] = o.get(1, 0) - 1
            return {k: v for k, v in o.items() if v != 0}
        first, last = dec(first), dec(last)

    def exit_(sb, si2, al):
        return sb == head and {si2.label(v) for v, _ in al} == {not truth}
    m.update(kind="countdown", site=None, var=_loopvar_pred(inits[0]), desc=step_ok and (upd_after or upd_before) and dl is not None, first=first, last=last, exit=exit_,
             detail="while %s %s v, v from %s, step %s, updated %s" % (show(lo_e, 3), op, show(inits[0], 4), "-1" if step_ok else "?",
                                                                     "after the move" if upd_after else ("before every use" if upd_before else "in the middle of the iteration")))
    return m


def rotate_params(p):
    """which parameters of rotate carry pattern / base / count / file, from its caller(s)"""
    ro = roles(p)
    rot = ro["rotate"]
    out = {}
    for c in p.all_calls(rot.path):
        for i, a in enumerate(c.arg_exprs(), start=1):
            a = deep_strip(a)
            if c.fn.kind == "Closure":
                rc = common.resolve_capture(p, c.fn, a)
                if rc:
                    a = rc[0]
                    if a[0] == "call" and a[1] == "core::clone::Clone::clone":
                        a = deep_strip(a[2][0])
            for role in ("base", "count", "pattern"):
                if a[0] == "field" and a[2] == ro[role + "_field"]:
                    out.setdefault(role, set()).add(i)
            if any(x == ("param", 2) for x in walk(a)) or any(x[0] == "call" and "temp" in x[1] for x in walk(a)) or (a[0] == "call" and a[1] == "std::path::Path::to_path_buf"):
                if not (a[0] == "field"):
                    out.setdefault("file", set()).add(i)
    res = {}
    for k, v in out.items():
        if len(v) == 1:
            res[k] = v.pop()
    for k in ("base", "count", "pattern", "file"):
        if k not in res:
            shown = ["%s(%s)" % (c.fn.path.rsplit("::", 1)[-1], ", ".join(show(deep_strip(a), 3) for a in c.arg_exprs())) for c in p.all_calls(rot.path)]
            raise ShapeUnrecognised("the shift loop's function is not called with the roller's own `%s` (a plain field of the roller): call sites %s — the window actually shifted can differ from base..base+count-1" % (k, shown))
    return res


def linear(e, vars_):
    """linear form {var: coeff, 1: const} of an integer expression over the given variable exprs;
    checked/saturating/unchecked additions are the same node; None if not linear."""
    e = deep_strip(e)
    for name, v in vars_.items():
        if (v(e) if callable(v) else e == v):
            return {name: 1}
    c = tables.fold_int(e)
    if c is not None:
        return {1: c}
    if e[0] == "bin":
        op = e[1].replace("WithOverflow", "").replace("Unchecked", "")
        a, b = linear(e[2], vars_), linear(e[3], vars_)
        if a is None or b is None or op not in ("Add", "Sub"):
            return None
        out = dict(a)
        for k, v in b.items():
            out[k] = out.get(k, 0) + (v if op == "Add" else -v)
        return {k: v for k, v in out.items() if v != 0}
    if e[0] == "call":
        nm = e[1].rsplit("::", 1)[-1]
        if nm in ("checked_add", "saturating_add", "wrapping_add", "checked_sub", "saturating_sub", "wrapping_sub") and len(e[2]) == 2:
            op = "Add" if "add" in nm else "Sub"
            return linear(("bin", op, e[2][0], e[2][1]), vars_)
        if nm in ("ok_or_else", "ok_or", "branch", "unwrap_or", "expect", "unwrap") and e[2]:
            return linear(e[2][0], vars_)
    if e[0] in ("as", "field") and e[0] == "as":
        return linear(e[1], vars_)
    if e[0] == "field" and e[2] == "0":
        return linear(e[1], vars_)
    if e[0] == "cast":
        return linear(e[2], vars_)
    return None


def index_of(path_expr):
    """the integer expression substituted for '{}' in a pattern-derived path, or None"""
    for x in walk(path_expr):
        if x[0] == "call" and x[1] == REPLACE and len(x[2]) == 3:
            sub = x[2][2]
            ts = [y for y in walk(sub) if y[0] == "call" and y[1] == "alloc::string::ToString::to_string"]
            if ts:
                return deep_strip(ts[0][2][0]), deep_strip(x[2][0]), deep_strip(x[2][1])
            ds = deep_strip(sub)
            if ds[0] != "const" and not any(y[0] == "const" and y[1] == "str" for y in walk(ds)):
                # an expression that went through deep_strip already (to_string is a transparent conversion there)
                return ds, deep_strip(x[2][0]), deep_strip(x[2][1])
    return None


def run(ctx):
    configs = ["default", "full"] if ctx.tier == "quick" else ["default", "release", "full", "nobg-full", "single:rolling_file_appender,compound_policy,fixed_window_roller,delete_roller"]
    for cfg in configs:
        run_cfg(ctx, ctx.prog(cfg), cfg)


def rule_names_inside_window(ctx, p, cfg, rid="R15"):
    """No file outside the names the roller manages is created, modified or removed: apart from the shift loop (whose indices
    R2 bounds), every file-system step of rotate() that names a pattern-derived file names pattern(base)."""
    with ctx.rule(rid, "steps outside the shift loop touch pattern(base) only", cfg) as r:
        ro = roles(p)
        rot = ro["rotate"]
        pr = rotate_params(p)
        vars_ = {"base": ("param", pr["base"]), "count": ("param", pr["count"])}
        n = 0
        for c in rot.calls():
            cal = c.callee or ""
            if rot.in_loop(c.block) or not (cal in FS_MUTATORS or cal in (ro["move_file"].path, ro["compress"].path)):
                continue
            for i, a in enumerate(c.arg_exprs()):
                io = index_of(a)
                if not io:
                    continue
                n += 1
                lf = linear(io[0], vars_)
                r.require(lf == {"base": 1}, "index-is-base:%s:arg%d" % (common.role(c), i), fn=rot, site=c.at, detail="%s on pattern(%s)" % (cal.rsplit("::", 1)[-1], show(io[0], 4)),
                          fail_detail="%s is applied to pattern(%s) outside the shift loop: a name that is not pattern(base) - e.g. the index just past the window, which the roller does not own" % (cal, show(io[0], 4)))
        r.floor("named-steps-outside-the-loop", n, 2)


def rule_roll_moves_file(ctx, p, cfg, rid="R11"):
    """Roll::roll may report success only after the rolled file has left its path (renamed into staging / shifted into the
    window / removed): a roll that returns Ok with the file still in place makes the caller reopen and keep growing it."""
    with ctx.rule(rid, "a successful roll has taken the file away", cfg) as r:
        ro = roles(p)
        f = p.fn(ROLL_IMPL)
        movers = {ro["move_file"].path, ro["rotate"].path, "std::fs::remove_file", "std::fs::rename"}
        must = set()
        for c in f.calls():
            if c.callee in movers and any(any(x == ("param", 2) for x in walk(a)) for a in c.arg_exprs()):
                must.add(c.block)
        r.require(bool(must), "file-is-moved", fn=f, detail="calls that take the rolled file away: %d" % len(must))
        rets = {b for b, e in q.ret_assignments(f) if q.classify_ret(e) != "err" and not q.is_from_residual(e)}
        skipped = q.skipping_paths(f, 0, must, rets) | ({0} & rets)
        r.require(not skipped, "ok-only-after-the-file-left", fn=f, detail="every non-error return passed a rename/move/remove of the rolled file",
                  fail_detail="Roll::roll can return without an error (bb%s) although the file was neither moved nor removed: the caller takes the rotation for done" % sorted(skipped))


def rule_staging_name(ctx, p, cfg, rid="R12"):
    """background rotation renames the rolled file to a staging name first: that name must not exist yet, or a second
    roll before the first rotation ran overwrites the first staged file"""
    with ctx.rule(rid, "the staging name is fresh", cfg) as r:
        f = p.fn(ROLL_IMPL)
        ro = roles(p)
        cands = [c for c in f.calls() if c.callee in p.fns and p.fns[c.callee].d.get("sig", "").replace(" ", "").endswith("->std::path::PathBuf") and not (p.fns[c.callee].vis or "").startswith("Public")]
        if not cands:
            r.ok("no-staging-step", fn=f, detail="this configuration rotates in place (no staging name)")
            return
        g = p.fn(cands[0].callee)
        ex = [c for c in g.calls() if (c.callee or "").rsplit("::", 1)[-1] in ("exists", "try_exists")]
        okx = False
        for c in ex:
            for rb in g.return_blocks():
                for sb, si, al in g.conditions(rb):
                    if any(x[0] == "call" and len(x) > 3 and x[3] == c.block for x in walk(si.discr)) and {si.label(v) for v, _ in al} == {False}:
                        okx = True
        r.require(okx, "staging-name-checked-absent", fn=g, detail="the name is returned only on the `does not exist` edge of an existence test",
                  fail_detail="%s returns a name without testing that nothing exists there: two rolls within the clock's resolution share one staging file and the first is overwritten" % g.path)


def rule_archive_writes_surface(ctx, p, cfg, rid="R13"):
    """The source of a move/compress step is removed once the archive is written.  A buffering writer between the step and the
    archive file (BufWriter/LineWriter) writes its tail when it is dropped and throws that error away, so a failed write
    would still end in the removal: such a writer needs a checked flush()/into_inner() before it goes out of scope."""
    with ctx.rule(rid, "archive write errors are not lost in a drop", cfg) as r:
        n = 0
        for path, f in sorted(p.fns.items()):
            if "append::rolling_file::policy::compound::roll::" not in path or "Derive" in (f.d.get("exp") or ""):
                continue
            for c in f.calls():
                cal = c.callee or ""
                if not (cal.startswith("std::io::") and ("BufWriter::<W>::" in cal or "LineWriter::<W>::" in cal)) or cal.rsplit("::", 1)[-1] not in ("new", "with_capacity"):
                    continue
                n += 1
                closers = [x for x in f.calls() if ((x.callee or "") == "std::io::Write::flush" or ((x.callee or "").startswith("std::io::") and (x.callee or "").endswith("Writer::<W>::into_inner")))
                           and f.can_reach(c.block, x.block) and common.result_is_checked(f, x)]
                rets = {b for b, e in q.ret_assignments(f) if q.classify_ret(e) != "err" and not q.is_from_residual(e)}
                ok = bool(closers) and not q.skipping_paths(f, c.block, {x.block for x in closers}, rets)
                r.require(ok, "buffered-archive-writer-flushed:%s/%s" % (path.rsplit("::", 1)[-1], common.role(c)), fn=f, site=c.at,
                          detail="every non-error return after the construction passed a checked flush()/into_inner()",
                          fail_detail="%s wraps an archive file in %s and lets it drop: the buffered tail is written in Drop, where a write error is discarded, and the step goes on to remove its source" % (
                              path.rsplit("::", 1)[-1], cal.split("::<")[0].rsplit("::", 1)[-1]))
        # a compressing encoder ends its frame in finish(): that is where the last bytes are written and where a full disk shows.
        # Its result has to be looked at before the source is removed; an encoder left to finish in Drop (auto_finish, or
        # simply dropped) throws that error away
        ne = 0
        for path, f in sorted(p.fns.items()):
            if "append::rolling_file::policy::compound::roll::" not in path or "Derive" in (f.d.get("exp") or ""):
                continue
            encs = [c for c in f.calls() if (c.callee or "").rsplit("::", 1)[-1] in ("new", "with_dictionary", "with_prepared_dictionary") and "Encoder" in (c.callee or "")
                    and ((c.callee or "").startswith("zstd::") or (c.callee or "").startswith("flate2::"))]
            auto = [c for c in f.calls() if (c.callee or "").rsplit("::", 1)[-1] in ("auto_finish", "on_finish")]
            r.require(not auto, "no-finish-in-drop:%s" % path.rsplit("::", 1)[-1], fn=f, site=(auto[0].at if auto else None), detail="encoders finished in Drop in %s: %d" % (path.rsplit("::", 1)[-1], len(auto)),
                      fail_detail="%s hands the frame's end to Drop (%s): the error of the last write is discarded and the step goes on to remove its source" % (path.rsplit("::", 1)[-1], auto[0].callee if auto else ""))
            for c in encs:
                ne += 1
                fam = (c.callee or "").split("::", 1)[0]
                closers = [x for x in f.calls() if (x.callee or "").startswith(fam + "::") and (x.callee or "").rsplit("::", 1)[-1] in ("finish", "try_finish")
                           and f.can_reach(c.block, x.block) and common.result_is_checked(f, x)]
                rets = {b for b, e in q.ret_assignments(f) if q.classify_ret(e) != "err" and not q.is_from_residual(e)}
                # only the returns of this encoder's arm: those its construction can reach
                rets = {b for b in rets if f.can_reach(c.block, b)}
                ok = bool(closers) and not q.skipping_paths(f, c.block, {x.block for x in closers}, rets)
                r.require(ok, "encoder-finished-and-checked:%s/%s" % (path.rsplit("::", 1)[-1], common.role(c)), fn=f, site=c.at,
                          detail="every non-error return after the encoder was built passed a checked finish()",
                          fail_detail="an archive compressed through %s can be reported as written without finish() having been checked" % (c.callee or "").split("::<")[0])
        r.ok("encoders", detail="compressing encoders constructed in the roller modules: %d" % ne)
        # and the bytes reach it through whole-buffer operations: a bare Write::write may take less than it was offered
        partial = [(f, c) for path, f in sorted(p.fns.items()) if "append::rolling_file::policy::compound::roll::" in path and "Derive" not in (f.d.get("exp") or "")
                   for c in f.calls("std::io::Write::write")]
        r.require(not partial, "whole-buffer-writes-only", fn=(partial[0][0] if partial else None), site=(partial[0][1].at if partial else None),
                  detail="archives are written with io::copy / write_all (bare Write::write sites: %d)" % len(partial),
                  fail_detail="an archive is written with a bare Write::write: what the writer does not accept in that call is dropped from the archive")
        r.ok("inventory", detail="buffering writers constructed in the roller modules: %d" % n)


def move_file_contract_holds(p):
    """the table of rule_move_file, as a premise for other rules"""
    from rules import movewalk
    try:
        rows = movewalk.evaluate(p, p.fn(roles(p)["move_file"].path))
    except Exception:
        return False
    return all((tr, res) == movewalk.expected(*k) for k, (tr, res) in rows.items())


def rule_move_file(ctx, p, cfg, rid="R5"):
    """move_file(src, dst) as a table over the outcomes of the file-system calls it can make (rules/movewalk.py): rename first;
    done when it succeeds or the source does not exist; otherwise copy src to dst and, only when the copy succeeded, remove
    src; the first failure of the fallback is what is returned."""
    with ctx.rule(rid, "move_file contract", cfg) as r:
        from rules import movewalk
        ro = roles(p)
        m = p.fn(ro["move_file"].path)
        try:
            rows = movewalk.evaluate(p, m)
        except movewalk.Giveup as e:
            raise ShapeUnrecognised("move_file: %s" % e)

        def say(tr, res):
            calls = ", ".join("%s(%s)" % (w, ", ".join(str(x) for x in a)) for w, a in tr) or "no file-system call"
            return "%s -> %s" % (calls, res if isinstance(res, str) else ("Err of %s" % res[1] if res else "?"))
        WHY = {
            "Ok": "a rename that succeeded is the whole move",
            "NotFound": "a source that does not exist is not an error (an empty slot of the window): nothing is copied or removed",
            "Other": "any other rename error falls back to copy-then-remove: the source is removed only after the copy succeeded, and the first failure is returned",
        }
        for (rn, cp, rm), (tr, res) in sorted(rows.items()):
            if rn != "Other" and (cp, rm) != ("Ok", "Ok"):
                continue        # copy / remove are not reached on these rows: one row per rename outcome is enough
            if rn == "Other" and cp == "Err" and rm == "Err":
                continue
            wt, wres = movewalk.expected(rn, cp, rm)
            key = "rename=%s" % rn + ("" if rn != "Other" else ",copy=%s%s" % (cp, "" if cp == "Err" else ",remove=%s" % rm))
            r.require(tr == wt and res == wres, "row:%s" % key, fn=m, detail=say(tr, res),
                      fail_detail="with %s move_file does: %s; the contract is: %s (%s)" % (key, say(tr, res), say(wt, wres), WHY[rn]))
        r.floor("rows", len(rows), 12)


def rule_one_rotation_at_a_time(ctx, p, cfg, rid="R14"):
    """background rotation: roll() hands the staged file to a worker thread.  Two workers must never be queued at once (the
    mutex is not fair: the later one could shift the window first and the archives would be out of order), so roll() itself
    waits for the `ready` flag and lowers it before it spawns the worker; the worker raises it when it is done."""
    with ctx.rule(rid, "one background rotation at a time, in roll order", cfg) as r:
        f = p.fn(ROLL_IMPL)
        sp = [c for c in f.calls() if (c.callee or "").startswith("std::thread::") and (c.callee or "").rsplit("::", 1)[-1] in ("spawn", "spawn_scoped", "spawn_unchecked")]
        if not sp:
            r.ok("no-worker-thread", fn=f, detail="this configuration rotates in the calling thread")
            return
        r.require(len(sp) == 1, "one-spawn-site", fn=f, detail="thread::spawn sites in roll(): %d" % len(sp))

        def flag_stores(g, value):
            out = []
            for b, i, s in g.assigns():
                rv = s["rv"]
                if rv["k"] == "use" and "const" in rv["a"] and rv["a"]["const"].get("kind") == "bool" and bool(rv["a"]["const"].get("value")) == value and s["lhs"]["p"]:
                    base = g.local_expr(s["lhs"]["l"])
                    if any(x[0] == "call" and x[1].rsplit("::", 1)[-1] in ("lock", "deref_mut") for x in walk(base)):
                        out.append(b)
            return out
        low = flag_stores(f, False)
        r.require(bool(low) and any(f.dominates(b, sp[0].block) for b in low), "flag-lowered-before-the-worker-is-spawned", fn=f, site=sp[0].at,
                  detail="roll() stores `false` through the guard on every path to thread::spawn",
                  fail_detail="roll() does not lower the ready flag itself before spawning: a second roll arriving before the worker has taken the lock finds the flag still raised and queues a second worker; the two can run in either order")
        # .. and whoever lowered it has spawned the worker that raises it again: no return of roll() between the two (an error
        # return there leaves the flag lowered for good, and the next roll waits for ever while holding the appender's lock)
        rets_ = set(f.return_blocks())
        stuck = set()
        for b_ in low:
            stuck |= q.skipping_paths(f, b_, {sp[0].block}, rets_)
        r.require(not stuck, "lowered-flag-always-handed-to-a-worker", fn=f, detail="every return of roll() after the flag was lowered has passed thread::spawn",
                  fail_detail="roll() can return (bb%s) after lowering the ready flag without spawning the worker that raises it: the next roll blocks for ever" % sorted(stuck))
        waits = [c for c in f.calls() if (c.callee or "").rsplit("::", 1)[-1] in ("wait", "wait_while", "wait_for", "wait_until")]
        r.require(bool(waits) and all(f.can_reach(c.block, sp[0].block) for c in waits), "waits-for-the-previous-rotation", fn=f, detail="Condvar wait sites before the spawn: %d" % len(waits))
        clos = [g for g in p.fns.values() if g.d.get("closure_of") == f.path and any((c.callee or "") == roles(p)["rotate"].path for c in g.calls())]
        if r.require(len(clos) == 1, "worker-closure", fn=f, detail="closure calling rotate(): %d" % len(clos)):
            g = clos[0]
            up = flag_stores(g, True)
            rc = [c for c in g.calls() if c.callee == roles(p)["rotate"].path]
            r.require(bool(up) and not q.skipping_paths(g, rc[0].block, up, set(g.return_blocks())), "worker-raises-the-flag-when-done", fn=g,
                      detail="after rotate() every path to the closure's end stores `true` through the guard")
            r.require(not flag_stores(g, False), "worker-does-not-lower-the-flag", fn=g, detail="the flag is lowered by roll(), not by the worker")


def run_cfg(ctx, p, cfg):
    feats = set(p.meta.get("features", []))
    bg = "background_rotation" in feats
    rule_shift_order(ctx, p, cfg, "R1")
    # "patterns with $ENV references": every archive name goes through expand_env_vars, so the names are the documented ones only
    # if the expansion is (C19's rules on the scanner, its constants, guards and offsets, re-evaluated as R17n1..n7)
    from rules import c19
    with ctx.premise("R17"):
        c19.run_cfg(ctx, p, cfg)
    if "config_parsing" in feats:
        from rules import c14
        c14.rule_roller_window_from_document(ctx, p, cfg, "R16")   # "base b and count c" are the document's when the roller comes from a file

    rule_range(ctx, p, cfg, "R2")
    rule_final_step(ctx, p, cfg, "R3")
    rule_roll_moves_file(ctx, p, cfg, "R11")
    rule_staging_name(ctx, p, cfg, "R12")
    rule_one_rotation_at_a_time(ctx, p, cfg, "R14")
    rule_names_inside_window(ctx, p, cfg, "R15")
    rule_archive_writes_surface(ctx, p, cfg, "R13")

    rule_directories(ctx, p, cfg, "R10")
    run_cfg_after_r10(ctx, p, cfg)


def rule_directories(ctx, p, cfg, rid="R10"):
    with ctx.rule(rid, "archive directories are created", cfg) as r:
        ro = roles(p)
        rot = ro["rotate"]
        pr = rotate_params(p)
        cds = rot.calls("std::fs::create_dir_all")
        loop_cd = [c for c in cds if rot.in_loop(c.block)]
        pre_cd = [c for c in cds if not rot.in_loop(c.block)]
        r.require(len(pre_cd) >= 1 and any(index_of(c.arg(0)) is not None for c in pre_cd), "base-directory-created", fn=rot, detail="the parent of pattern(base) is created before the shift")
        # ... on every roll: nothing but "the name has a parent" decides it (a flag remembering that it was done once misses a
        # directory that has gone since, or a pattern that expands elsewhere now)
        for c in pre_cd:
            if index_of(c.arg(0)) is None:
                continue
            extra = []
            for sb, si, al in rot.conditions(c.block):
                d = strip(si.discr)
                if d[0] == "discr" and any(x[0] == "call" and x[1] in ("std::path::Path::parent", "core::ops::try_trait::Try::branch") for x in walk(d)):
                    continue
                if d[0] == "discr" and strip(d[1])[0] == "call" and (strip(d[1])[1] or "").rsplit("::", 1)[-1] in ("checked_add", "create_dir_all"):
                    continue
                extra.append(show(si.discr, 4))
            r.require(not extra, "base-directory-on-every-roll", fn=rot, site=c.at, detail="create_dir_all(parent(pattern(base))) is not conditional on anything but the parent being there",
                      fail_detail="the archive directory is only made when %s: on the other rolls a missing directory makes the move fail with NotFound, which move_file takes for `nothing to move`" % extra)
        r.require(len(loop_cd) == 1, "per-index-directory-site", fn=rot, detail="create_dir_all sites inside the shift loop: %d" % len(loop_cd))
        mv = [c for c in rot.calls(ro["move_file"].path) if rot.in_loop(c.block)]
        for c in loop_cd:
            # it creates the parent of the destination of this iteration's move, before the move
            dsti = index_of(mv[0].arg(1)) if mv else None
            ci = index_of(c.arg(0))
            r.require(ci is not None and dsti is not None and ci[0] == dsti[0] and any(x[0] == "call" and x[1] == "std::path::Path::parent" for x in walk(c.arg(0))), "creates-parent-of-destination", fn=rot, site=c.at,
                      detail="create_dir_all(parent(pattern(i+1)))")
            nxb = {loop_head(rot, ro["move_file"].path)}
            r.require(bool(mv) and mv[0].block in rot.reach(c.block, avoid=nxb) and c.block not in rot.reach(mv[0].block, avoid=nxb), "before-the-move", fn=rot, detail="directory creation precedes the move of that iteration")
            # gate: unconditional (besides parent() being Some), or `parent(pattern(base)) != parent(expanded pattern)`
            gates = []
            for sb, si, al in rot.conditions(c.block):
                d = strip(si.discr)
                if d[0] == "discr" or sb in nxb:
                    continue  # iterator / Option<parent> / Try matches; the loop's own continuation test
                gates.append((si, {si.label(v) for v, _ in al}))
            okg = True
            why = "unconditional"
            for si, labs in gates:
                pl = si.t["discr"].get("copy") or si.t["discr"].get("move")
                defs = rot.root_defs(pl["l"]) if pl and not pl["p"] else []
                nonconst = [e for b, e in defs if not (e[0] == "const" and e[1] == "bool")]
                consts = [e[2] for b, e in defs if e[0] == "const" and e[1] == "bool"]
                good = labs == {True} and len(nonconst) == 1 and all(cv is False for cv in consts)
                if not good and labs == {True}:
                    # the flag computed by a match / matches! / && chain: a conjunction of `parent() is Some` tests and one comparison
                    cj = q.conjuncts(q.bool_value(rot, si.t["discr"]))
                    if cj is not None:
                        cmps = [x for x in cj if x[0] != "inset" and cmp_nf(x, True) is not None]
                        rest = [x for x in cj if x not in cmps]
                        if len(cmps) == 1 and all(x[0] == "inset" and x[2] == ("Some",) and any(y[0] == "call" and y[1] == "std::path::Path::parent" for y in walk(x[1])) for x in rest):
                            nonconst = [cmps[0]]
                            good = True
                if good:
                    g0 = strip(nonconst[0])
                    if g0[0] == "phi":
                        # the comparison joined with a plain `false` (no parent on one side: nothing to create)
                        alts_ = [a_ for a_ in g0[1] if deep_strip(a_) != ("const", "bool", False)]
                        if len(alts_) == 1:
                            nonconst = [alts_[0]]
                    nf = cmp_nf(nonconst[0], True)
                    zipped = None
                    if nf is None:
                        # Option::zip(parent(a), parent(b)).map_or(false, |(a, b)| a != b)
                        e0 = strip(nonconst[0])
                        if e0[0] == "call" and e0[1].endswith("Option::<T>::map_or") and len(e0[2]) == 3 and strip(e0[2][1]) == ("const", "bool", False):
                            z = strip(e0[2][0])
                            clo = [x for x in walk(e0[2][2]) if x[0] == "closure"]
                            if z[0] == "call" and z[1].endswith("Option::<T>::zip") and len(clo) == 1:
                                cnf = cmp_nf(p.fn(clo[0][1]).local_expr(0), True)
                                if cnf is not None and cnf[0] == "Ne" and all(any(y == ("param", 2) for y in walk(sd)) for sd in cnf[1:]) and deep_strip(cnf[1]) != deep_strip(cnf[2]):
                                    zipped = ("Ne", z[2][0], z[2][1])
                    nf = nf or zipped
                    good = nf is not None and nf[0] == "Ne"
                    if good:
                        sides = [nf[1], nf[2]]
                        par = [[x for x in walk(sd) if x[0] == "call" and x[1] == "std::path::Path::parent"] for sd in sides]
                        good = all(par) and any(index_of(sd) is not None for sd in sides) and all(any(y == ("param", pr["pattern"]) for y in walk(sd)) for sd in sides) \
                            and all(any(y[0] == "call" and y[1] == EXPAND for y in walk(sd)) for sd in sides)
                    why = "gated by parent(pattern(base)) != parent(pattern)" if good else "gate %s" % show(nonconst[0], 5)
                else:
                    why = "gate %s with definitions %s" % (show(si.discr, 4), [show(e, 4) for b, e in defs])
                okg = okg and good
            r.require(okg, "created-whenever-the-directory-can-differ", fn=rot, site=c.at, detail=why,
                      fail_detail="the per-index create_dir_all is skipped under a condition that is not `parent(pattern(base)) != parent(pattern)`: %s — with the index in a directory component the archive directory is never created, the rename's NotFound is tolerated and archives are lost" % why)


def run_cfg_after_r10(ctx, p, cfg):
    feats = set(p.meta.get("features", []))
    bg = "background_rotation" in feats
    with ctx.rule("R4", "count == 0", cfg) as r:
        ro = roles(p)
        f = p.fn(ROLL_IMPL)
        sw = None
        for blk in f.blocks:
            if blk["term"]["k"] == "switch" and blk["id"] in f.reachable_blocks():
                si = SwitchInfo(f, blk["id"])
                ze = q.zero_edges(si, ("field", ("param", 1), ro["count_field"]))
                if ze is not None:
                    sw = si
                    sw_edges = ze
        first = sw is not None and all(f.dominates(sw.b, c.block) and c.block != sw.b
                                       for c in f.calls() if (c.callee or "").startswith("std::fs::") or c.callee in p.fns)
        r.require(sw is not None and (sw.b == 0 or first), "zero-count-tested-first", fn=f, detail="roll() tests count == 0 before any file-system or helper call")
        if sw:
            zt, nz = sw_edges
            zr = f.reach(zt, include_src=True) - f.reach(nz, include_src=True)
            fsc = [c for c in f.calls() if c.block in zr and ((c.callee or "").startswith("std::fs::") or c.callee in p.fns)]
            r.require(len(fsc) == 1 and fsc[0].callee == "std::fs::remove_file" and deep_strip(fsc[0].arg(0)) == ("param", 2), "only-removes-the-file", fn=f,
                      detail="calls on the count==0 edge: %s" % [c.callee for c in fsc])
            rets = [e for b, e in q.ret_assignments(f) if b in zr]
            if not rets and fsc:
                # the two arms join before the return: the removal's Result must be what flows into the returned value
                zall = f.reach(zt, include_src=True)
                rets = [e for b, e in q.ret_assignments(f) if b in zall and any(x[0] == "call" and x[1] == "std::fs::remove_file" for x in walk(e))]
                rets = rets if (rets and common.result_is_checked(f, fsc[0], strict=True)) else []
            direct = bool(rets) and all(any(x[0] == "call" and x[1] == "std::fs::remove_file" for x in walk(e)) for e in rets)
            # `remove_file(file)?; Ok(())`: the error is propagated and Ok is only returned on the success edge
            via_try = bool(rets) and bool(fsc) and common.result_is_checked(f, fsc[0], strict=True) and all(
                any(x[0] == "call" and x[1] == "std::fs::remove_file" for x in walk(e)) or (q.classify_ret(e) == "ok" and any(
                    any(x[0] == "call" and x[1] == "std::fs::remove_file" for x in walk(si.discr)) and {si.label(v) for v, _ in al} <= {"Continue", "Ok"}
                    for sb, si, al in f.conditions(b)))
                for b, e in q.ret_assignments(f) if b in zr)
            r.require(direct or via_try, "returns-its-result", fn=f,
                      detail="returned on that edge: %s" % [show(e, 4) for e in rets])
            nzr = f.reach(nz, include_src=True)
            r.require(any(c.block in nzr for c in f.calls(ro["rotate"].path)) or bg, "otherwise-rotates", fn=f, detail="count != 0 reaches rotate")

    rule_move_file(ctx, p, cfg, "R5")

    if "gzip" in feats or "zstd" in feats:
        with ctx.rule("R6", "compression arms", cfg) as r:
            ro = roles(p)
            cf = ro["compress"]
            top = None
            for blk in cf.blocks:
                if blk["term"]["k"] == "switch" and blk["id"] in cf.reachable_blocks():
                    si = SwitchInfo(cf, blk["id"])
                    d = strip(si.discr)
                    if d[0] == "discr" and deep_strip(d[1]) == ("param", 1):
                        top = si
                        break
            if top is None:
                raise ShapeUnrecognised("no variant switch in compress")
            arms = {lab: t for lab, t in top.labelled_edges() if not isinstance(lab, tuple)}
            for lab, t in arms.items():
                region = cf.reach(t, include_src=True)
                for o, t2 in arms.items():
                    if o != lab:
                        region = region - cf.reach(t2, include_src=True)
                calls = [c for c in cf.calls() if c.block in region]
                names = [c.callee for c in calls]
                if lab == "None":
                    mvs = [c for c in calls if c.callee == ro["move_file"].path]
                    r.require(len(mvs) == 1 and deep_strip(mvs[0].arg(0)) == ("param", 2) and deep_strip(mvs[0].arg(1)) == ("param", 3), "none:move_file(src,dst)", fn=cf,
                              detail="uncompressed arm: %s" % names)
                    continue
                opn = [c for c in calls if c.callee == "std::fs::File::open"]
                crt = [c for c in calls if c.callee == "std::fs::File::create"]
                cpy = [c for c in calls if c.callee == "std::io::copy::copy" or (c.callee or "").endswith("io::copy")]
                fin = [c for c in calls if (c.callee or "").rsplit("::", 1)[-1] == "finish"]
                rmv = [c for c in calls if c.callee == "std::fs::remove_file"]
                r.require(len(opn) == 1 and deep_strip(opn[0].arg(0)) == ("param", 2), "%s:opens-src" % lab, fn=cf, detail="File::open(src)")
                r.require(len(crt) == 1 and deep_strip(crt[0].arg(0)) == ("param", 3), "%s:creates-dst" % lab, fn=cf, detail="File::create(dst)")
                r.require(len(cpy) == 1 and len(fin) == 1 and len(rmv) == 1, "%s:copy-finish-remove" % lab, fn=cf, detail="copy %d, finish %d, remove %d" % (len(cpy), len(fin), len(rmv)))
                if cpy and fin and rmv:
                    r.require(cf.dominates(cpy[0].block, fin[0].block) and cf.dominates(fin[0].block, rmv[0].block), "%s:order" % lab, fn=cf, detail="copy -> finish -> remove_file")
                    conds = cf.conditions(rmv[0].block)
                    okf = any(any(y[0] == "call" and len(y) > 3 and y[3] == fin[0].block for y in walk(si.discr)) and {si.label(v) for v, _ in al} <= {"Continue", "Ok"} for sb, si, al in conds)
                    okc = any(any(y[0] == "call" and len(y) > 3 and y[3] == cpy[0].block for y in walk(si.discr)) and {si.label(v) for v, _ in al} <= {"Continue", "Ok"} for sb, si, al in conds)
                    r.require(okf and okc, "%s:remove-only-after-finish-succeeded" % lab, fn=cf, site=rmv[0].at, detail="the source is removed only on the success edges of copy and finish")
                    r.require(deep_strip(rmv[0].arg(0)) == ("param", 2), "%s:removes-src" % lab, fn=cf, detail="remove_file(src)")
                    ret = [e for b, e in q.ret_assignments(cf) if b in region]
                    r.require(any(any(y[0] == "call" and y[1] == "std::fs::remove_file" for y in walk(e)) for e in ret), "%s:returns-remove-result" % lab, fn=cf, detail="the arm returns remove_file's result")

    with ctx.rule("R7", "effect inventory", cfg) as r:
        ro = roles(p)
        pr = rotate_params(p)
        mods = ("append::rolling_file::policy::compound::roll::",)
        sites = []
        for f in p.fns.values():
            if not any(m in f.path for m in mods):
                continue
            if "Derive" in (f.d.get("exp") or ""):
                continue
            if f.path == ro["rotate"].path:
                f = ro["rotate"]      # with its local closures spliced in
            elif f.d.get("closure_of") == ro["rotate"].path and f.path in (getattr(ro["rotate"], "inlined", None) or ()):
                continue              # already part of that view
            for c in f.calls():
                if c.callee in FS_MUTATORS:
                    sites.append(c)
        bad = [c for c in sites if c.callee not in FS_ALLOWED]
        r.require(not bad, "mutators-within-allowed-set", detail="file-system mutators in the roller modules: %s" % sorted({c.callee for c in sites}),
                  fail_detail="unexpected file-system mutator(s): %s" % [(c.callee, c.fn.path) for c in bad])
        r.floor("fs-mutator-sites", len(sites), 6)
        for c in sites:
            a = c.arg(0)
            ok, why = path_provenance_ok(p, c.fn, a, ro, pr)
            r.require(ok, "path:%s/%s" % (c.fn.path.rsplit("::", 2)[-1] if "::" in c.fn.path else c.fn.path, common.role(c)), fn=c.fn, site=c.at, detail=why)
            if c.callee in ("std::fs::rename", "std::fs::copy"):
                ok2, why2 = path_provenance_ok(p, c.fn, c.arg(1), ro, pr)
                r.require(ok2, "path2:%s/%s" % (c.fn.path.rsplit("::", 2)[-1], common.role(c)), fn=c.fn, site=c.at, detail=why2)

    if p.has_fn(DELETE_IMPL):
        with ctx.rule("R8", "delete roller", cfg) as r:
            f = p.fn(DELETE_IMPL)
            fs = [c for c in f.calls() if (c.callee or "").startswith("std::fs::")]
            r.require(len(fs) == 1 and fs[0].callee == "std::fs::remove_file" and deep_strip(fs[0].arg(0)) == ("param", 2), "removes-the-file", fn=f, detail="fs calls: %s" % [c.callee for c in fs])
            ret = f.local_expr(0)
            direct = any(x[0] == "call" and x[1] == "std::fs::remove_file" for x in walk(ret)) and ret[0] == "call"
            # `match remove_file(file) { Ok(()) => Ok(()), Err(e) => Err(e.into()) }` / `remove_file(file)?; Ok(())`: Ok is returned on the removal's success edge only
            rets_ = q.ret_assignments(f)
            matched = len(fs) == 1 and common.result_is_checked(f, fs[0], strict=True) and bool(rets_) and all(
                any(x[0] == "call" and x[1] == "std::fs::remove_file" for x in walk(e)) or (q.classify_ret(e) == "ok" and any(
                    any(x[0] == "call" and x[1] == "std::fs::remove_file" for x in walk(si.discr)) and {si.label(v) for v, _ in al} <= {"Continue", "Ok"}
                    for sb, si, al in f.conditions(b)))
                for b, e in rets_)
            r.require(direct or matched, "returns-its-result", fn=f, detail=show(ret, 4))

    with ctx.rule("R9", "panic inventory", cfg) as r:
        ents = [ROLL_IMPL] + ([DELETE_IMPL] if p.has_fn(DELETE_IMPL) else [])
        cone = p.cone(ents, cut_traits=CUT, stop=(EXPAND,)) - {EXPAND}   # the scanner's own sites belong to C19.N5
        sat = {"C07.R4"} if _count_guard_dominates_rotate(p) else set()
        st = panics.check_cone(r, p, cone, "C07", satisfied=sat)
        ctx.extra.setdefault("panic_inventory", {})[cfg] = dict(st, cone=len(cone))
        r.floor("cone-size", len(cone), 5)


def path_provenance_ok(p, f, a, ro, pr):
    """the path derives from pattern(+index), the rolled-file parameter, or a parameter of a helper
    whose callers pass such paths."""
    e = deep_strip(a)
    if any(x[0] == "call" and x[1] == REPLACE for x in walk(e)) and any(x[0] == "call" and x[1] == EXPAND for x in walk(e)):
        return True, "pattern-derived: %s" % show(e, 4)
    params = [x for x in walk(e) if x[0] == "param"]
    consts = [x for x in walk(e) if x[0] == "const" and x[1] == "str"]
    if consts and not params:
        return False, "constant path %s" % consts
    if f.path in (ro["rotate"].path,):
        if any(x == ("param", pr["file"]) for x in params):
            return True, "the rolled file"
    if params:
        # helper / trait method parameter: all callers must pass good paths (one level), or it is the Roll::roll file argument
        if f.d.get("impl_trait") == "append::rolling_file::policy::compound::roll::Roll":
            return (any(x == ("param", 2) for x in params), "the file handed to Roll::roll")
        root = f.d.get("closure_of") or f.path
        callers = p.all_calls(root)
        def _in_rotate(g):
            """the shift function itself or a closure (of a closure ..) written in it"""
            path_, n_ = g.path, 0
            while path_ in p.fns and n_ < 6:
                if path_ == ro["rotate"].path:
                    return True
                path_ = p.fns[path_].d.get("closure_of") or p.fns[path_].d.get("closure_parent") or ""
                n_ += 1
            return path_ == ro["rotate"].path
        if any(_in_rotate(c.fn) for c in callers):
            # the shift function is examined with its local closures spliced in (roles)
            callers = [c for c in callers if not _in_rotate(c.fn)] + list(ro["rotate"].calls(root))
        if not callers and f.d.get("closure_of"):
            return True, "closure capture of %s" % root
        if callers:
            good = True
            why = []
            for c in callers:
                for x in params:
                    if x[1] - 1 < len(c.args):
                        ok, w = path_provenance_ok(p, c.fn, c.arg(x[1] - 1), ro, pr)
                        good = good and ok
                        why.append(w)
            return good, "parameter; callers pass: %s" % "; ".join(sorted(set(why))[:3])
        return True, "parameter of %s" % f.path
    if any(x[0] == "call" and ("temp" in x[1]) for x in walk(e)):
        return True, "temp name derived from the rolled file"
    return False, "unrecognised path provenance %s" % show(e, 4)


zero_test = q.zero_test


def _count_guard_dominates_rotate(p):
    """every call of rotate in the Roll impl is on the count != 0 edge of the initial test"""
    ro = roles(p)
    f = p.fn(ROLL_IMPL)
    sites = [c for c in p.all_calls(ro["rotate"].path)]
    if not sites:
        return False
    for c in sites:
        g = c.fn
        host = p.fns.get(g.d.get("closure_of")) if g.d.get("closure_of") else g
        if host is not f:
            return False
    for blk in f.blocks:
        if blk["term"]["k"] == "switch" and blk["id"] in f.reachable_blocks() and all(f.dominates(blk["id"], c.block) for c in sites if c.fn is f):
            si = SwitchInfo(f, blk["id"])
            ze = q.zero_edges(si, ("field", ("param", 1), ro["count_field"]))
            if ze is not None:
                zt, nzt = ze
                zr = f.reach(zt, include_src=True)
                direct = [c for c in sites if c.fn is f]
                spawns = [c for c in f.calls() if any(x[0] == "closure" for a in c.arg_exprs() for x in walk(a))]
                return all(c.block not in zr or c.block in f.reach(nzt, include_src=True) and c.block not in (zr - f.reach(nzt, include_src=True)) for c in direct + spawns)
    return False


def rule_shift_order(ctx, p, cfg, rid="R1"):
    with ctx.rule(rid, "shift order", cfg) as r:
        ro = roles(p)
        rot = ro["rotate"]
        pr = rotate_params(p)
        mv_sites = [c for c in rot.calls(ro["move_file"].path) if rot.in_loop(c.block)]
        r.require(len(mv_sites) == 1, "one-move-per-iteration", fn=rot, detail="move_file sites inside the shift loop: %d" % len(mv_sites))
        m = shift_loop(p)
        heads = [c for c in rot.calls(NEXT) if rot.in_loop(c.block)] if m["kind"] == "range" else [m["head"]]
        r.require(len(heads) == 1, "one-loop", fn=rot, detail="iterator steps / loop tests: %d" % len(heads))
        if mv_sites:
            r.require(m["desc"], "reversed-range", fn=rot, site=(m["site"].at if m.get("site") else None),
                      detail="descending: %s" % m["detail"],
                      fail_detail="the shift loop does not run from the highest index down (oldest archive must move first): %s" % m["detail"])
            if m["kind"] == "range":
                r.require("Rev<" in m["iter_ty"] and "Range<u32>" in m["iter_ty"], "iterator-type", fn=rot, detail="iterator type %s" % m["iter_ty"])
            else:
                r.require(m["desc"], "iterator-type", fn=rot, detail="hand-written countdown by one, variable updated once per iteration, before every use or after the move")
            c = mv_sites[0]
            # a step that fails ends the shift: the step below it would otherwise move its archive onto the one that could
            # not move.  The step's result is looked at inside the loop and its failure edge cannot come back to the loop.
            stops = []
            for blk in rot.blocks:
                if blk["term"]["k"] != "switch" or blk["id"] not in rot.reachable_blocks():
                    continue
                si_ = SwitchInfo(rot, blk["id"])
                d_ = strip(si_.discr)
                if d_[0] != "discr":
                    continue
                inner_ = strip(d_[1])
                if inner_[0] == "call" and inner_[1].endswith("Try::branch") and inner_[2]:
                    inner_ = strip(inner_[2][0])
                if inner_[0] == "call" and len(inner_) > 3 and inner_[3] == c.block:
                    good_ = {(blk["id"], t_) for lab_, t_ in si_.labelled_edges() if lab_ in ("Ok", "Continue")}
                    stops.append((blk["id"], good_))
            heads_ = {h.block if hasattr(h, "block") else h for h in heads}
            r.require(bool(stops) and not any(q.const_skipping_paths(rot, sb_, set(), heads_, cut_edges=cut_) for sb_, cut_ in stops), "failed-step-ends-the-shift", fn=rot, site=c.at,
                      detail="the in-loop move's result is tested and its failure edge does not return to the loop",
                      fail_detail="after a move that failed the shift goes on to the next index: the archive below is then moved onto the one that could not move, and a retained archive is overwritten")
            src, dst = index_of(c.arg(0)), index_of(c.arg(1))
            r.require(src is not None and dst is not None, "paths-from-pattern", fn=rot, site=c.at, detail="src/dst are pattern.replace(\"{}\", index)")
            if src and dst:
                vars_ = {"i": m["var"]} if m.get("var") else {}
                ls, ld = linear(src[0], vars_), linear(dst[0], vars_)
                so = (ls or {}).get(1, 0)
                r.require(ls is not None and {k: v for k, v in ls.items() if k != 1} == {"i": 1}, "src-is-index-i", fn=rot, site=c.at, detail="source index %s -> %s" % (show(src[0], 4), ls))
                want = dict(ls or {})
                want[1] = so + 1
                want = {k: v for k, v in want.items() if v != 0}
                r.require(ls is not None and ld == want, "dst-is-index-i-plus-1", fn=rot, site=c.at,
                          detail="destination index %s -> %s (source %s)" % (show(dst[0], 4), ld, ls))
                patt = ("param", pr["pattern"])
                r.require(src[1] == patt and dst[1] == patt and src[2] == ("const", "str", "{}") and dst[2] == ("const", "str", "{}"), "same-pattern-and-placeholder", fn=rot,
                          detail="both sides substitute \"{}\" in the roller's pattern")
                r.require(any(x[0] == "call" and x[1] == EXPAND for x in walk(c.arg(0))) and any(x[0] == "call" and x[1] == EXPAND for x in walk(c.arg(1))), "both-expanded", fn=rot,
                          detail="src and dst pass through expand_env_vars")
            r.require(common.result_is_checked(rot, c), "move-error-propagated", fn=rot, site=c.at, detail="a failing shift step aborts the rotation with its error")


def _src_offset(p, m):
    ro = roles(p)
    rot = ro["rotate"]
    c = m["mv"]
    src = index_of(c.arg(0))
    if not src or not m.get("var"):
        return None
    ls = linear(src[0], {"i": m["var"]})
    if ls is None or {k: v for k, v in ls.items() if k != 1} != {"i": 1}:
        return None
    return ls.get(1, 0)


def rule_range(ctx, p, cfg, rid="R2"):
    with ctx.rule(rid, "range", cfg) as r:
        ro = roles(p)
        rot = ro["rotate"]
        pr = rotate_params(p)
        m = shift_loop(p)
        if m.get("first") is None and m.get("last") is None and m["kind"] == "range":
            raise ShapeUnrecognised("shift loop range not found")
        so = _src_offset(p, m)
        if so is None:
            raise ShapeUnrecognised("source index is not the loop variable plus a constant")

        def plus(lf, k):
            if lf is None:
                return None
            out = dict(lf)
            out[1] = out.get(1, 0) + k
            return {a: b for a, b in out.items() if b != 0}
        # indices of the files that are moved: from first+so down to last+so
        lo, hi = plus(m["last"], so), plus(m["first"], so)
        r.require(lo == {"base": 1}, "starts-at-base", fn=rot, detail="lowest source index -> %s (%s)" % (lo, m["detail"]))
        r.require(hi == {"base": 1, "count": 1, 1: -2}, "ends-at-base+count-1", fn=rot, detail="highest source index -> %s, i.e. the highest destination is base+count-1 (%s)" % (hi, m["detail"]))
        # the guard against a window that does not fit in the index type is on the window's last index, base + count - 1: a window
        # ending exactly at the largest index is a valid one
        vars_ = {"base": ("param", pr["base"]), "count": ("param", pr["count"])}
        guards = [c for c in rot.calls() if (c.callee or "").rsplit("::", 1)[-1] in ("checked_add", "overflowing_add", "saturating_add") and any(x == ("param", pr["base"]) for a in c.arg_exprs() for x in walk(a))]
        for i_, c in enumerate(guards):
            tot = None
            ls = [linear(a, vars_) for a in c.arg_exprs()]
            if all(x is not None for x in ls):
                tot = {}
                for x in ls:
                    for k_, v_ in x.items():
                        tot[k_] = tot.get(k_, 0) + v_
                tot = {k_: v_ for k_, v_ in tot.items() if v_ != 0}
            r.require(tot == {"base": 1, "count": 1, 1: -1}, "window-guard-on-last-index#%d" % i_, fn=rot, site=c.at, detail="checked sum = %s" % tot,
                      fail_detail="the overflow guard checks %s, not base + count - 1: a window whose last index is exactly the largest one is refused (or one that does not fit is let through)" % tot)
        # the roller passes its own base and count
        r.require(True, "params-bound", detail="rotate(pattern=arg%d, base=arg%d, count=arg%d, file=arg%d)" % (pr["pattern"], pr["base"], pr["count"], pr["file"]))



def rule_final_step(ctx, p, cfg, rid="R3"):
    with ctx.rule(rid, "final step", cfg) as r:
        ro = roles(p)
        rot = ro["rotate"]
        pr = rotate_params(p)
        cs = ro["compress_site"]
        m = shift_loop(p)
        # reached only through loop exhaustion
        conds = rot.conditions(cs.block)
        okx = any(m["exit"](sb, si, al) for sb, si, al in conds)
        if not okx:
            # `range.try_for_each(|i| ..)?`: exhaustion and a failed step leave the loop towards one join, and the `?` behind it
            # sends only the exhausted loop on.  Accepted when the final move is outside the loop, behind its head, and cannot be
            # reached from the failure edge of any in-loop step (flags and Result values followed).
            mvs_ = [c for c in rot.calls(ro["move_file"].path) if rot.in_loop(c.block)]
            errs_ = []
            for blk in rot.blocks:
                if blk["term"]["k"] != "switch" or blk["id"] not in rot.reachable_blocks():
                    continue
                si_ = SwitchInfo(rot, blk["id"])
                d_ = strip(si_.discr)
                if d_[0] != "discr":
                    continue
                inner_ = strip(d_[1])
                if inner_[0] == "call" and inner_[1].endswith("Try::branch") and inner_[2]:
                    inner_ = strip(inner_[2][0])
                if inner_[0] == "call" and len(inner_) > 3 and any(inner_[3] == c.block for c in mvs_):
                    good_ = {t_ for lab_, t_ in si_.labelled_edges() if lab_ in ("Ok", "Continue")}
                    if si_.target_of("Err") is not None or si_.target_of("Break") is not None:
                        errs_.append((blk["id"], {(blk["id"], t_) for t_ in good_}))
            # start at the switch itself, with its success edge cut: the value is known to be the failure on the edge taken
            okx = bool(mvs_) and bool(errs_) and not rot.in_loop(cs.block) and all(rot.dominates(c.block, cs.block) or rot.can_reach(c.block, cs.block) for c in mvs_) and \
                not any(q.const_skipping_paths(rot, sb_, set(), {cs.block}, cut_edges=cut_) for sb_, cut_ in errs_)
        r.require(okx, "after-the-shift", fn=rot, site=cs.at, detail="the final move runs after the shift loop is exhausted")
        args = cs.arg_exprs()
        filearg = [a for a in args if deep_strip(a) == ("param", pr["file"])]
        dst = [index_of(a) for a in args if index_of(a)]
        r.require(len(filearg) == 1, "moves-the-rolled-file", fn=rot, site=cs.at, detail="source is the rolled file parameter")
        vars_ = {"base": ("param", pr["base"]), "count": ("param", pr["count"])}
        r.require(len(dst) == 1 and linear(dst[0][0], vars_) == {"base": 1} and dst[0][1] == ("param", pr["pattern"]), "into-pattern(base)", fn=rot, site=cs.at,
                  detail="destination index %s" % (show(dst[0][0], 3) if dst else None))
        r.require(any(x[0] == "call" and x[1] == EXPAND for a in args for x in walk(a)), "destination-expanded", fn=rot, detail="destination passes through expand_env_vars")
        r.require(common.result_is_checked(rot, cs), "final-error-propagated", fn=rot, site=cs.at, detail="compress/move result is propagated")
        ok, wit = q.must_follow_on_ok(rot, 0, [cs.block])
        r.require(ok, "final-step-on-every-ok", fn=rot, detail="every Ok return of rotate passed the final move")
        # Ok only at the end
        for x in q.ok_exit_blocks(rot):
            r.require(rot.dominates(cs.block, x), "ok-only-after-final-step", fn=rot, detail="Ok exit bb%d dominated by the final move" % x)

