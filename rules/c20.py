"""C20 — size and interval literals parse exactly; bad or overflowing ones are rejected."""
from l4sa import q, tables
from l4sa.core import AnchorMissing, ShapeUnrecognised, SwitchInfo, strip, deep_strip, walk, show, calls_in, cmp_nf
from rules import common

CLAIMED = True
TECHNIQUE = "static analysis over type-checked MIR: guarded-table extraction of the unit->multiplier / unit->variant decision chains with constant folding, checked-arithmetic inventory with None-edge reachability, sign/range guard dominance for every integer cast of a deserialised value"
LEVEL_TEXT = """Static, all-paths decision of: (L1) the size unit table extracted from the compare chain of the size visitor: b->x1, kb/kib->1024, mb/mib->1024^2, gb/gib->1024^3, tb/tib->1024^4 (constants folded), compared case-insensitively, unknown unit -> Err; (L2) every multiplication is u64::checked_mul whose None edge reaches an Err return (no *, wrapping_*, saturating_*); (L3) digits/unit split at the first non-ASCII-digit with trim on both parts, number through str::parse::<u64>/<i64> with the Err edge reaching Err, bare number -> bytes/seconds, and visit_i64 returns Err on the dominating v < 0 edge in both visitors; (L4) every integer cast applied to a deserialised value in the two visitors is dominated by a range guard; (L5) interval unit table second(s)->Second ... year(s)->Year, singular and plural in one alias group, case-insensitive, unknown -> Err; (L6) refresh_rate goes through humantime::parse_duration with its error mapped to a serde error. The numeric behaviour of std's parse/checked_mul and of humantime is trusted. (L8, cont.) visit_u64/visit_i64 return the integer itself (bytes / Second(v)); (L3, cont.) a string without a unit is Second(the parsed number) with no arithmetic on it; (L9a-c) the three visitors implement the documented entry points only, any other visit_* being a plain hand-over of its argument to one of them. (L3, cont.) the bare-number decision is followed from the entry with constants on the None edge of the non-digit search. (L10) no comparison on the length of the literal's text leads only to errors."""
LEVEL_NOTE = "Trusted: rustc MIR/callee resolution; core::str::parse, u64::checked_mul, str::eq_ignore_ascii_case, humantime::parse_duration; serde's visitor dispatch."
EXPLANATION = """Decided: L1 multiplier table, L2 checked multiplication with rejecting None edge, L3 split/trim/parse/sign guards, L4 cast inventory under range guards, L5 interval unit table, L6 refresh_rate via humantime. Undecided: nothing of substance beyond the trusted std/humantime parsers."""
DECIDED = ["L1 size unit table", "L2 overflow checked", "L3 number parsing and sign guards", "L4 guarded casts", "L5 interval unit table", "L6 refresh_rate via humantime"]
UNDECIDED = ["std integer parsing / humantime internals (trusted)"]
TRUSTED = ["rustc nightly MIR + Instance::try_resolve", "core::str::parse / checked_mul / eq_ignore_ascii_case", "humantime", "serde visitor dispatch"]

SIZE_V = "<append::rolling_file::policy::compound::trigger::size::deserialize_limit::V as serde_core::de::Visitor<'de2>>::"
TIME_V = "<<append::rolling_file::policy::compound::trigger::time::TimeTriggerInterval as serde_core::de::Deserialize<'de>>::deserialize::V as serde_core::de::Visitor<'de2>>::"
INTERVAL = "append::rolling_file::policy::compound::trigger::time::TimeTriggerInterval"
CI = "core::str::<impl str>::eq_ignore_ascii_case"
SIZE_TABLE = {"b": 1, "kb": 1024, "kib": 1024, "mb": 1024 ** 2, "mib": 1024 ** 2, "gb": 1024 ** 3, "gib": 1024 ** 3, "tb": 1024 ** 4, "tib": 1024 ** 4}
TIME_TABLE = {"second": "Second", "seconds": "Second", "minute": "Minute", "minutes": "Minute", "hour": "Hour", "hours": "Hour",
              "day": "Day", "days": "Day", "week": "Week", "weeks": "Week", "month": "Month", "months": "Month", "year": "Year", "years": "Year"}


def run(ctx):
    configs = ["default"] if ctx.tier == "quick" else ["default", "release", "full", "single:config_parsing,size_trigger,time_trigger,rolling_file_appender,compound_policy"]
    for cfg in configs:
        p = ctx.prog(cfg)
        if "config_parsing" not in p.meta.get("features", []):
            continue
        run_cfg(ctx, p, cfg)


def err_blocks(f):
    return {b for b, e in q.ret_assignments(f) if q.classify_ret(e) in ("err", "residual")}


def ok_blocks(f):
    return {b for b, e in q.ret_assignments(f) if q.classify_ret(e) == "ok"}


def only_err_from(f, start):
    """from block start every return assignment reachable is an error"""
    r = f.reach(start, include_src=True)
    oks = ok_blocks(f) & r
    errs = err_blocks(f) & r
    if oks and errs:
        # Option / Result values built on the way decide the matches on them (`.find(..)` came back None, so `.map(..)` is None
        # and `.ok_or_else(..)` is the error)
        oks = q.const_skipping_paths(f, start, set(), ok_blocks(f)) | ({start} & ok_blocks(f))
    return bool(errs) and not oks


def split_and_parse(r, f, who, ty):
    # number/unit split at the first non-ASCII-digit
    fd = f.calls("core::str::<impl str>::find")
    r.require(len(fd) == 1 and deep_strip(fd[0].arg(0)) == ("param", 2), "%s:split-on-input" % who, fn=f, detail="str::find on the visited string")
    if fd:
        clo = [x for x in walk(fd[0].arg(1)) if x[0] == "closure"]
        okc = False
        if clo:
            cf = f.prog.fn(clo[0][1])
            e = cf.local_expr(0)
            okc = e[0] == "un" and e[1] == "Not" and strip(e[2])[0] == "call" and strip(e[2])[1] == "core::char::methods::<impl char>::is_ascii_digit"
        r.require(okc, "%s:split-at-first-non-digit" % who, fn=f, detail="predicate is !c.is_ascii_digit()")
    ps = f.calls("core::str::<impl str>::parse")
    r.require(len(ps) == 1 and ps[0].t.get("generic_args") == [ty], "%s:parse-type" % who, fn=f, detail="number parsed as %s (generic args %s)" % (ty, ps[0].t.get("generic_args") if ps else None))
    if ps:
        a = ps[0].arg(0)

        def alts_of(e):
            # the parse input may come out of a (number, unit) pair built on several edges: project each alternative
            e = strip(e)
            if e[0] == "phi":
                out = []
                for x in e[1]:
                    out.extend(alts_of(x))
                return out
            if e[0] == "field" and e[2].isdigit():
                out = []
                for x in alts_of(e[1]):
                    x = strip(x)
                    out.append(x[1][int(e[2])] if x[0] == "tuple" and int(e[2]) < len(x[1]) else ("field", x, e[2]))
                return out
            return [e]
        alts = alts_of(a)
        okt = all(strip(x)[0] == "call" and strip(x)[1] == "core::str::<impl str>::trim" for x in alts)
        r.require(okt, "%s:number-trimmed" % who, fn=f, detail="parse input: %s" % show(a, 5))
        # Err edge of parse -> Err
        for blk in f.blocks:
            if blk["term"]["k"] == "switch" and blk["id"] in f.reachable_blocks():
                si = SwitchInfo(f, blk["id"])
                d = strip(si.discr)
                if d[0] == "discr" and strip(d[1])[0] == "call" and strip(d[1])[1] == "core::str::<impl str>::parse":
                    et = si.target_of("Err")
                    r.require(et is not None and only_err_from(f, et), "%s:parse-error-rejected" % who, fn=f, detail="the Err edge of parse reaches only Err returns")
    # unit trimmed
    tests = tables.string_key_tests(f)
    if tests:
        subj = tests[0][3]
        r.require(any(x[0] == "call" and x[1] == "core::str::<impl str>::trim" for x in walk(subj)), "%s:unit-trimmed" % who, fn=f, detail="unit operand: %s" % show(subj, 6))
        r.require(all(t[3] == subj for t in tests), "%s:same-unit-operand" % who, fn=f, detail="every comparison tests the same unit string")
        lowered = any(x[0] == "call" and x[1].rsplit("::", 1)[-1] == "to_ascii_lowercase" for x in walk(subj))   # to_lowercase() is Unicode-aware: U+212A folds to k
        r.require(all(t[2] == "ci" or (t[2] == "eq" and lowered and t[1] == t[1].lower()) for t in tests), "%s:case-insensitive" % who, fn=f,
                  detail="unit comparisons use eq_ignore_ascii_case, or exact comparison of the lower-cased unit with lower-case keys")
    return tests


def choice_sinks(f, gd):
    """[(block, expr)]: for the definitions of a value chosen on several edges (q.guarded_defs(.., chains=True)), the one
    block of each choice's chain that no other choice shares; None if some choice has no block of its own"""
    vals_ = [(ch_, e_) for ch_, c_, e_ in gd if ch_ and e_ != ("never",)]
    groups_ = {}
    for ch_, e_ in vals_:
        g_ = groups_.setdefault((ch_[-1], repr(e_)), [ch_, set(ch_), e_])
        g_[1] &= set(ch_)
    cnt_ = {}
    for k_, (ch_, common_, e_) in groups_.items():
        for b_ in common_:
            cnt_[b_] = cnt_.get(b_, 0) + 1
    out = []
    for k_, (ch_, common_, e_) in groups_.items():
        own = [b_ for b_ in ch_ if b_ in common_ and cnt_[b_] == 1 and not f.in_loop(b_)]
        if not own:
            return None
        out.append((own[0], e_))
    return out


def rule_size_table(ctx, p, cfg, rid="L1"):
    with ctx.rule(rid, "size multiplier table", cfg) as r:
        f = p.fn_unrolled(SIZE_V + "visit_str")
        tests = tables.string_key_tests(f)
        sinks = {}
        for c in f.calls():
            nm = (c.callee or "")
            if "::checked_mul" in nm or "::wrapping_mul" in nm or "::saturating_mul" in nm or "::overflowing_mul" in nm or nm.endswith("::pow") or "::checked_pow" in nm or "::checked_shl" in nm:
                sinks[c.block] = ("mul", c)
        for b, i, s in f.assigns():
            rv = s["rv"]
            if rv["k"] == "agg" and rv.get("adt") == "core::option::Option" and rv.get("variant") == "Some":
                sinks.setdefault(b, ("some", f._rvalue(rv, frozenset(), 30, b)))
            if rv["k"] == "bin" and rv["op"] in ("Mul", "MulWithOverflow", "Shl") and rv.get("ty") == "u64" and tables.fold_int(f._rvalue(rv, frozenset(), 30, b)) is None:
                sinks[b] = ("rawmul", f._rvalue(rv, frozenset(), 30, b))
        # a factor looked up first and multiplied once afterwards: the edges that choose the factor are the sinks, each with the
        # value chosen there (a row of a table, a match arm); the multiplication itself then says nothing per unit
        looked_up = set()
        for blk, (kind, x) in list(sinks.items()):
            if kind == "mul" and tables.fold_int(x.arg(1)) is None and len(x.t.get("args", [])) > 1:
                gd = q.guarded_defs(f, x.t["args"][1], chains=True)
                vals_ = [(ch_, tables.fold_int(e_)) for ch_, c_, e_ in gd if ch_ and e_ != ("never",)]
                if len(vals_) >= 2 and all(v_ is not None for ch_, v_ in vals_):
                    # the sink of a choice is the one block of its chain that no other choice shares
                    groups_ = {}
                    for ch_, v_ in vals_:      # the same choice reached through several outer copies is one choice
                        g_ = groups_.setdefault((ch_[-1], v_), [ch_, set(ch_)])
                        g_[1] &= set(ch_)
                    cnt_ = {}
                    for (last_, v_), (ch_, common_) in groups_.items():
                        for b_ in common_:
                            cnt_[b_] = cnt_.get(b_, 0) + 1
                    okc = True
                    for (last_, v_), (ch_, common_) in groups_.items():
                        own = [b_ for b_ in ch_ if b_ in common_ and cnt_[b_] == 1 and not f.in_loop(b_)]
                        if not own:
                            okc = False
                            break
                        sinks[own[0]] = ("factor", v_)
                    if okc:
                        looked_up.add(blk)
        for blk in looked_up:
            del sinks[blk]
        if looked_up:
            # payloads that merely carry the row found are not factors
            for blk, (kind, x) in list(sinks.items()):
                if kind == "some" and tables.fold_int(dict(x[3]).get("0")) is None:
                    del sinks[blk]
        tab = tables.key_table(f, tests, list(sinks))
        got = {}
        for key, ss in tab.items():
            vals = set()
            for s in ss:
                kind, x = sinks[s]
                if kind == "factor":
                    vals.add(x)
                elif kind == "mul":
                    vals.add(tables.fold_int(x.arg(1)))
                elif kind == "some":
                    # Some(number) scales by 1; Some(<constant>) is the factor chosen for this unit (multiplied later)
                    c = tables.fold_int(dict(x[3]).get("0")) if x[0] == "agg" else None
                    vals.add(c if c is not None else 1)
                else:
                    vals.add(None)
            got[key] = vals
        for key, want in SIZE_TABLE.items():
            r.require(got.get(key) == {want}, "unit:%s" % key, fn=f, detail="unit %r -> x%s (expected x%d)" % (key, sorted(got.get(key, []), key=str), want))
        extra = sorted(set(got) - set(SIZE_TABLE))
        r.require(not extra, "no-undocumented-units", fn=f, detail="units accepted beyond the documented set: %s" % extra)
        for ft in tables.fallthrough_target(f, tests):
            r.require(only_err_from(f, ft), "unknown-unit-rejected", fn=f, detail="the chain's fall-through reaches only Err returns")
        r.floor("unit-keys", len(got), 9)
        ctx.extra["size_table"] = {k: sorted(v, key=str) for k, v in got.items()}



def rule_size_overflow(ctx, p, cfg, rid="L2"):
    with ctx.rule(rid, "overflow checked", cfg) as r:
        f = p.fn_unrolled(SIZE_V + "visit_str")
        muls = []
        bad = []
        for c in f.calls():
            nm = (c.callee or "").rsplit("::", 1)[-1]
            if nm == "checked_mul":
                muls.append(c)
            elif nm.startswith("wrapping_") or nm.startswith("saturating_") or nm.startswith("overflowing_") or nm in ("pow",):
                bad.append(c.callee)
        for b, i, s in f.assigns():
            rv = s["rv"]
            if rv["k"] == "bin" and rv["op"] in ("Mul", "MulWithOverflow", "Add", "AddWithOverflow", "Shl") and tables.fold_int(f._rvalue(rv, frozenset(), 30, b)) is None:
                bad.append("%s @%s" % (rv["op"], s.get("at")))
        r.require(not bad, "no-unchecked-multiplication", fn=f, detail="non-constant unchecked/wrapping/saturating arithmetic: %s" % bad)
        # either one checked multiplication per scaled unit, or one multiplication by the factor looked up for the unit
        table = ctx.extra.get("size_table", {})
        by_factor = len(muls) >= 1 and all(any(x[0] == "as" and x[2] == "Some" or x[0] == "phi" for x in walk(m.arg(1))) or tables.fold_int(m.arg(1)) is not None for m in muls)
        r.floor("checked_mul-sites", len(muls), 1 if (by_factor and len(muls) < 4) else 4)
        for n, c in enumerate(muls):
            a = deep_strip(c.arg(0))
            r.require(any(x[0] == "call" and x[1] == "core::str::<impl str>::parse" for x in walk(a)), "mul-of-parsed-number#%d" % n, fn=f, site=c.at, detail="multiplicand %s" % show(a, 4))
        # None edge -> Err
        found = False
        for blk in f.blocks:
            if blk["term"]["k"] == "switch" and blk["id"] in f.reachable_blocks():
                si = SwitchInfo(f, blk["id"])
                d = strip(si.discr)
                if d[0] == "discr" and any(x[0] == "call" and x[1].endswith("::checked_mul") for x in walk(d)):
                    nt = si.target_of("None")
                    found = True
                    r.require(nt is not None and only_err_from(f, nt), "overflow-rejected", fn=f, detail="the None edge of the checked product reaches only Err returns")
                    st = si.target_of("Some")
                    okr = [e for b, e in q.ret_assignments(f) if b in f.reach(st, include_src=True) and q.classify_ret(e) == "ok"]
                    r.require(bool(okr) and all(any(x[0] == "as" and x[2] == "Some" for x in walk(e)) for e in okr), "product-returned", fn=f, detail="Some(n) is returned as Ok(n)")
        if not found:
            # `number.checked_mul(k).ok_or_else(|| error)` returned (directly or through `?`)
            for c in f.calls():
                if (c.callee or "") in ("core::option::Option::<T>::ok_or_else", "core::option::Option::<T>::ok_or") and any(
                        x[0] == "call" and x[1].endswith("::checked_mul") for x in walk(c.arg(0))):
                    rets = [e for b, e in q.ret_assignments(f) if any(x[0] == "call" and len(x) > 3 and x[3] == c.block for x in walk(e))]
                    if rets:
                        found = True
                        r.ok("overflow-rejected", fn=f, site=c.at, detail="None of the checked product becomes the returned Err (ok_or_else)")
                        r.ok("product-returned", fn=f, site=c.at, detail="Some(n) is returned as Ok(n)")
        r.require(found, "overflow-edge-present", fn=f, detail="the None of the checked product is turned into an error")



def rule_integer_forms(ctx, p, cfg, rid="L8", only=None):
    """A limit / interval written as a bare integer reaches the visitor as u64 or as i64 depending on the file format (TOML
    hands every integer over as i64): both entry points accept every non-negative value and agree on it."""
    with ctx.rule(rid, "bare integers are accepted however the format hands them over", cfg) as r:
        for who, pre in (("size", SIZE_V), ("interval", TIME_V)):
            if only and who != only:
                continue
            for m in ("visit_u64", "visit_i64"):
                if not p.has_fn(pre + m):
                    r.fail("%s:%s-present" % (who, m), detail="%s is not implemented: the format that uses it cannot give a bare integer" % m)
                    continue
                h = p.fn(pre + m)
                oks = [b for b, e in q.ret_assignments(h) if q.classify_ret(e) == "ok"]
                r.require(bool(oks), "%s:%s-can-succeed" % (who, m), fn=h, detail="%s has an Ok return" % m,
                          fail_detail="%s::%s never returns Ok: a bare integer is rejected by every format that hands integers over this way" % (who, m))
                if m == "visit_i64" and oks:
                    # the Ok return is reached from the v >= 0 edge (not from an unreachable or inverted test)
                    okedge = False
                    for blk in h.blocks:
                        if blk["term"]["k"] == "switch" and blk["id"] in h.reachable_blocks():
                            si = SwitchInfo(h, blk["id"])
                            nf = cmp_nf(si.discr, True)
                            if nf and nf[0] == "Lt" and deep_strip(nf[1]) == ("param", 2) and deep_strip(nf[2]) == ("const", "int", 0):
                                ft = si.target_of(False)
                                okedge = ft is not None and any(b == ft or b in h.reach(ft) for b in oks)
                            if nf and nf[0] == "Le" and deep_strip(nf[1]) == ("const", "int", 0) and deep_strip(nf[2]) == ("param", 2):
                                tt = si.target_of(True)
                                okedge = tt is not None and any(b == tt or b in h.reach(tt) for b in oks)
                    r.require(okedge, "%s:non-negative-i64-accepted" % who, fn=h, detail="visit_i64 returns Ok on the v >= 0 edge")
                # ... and what it returns is the number itself: so many bytes, so many seconds (not a coarser unit, not a scaled value)
                if oks:
                    pay = [_payload(e) for b, e in q.ret_assignments(h) if q.classify_ret(e) == "ok"]
                    if who == "size":
                        same = all(x is not None and _uncast(x) == ("param", 2) for x in pay)
                    else:
                        same = all(x is not None and x[0] == "agg" and x[1] == INTERVAL and x[2] == "Second" and _uncast(dict(x[3]).get("0")) == ("param", 2) for x in pay)
                    r.require(same, "%s:%s-is-the-number" % (who, m), fn=h, detail="%s(v) returns %s" % (m, "v bytes" if who == "size" else "Second(v)"),
                              fail_detail="%s::%s does not return the integer it was given as %s: %s" % (who, m, "a byte count" if who == "size" else "a number of seconds", [show(x, 4) if x else None for x in pay]))


def _uncast(e):
    """the integer under value-preserving conversions: `as` between integer types (the range guards are C20.L4's business) and the
    success value of a checked conversion (`i64::try_from(v)` -> Ok(n))"""
    e = deep_strip(e) if e is not None else None
    while isinstance(e, tuple) and e:
        if e[0] == "cast" and e[1] == "IntToInt":
            e = deep_strip(e[2])
        elif e[0] == "field" and e[2] == "0" and e[1][0] == "as" and e[1][2] == "Ok" and deep_strip(e[1][1])[0] == "call" and \
                deep_strip(e[1][1])[1].rsplit("::", 1)[-1] in ("try_from", "try_into") and len(deep_strip(e[1][1])[2]) == 1:
            e = deep_strip(deep_strip(e[1][1])[2][0])
        else:
            break
    return e


def _is_parsed_number(x):
    """(parse(..) as Ok).0 - the parsed integer itself, also behind `?` and `map_err` (which leave the success value alone)"""
    if not (isinstance(x, tuple) and x[0] == "field" and x[2] == "0" and x[1][0] == "as" and x[1][2] in ("Ok", "Continue")):
        return False
    c = deep_strip(x[1][1])
    while c[0] == "call" and c[1].rsplit("::", 1)[-1] in ("branch", "map_err") and c[2]:
        c = deep_strip(c[2][0])
    return c[0] == "call" and c[1].endswith("::parse")


def _payload(e):
    e = deep_strip(e)
    if e[0] == "agg" and e[2] == "Ok":
        return deep_strip(dict(e[3]).get("0"))
    return None


FINDERS = ("find", "rfind", "position", "rposition", "split_once", "find_map", "char_indices", "strip_suffix", "split_at_checked")


def bare_number(r, fn_, who, want):
    """the string form without a unit: the size is the number of bytes, the interval that many seconds.  Wherever the visitor
    decides "is there a unit" - the switch on what its search for the first non-digit returned - the edge on which nothing was
    found is followed with its flags and tuples; every Ok return it reaches must be the parsed number itself (as Second(n) for
    the interval)."""
    heads = []
    for blk in fn_.blocks:
        if blk["term"]["k"] == "switch" and blk["id"] in fn_.reachable_blocks():
            si = SwitchInfo(fn_, blk["id"])
            d = strip(si.discr)
            if d[0] != "discr":
                continue
            c = deep_strip(d[1])
            if c[0] == "call" and c[1].rsplit("::", 1)[-1] in FINDERS and c[2] and any(x == ("param", 2) for x in walk(c[2][0])) and si.target_of("None") is not None:
                heads.append(si)
    heads = [si for si in heads if not any(o is not si and fn_.dominates(o.b, si.b) for o in heads)]
    if len(heads) != 1:
        raise ShapeUnrecognised("%s: the decision between 'number with a unit' and 'bare number' (a switch on the result of the search for the first non-digit) was found %d times in visit_str" % (who, len(heads)))
    si = heads[0]
    rets = {}
    for b, e in q.ret_assignments(fn_):
        rets.setdefault(b, []).append(e)
    ok_blocks_ = {b for b, es in rets.items() if any(q.classify_ret(e) == "ok" for e in es)}
    cut = {(si.b, t) for lab, t in si.labelled_edges() if lab != "None"}
    # from the entry, so that what was computed before the decision (a default built eagerly for `map_or`) is known on the way
    reached = q.const_skipping_paths(fn_, 0, set(), ok_blocks_, cut_edges=cut)
    pays = [_payload(e) for b in sorted(reached) for e in rets[b] if q.classify_ret(e) == "ok"]
    if want:
        ok = bool(pays) and all(x is not None and x[0] == "agg" and x[1] == INTERVAL and x[2] == want and _is_parsed_number(_uncast(dict(x[3]).get("0"))) for x in pays)
    else:
        ok = bool(pays) and all(x is not None and _is_parsed_number(_uncast(x)) for x in pays)
    r.require(ok, "%s:bare-number" % who, fn=fn_, detail="no unit -> %s" % [show(x, 4) if x else None for x in pays],
              fail_detail="%s: a number without a unit does not come back as %s: %s" % (who, "Second(that number)" if want else "that number of bytes", [show(x, 5) if x else None for x in pays]))


LENGTHS = ("core::str::<impl str>::len", "alloc::string::String::len", "core::iter::traits::iterator::Iterator::count", "core::slice::<impl [T]>::len")


def rule_no_length_verdict(ctx, p, cfg, rid="L10"):
    """Whether a number is too large is decided by parsing it and by the checked multiplication, for every number: no literal
    is turned away because of how many characters its digits take (a digit count is not a magnitude: `00012`, and every
    20-digit value up to u64::MAX, are fine)."""
    with ctx.rule(rid, "no literal is rejected by the length of its text", cfg) as r:
        seen = 0
        for who, path in (("size", SIZE_V + "visit_str"), ("interval", TIME_V + "visit_str")):
            f = p.fn_unrolled(path)
            bad = []
            for blk in f.blocks:
                if blk["term"]["k"] != "switch" or blk["id"] not in f.reachable_blocks():
                    continue
                si = SwitchInfo(f, blk["id"])
                nf = cmp_nf(si.discr, True)
                if nf is None:
                    continue
                seen += 1
                if not any(x[0] == "call" and x[1] in LENGTHS and any(y == ("param", 2) for y in walk(x)) for sd in nf[1:] for x in walk(sd)):
                    continue
                for lab, t in si.labelled_edges():
                    if t is not None and only_err_from(f, t):
                        bad.append(show(si.discr, 5))
            r.require(not bad, "%s:no-err-by-text-length" % who, fn=f, detail="no comparison on the length of the literal's text leads only to errors",
                      fail_detail="%s: a literal is rejected on `%s`, a test on how long its text is: values that parse and fit are turned away" % (who, bad[:2]))
        r.ok("comparisons-seen", detail="comparisons examined in the two string visitors: %d" % seen)


def rule_interval_number(ctx, p, cfg, rid):
    """An interval written as a bare number - integer or string - is that many seconds (L8 and L3 re-evaluated for the interval)."""
    rule_integer_forms(ctx, p, cfg, rid, only="interval")
    with ctx.rule(rid + "s", "a number without a unit is a number of seconds", cfg) as r:
        bare_number(r, p.fn_unrolled(TIME_V + "visit_str"), "interval", "Second")


def rule_interval_units(ctx, p, cfg, rid="L5"):
    """second(s) .. year(s), singular and plural, in any case, each to its own unit; anything else is an error"""
    with ctx.rule(rid, "interval unit table", cfg) as r:
        g = p.fn_unrolled(TIME_V + "visit_str")
        tests = tables.string_key_tests(g)
        sinks = {}
        for b, i, s in g.assigns():
            rv = s["rv"]
            if rv["k"] == "agg" and rv.get("adt") == INTERVAL:
                sinks[b] = (rv["variant"], g._rvalue(rv, frozenset(), 30, b))
        # the variant may also be chosen as its constructor (`let make: fn(i64) -> _ = if .. { Interval::Second } ..; make(n)`):
        # each edge that picks a constructor is a sink of that variant, carrying the argument of the one call through the pointer
        for c in g.indirect_calls():
            pl = c.t.get("func", {}).get("copy") or c.t.get("func", {}).get("move")
            if not pl or pl["p"] or not c.t.get("args"):
                continue
            cs_ = choice_sinks(g, q.guarded_defs(g, c.t["func"], chains=True)) or [(b, e) for b, e in g.root_defs(pl["l"])]
            for b, e in cs_:
                e = strip(e, casts=False)
                if e[0] == "cast" and "ReifyFnPointer" in str(e[1]):
                    e = strip(e[2])
                if e[0] == "fnref" and e[1].startswith(INTERVAL + "::"):
                    var = e[1].rsplit("::", 1)[-1]
                    sinks[b] = (var, ("agg", INTERVAL, var, (("0", g.expr(c.t["args"][0])),)))
        tab = tables.key_table(g, tests, list(sinks))
        for key, want in TIME_TABLE.items():
            vs = {sinks[s][0] for s in tab.get(key, [])}
            r.require(vs == {want}, "unit:%s" % key, fn=g, detail="unit %r -> %s (expected %s)" % (key, sorted(vs), want))
            for s in tab.get(key, []):
                e = sinks[s][1]
                val = dict(e[3]).get("0")
                r.require(val is not None and any(x[0] == "call" and x[1].endswith("::parse") for x in walk(val)) and not any(x[0] == "bin" for x in walk(val)), "unit-carries-number:%s" % key, fn=g,
                          detail="payload %s" % show(val, 4))
        extra = sorted(set(tab) - set(TIME_TABLE))
        r.require(not extra, "no-undocumented-units", fn=g, detail="extra unit names: %s" % extra)
        for ft in tables.fallthrough_target(g, tests):
            r.require(only_err_from(g, ft), "unknown-unit-rejected", fn=g, detail="fall-through reaches only Err")
        r.floor("unit-keys", len(tab), 14)


def rule_refresh_rate_parsing(ctx, p, cfg, rid="L6"):
    """refresh_rate is parsed by humantime and a string it cannot parse is an error of the document, not an absent rate"""
    with ctx.rule(rid, "refresh_rate via humantime", cfg) as r:
        vs = [f for f in p.fns.values() if f.path.startswith("<<config::raw::de_duration::") and f.path.endswith("::visit_str")]
        r.require(len(vs) == 1, "duration-visitor", detail="de_duration string visitor: %s" % [f.path for f in vs])
        for f in vs:
            e = f.local_expr(0)
            hp = [x for x in walk(e) if x[0] == "call" and x[1] == "humantime::duration::parse_duration"]
            r.require(bool(hp) and deep_strip(hp[0][2][0]) == ("param", 2), "parsed-by-humantime", fn=f, detail=show(e, 5))
            r.require(e[0] == "call" and e[1] == "core::result::Result::<T, E>::map_err", "error-mapped-not-dropped", fn=f, detail="returns map_err(..) of the parse result")
        # the RawConfig field uses it
        users = [c.fn.path for c in p.all_calls("config::raw::de_duration")]
        r.require(any("RawConfig" in u for u in users), "rawconfig-uses-de_duration", detail="callers: %s" % users[:3])


def run_cfg(ctx, p, cfg):
    rule_integer_forms(ctx, p, cfg, "L8")
    rule_size_table(ctx, p, cfg, "L1")
    rule_size_overflow(ctx, p, cfg, "L2")
    with ctx.rule("L7", "the literal parsers cannot panic", cfg) as r:
        # junk is rejected with an error: no arithmetic, slicing or unwrap in the two visitors (and what they call) may fail instead
        from l4sa import panics
        ents = sorted(x for x in p.fns if (x.startswith(SIZE_V) or x.startswith(TIME_V)) and p.fns[x].kind != "Closure")
        r.floor("visitor-methods", len(ents), 4)
        cone = p.cone(ents, cut_traits=())
        st = panics.check_cone(r, p, cone, "C20")
        ctx.extra.setdefault("panic_inventory", {})[cfg] = dict(st, cone=len(cone))

    with ctx.rule("L3", "numbers", cfg) as r:
        f = p.fn_unrolled(SIZE_V + "visit_str")
        split_and_parse(r, f, "size", "u64")
        g = p.fn_unrolled(TIME_V + "visit_str")
        split_and_parse(r, g, "interval", "i64")
        # bare number
        for who, fn_, want in (("size", f, None), ("interval", g, "Second")):
            bare_number(r, fn_, who, want)
        # sign guards
        for who, path in (("size", SIZE_V + "visit_i64"), ("interval", TIME_V + "visit_i64")):
            h = p.fn(path)
            ok = False
            for blk in h.blocks:
                if blk["term"]["k"] == "switch" and blk["id"] in h.reachable_blocks():
                    si = SwitchInfo(h, blk["id"])
                    nf = cmp_nf(si.discr, True)
                    neg = None      # the edge on which v < 0
                    if nf and nf[0] == "Lt" and deep_strip(nf[1]) == ("param", 2) and deep_strip(nf[2]) == ("const", "int", 0):
                        neg = si.target_of(True)
                    elif nf and nf[0] == "Le" and deep_strip(nf[1]) == ("const", "int", 0) and deep_strip(nf[2]) == ("param", 2):
                        neg = si.target_of(False)       # `if v >= 0 { Ok(..) } else { Err(..) }`
                    if neg is not None:
                        ok = bool(ok_blocks(h)) and all(h.dominates(blk["id"], ob) for ob in ok_blocks(h)) and only_err_from(h, neg)
            r.require(ok, "%s:negative-rejected" % who, fn=h, detail="visit_i64 returns Err on the v < 0 edge, which dominates the Ok return")
        # parsed negative in visit_str (interval)
        okn = False
        for blk in g.blocks:
            if blk["term"]["k"] == "switch" and blk["id"] in g.reachable_blocks():
                si = SwitchInfo(g, blk["id"])
                nf = cmp_nf(si.discr, True)
                if nf and nf[0] == "Lt" and deep_strip(nf[2]) == ("const", "int", 0) and any(x[0] == "call" and x[1].endswith("::parse") for x in walk(nf[1])):
                    okn = only_err_from(g, si.target_of(True))
                # the same test written as `n >= 0` / `0 <= n` with the branches the other way round
                if nf and nf[0] == "Le" and deep_strip(nf[1]) == ("const", "int", 0) and any(x[0] == "call" and x[1].endswith("::parse") for x in walk(nf[2])):
                    okn = si.target_of(False) is not None and only_err_from(g, si.target_of(False))
        r.require(okn, "interval:parsed-negative-rejected", fn=g, detail="a parsed number < 0 reaches only Err returns")

    with ctx.rule("L4", "cast inventory", cfg) as r:
        n = 0
        for base in (SIZE_V, TIME_V):
            for name in ("visit_u64", "visit_i64", "visit_str", "visit_u32", "visit_i32", "visit_u8", "visit_u16", "visit_i8", "visit_i16", "visit_f64", "visit_u128", "visit_i128"):
                path = base + name
                if not p.has_fn(path):
                    continue
                f = p.fn(path)
                for b, i, s in f.assigns():
                    rv = s["rv"]
                    if rv["k"] != "cast" or rv["kind"] not in ("IntToInt", "FloatToInt", "IntToFloat"):
                        continue
                    src = f._operand(rv["a"], frozenset(), 30)
                    if not any(x == ("param", 2) or (x[0] == "call" and x[1].endswith("::parse")) for x in walk(src)):
                        continue
                    n += 1
                    fr, to = rv["from"], rv["to"]
                    ok, why = cast_guarded(f, b, src, fr, to)
                    r.require(ok, "cast:%s:%s->%s" % (name, fr, to), fn=f, site=s.get("at"), detail=why,
                              fail_detail="`%s as %s` of a deserialised %s is not dominated by a range guard: %s" % (show(src, 3), to, fr, why))
        r.floor("casts-of-deserialised-values", n, 1)

    rule_interval_units(ctx, p, cfg, "L5")

    from rules import common
    rule_no_length_verdict(ctx, p, cfg, "L10")
    common.rule_visitor_entry_points(ctx, p, cfg, "L9a", "trigger::size::deserialize_limit::V", ("visit_u64", "visit_i64", "visit_str"), "size limit")
    common.rule_visitor_entry_points(ctx, p, cfg, "L9b", "trigger::time::TimeTriggerInterval", ("visit_u64", "visit_i64", "visit_str"), "interval")
    common.rule_visitor_entry_points(ctx, p, cfg, "L9c", "config::raw::de_duration::", ("visit_str",), "refresh_rate")
    rule_refresh_rate_parsing(ctx, p, cfg, "L6")

def cast_guarded(f, block, src, fr, to):
    s = deep_strip(src)
    conds = f.conditions(block)
    I64MAX = 9223372036854775807
    if fr.startswith("i") and to.startswith("u"):
        for sb, si, al in conds:
            labs = {si.label(v) for v, _ in al}
            if labs in ({True}, {False}):
                nf = cmp_nf(si.discr, True in labs)
                if nf:
                    op, a, b = nf
                    a, b = deep_strip(a), deep_strip(b)
                    # 0 <= v   or  !(v < 0)
                    if op == "Le" and a == ("const", "int", 0) and b == s:
                        return True, "dominated by v >= 0"
        return False, "no dominating v >= 0 guard"
    if fr.startswith("u") and to.startswith("i"):
        for sb, si, al in conds:
            labs = {si.label(v) for v, _ in al}
            if labs in ({True}, {False}):
                nf = cmp_nf(si.discr, True in labs)
                if nf:
                    op, a, b = nf
                    a, b = deep_strip(a), deep_strip(b)
                    from l4sa.tables import fold_int
                    if op == "Le" and a == s and fold_int(b) is not None and fold_int(b) <= I64MAX:
                        return True, "dominated by v <= %d" % fold_int(b)
                    if op == "Lt" and a == s and fold_int(b) is not None and fold_int(b) <= I64MAX + 1:
                        return True, "dominated by v < %d" % fold_int(b)
        return False, "no dominating v <= i64::MAX guard"
    if fr == to:
        return True, "identity"
    wid = lambda t: {"8": 8, "16": 16, "32": 32, "64": 64, "128": 128, "size": 64}.get(t[1:], 64)
    if fr[0] == to[0] and wid(to) >= wid(fr):
        return True, "widening"
    if fr.startswith("u") and to.startswith("i") is False and wid(to) >= wid(fr):
        return True, "widening"
    return False, "narrowing/sign-changing cast without a recognised guard"
