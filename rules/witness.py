"""G13: compile-fail privacy witnesses (thorough tier).  Builds /verif/witness
against a scratch copy of /repo with `cargo +nightly test --doc` and turns
every doctest into an obligation.  Deciding step = the Rust type checker."""
import os
import re
import shutil
import subprocess
import tempfile

from l4sa import facts

WITNESSES = {
    "C13": ["C13SoleConstructor", "C13NoMutablePathToNames", "C13LoggerNamePrivate"],
    "C15": ["C15HandlePrivate", "C15HandleNotForgeable"],
}
_cache = {}


def _run():
    if "res" in _cache:
        return _cache["res"]
    scratch = tempfile.mkdtemp(prefix="l4wit-")
    try:
        repo = facts.REPO

        def ign(d, names):
            if os.path.abspath(d) == os.path.abspath(repo):
                return [n for n in names if n in ("target", ".git", "log")]
            return []
        shutil.copytree(repo, os.path.join(scratch, "repo"), ignore=ign, symlinks=True)
        shutil.copytree(os.path.join(facts.VERIF, "witness"), os.path.join(scratch, "witness"), ignore=lambda d, n: [x for x in n if x == "target"])
        lock = os.path.join(repo, "Cargo.lock")
        if os.path.exists(lock):
            shutil.copy(lock, os.path.join(scratch, "witness", "Cargo.lock"))
        env = dict(os.environ, CARGO_NET_OFFLINE="true", CARGO_TARGET_DIR=os.path.join(facts.CACHE, "target-witness"), CARGO_INCREMENTAL="0")
        env.pop("RUSTC_WORKSPACE_WRAPPER", None)
        r = subprocess.run(["cargo", "+nightly", "test", "--doc", "--offline"], cwd=os.path.join(scratch, "witness"), env=env,
                           stdout=subprocess.PIPE, stderr=subprocess.STDOUT, text=True)
        out = r.stdout
        res = {}
        for m in re.finditer(r"^test src/lib\.rs - (\w+) \(line (\d+)\)( - compile fail)? \.\.\. (\w+)", out, re.M):
            res.setdefault(m.group(1), []).append({"line": int(m.group(2)), "compile_fail": bool(m.group(3)), "result": m.group(4)})
        _cache["res"] = (res, out[-3000:], r.returncode)
        return _cache["res"]
    finally:
        shutil.rmtree(scratch, ignore_errors=True)


def run_witnesses(ctx, prop):
    with ctx.rule("G13", "compile-fail privacy witnesses", "witness") as r:
        res, tail, rc = _run()
        for w in WITNESSES[prop]:
            tests = res.get(w, [])
            cf = [t for t in tests if t["compile_fail"]]
            tw = [t for t in tests if not t["compile_fail"]]
            r.require(len(cf) == 1 and cf[0]["result"] == "ok", "witness-fails-to-compile:%s" % w,
                      detail="the violating program is rejected by the type checker with the expected error code (%s)" % cf,
                      fail_detail="the violating program compiles (or fails for another reason): %s\n%s" % (cf, tail[-800:]))
            r.require(len(tw) == 1 and tw[0]["result"] == "ok", "twin-compiles:%s" % w,
                      detail="the twin differing only by the offending line compiles and runs (%s)" % tw,
                      fail_detail="the compiling twin does not build: %s\n%s" % (tw, tail[-800:]))
