"""Shared anchors and sub-rules for the rolling file appender (C05, C06, C08, C16, C17)."""
import re

from l4sa import q
from l4sa.core import (AnchorMissing, ShapeUnrecognised, SwitchInfo, strip, deep_strip, walk, show, calls_in,
                       cmp_nf, _rv_places)
from rules import common

APPEND = "<append::rolling_file::RollingFileAppender as append::Append>::append"
BUILD = "append::rolling_file::RollingFileAppenderBuilder::build"
APPENDER = "append::rolling_file::RollingFileAppender"
LOGFILE = "append::rolling_file::LogFile"
ROLL_FN = "append::rolling_file::LogFile::<'a>::roll"
LEN_EST = "append::rolling_file::LogFile::<'a>::len_estimate"
LOGFILE_PATH = "append::rolling_file::LogFile::<'a>::path"
POLICY_PROCESS = "append::rolling_file::policy::Policy::process"
POLICY_IS_PRE = "append::rolling_file::policy::Policy::is_pre_process"
TRIGGER = "append::rolling_file::policy::compound::trigger::Trigger::trigger"
TRIGGER_IS_PRE = "append::rolling_file::policy::compound::trigger::Trigger::is_pre_process"
ROLL = "append::rolling_file::policy::compound::roll::Roll::roll"
COMPOUND_PROCESS = "<append::rolling_file::policy::compound::CompoundPolicy as append::rolling_file::policy::Policy>::process"
COMPOUND_IS_PRE = "<append::rolling_file::policy::compound::CompoundPolicy as append::rolling_file::policy::Policy>::is_pre_process"
ENCODE = "encode::Encode::encode"
FLUSH = "std::io::Write::flush"
OPEN = "std::fs::OpenOptions::open"


def append_fn(p):
    """the appender's append(), with private helpers that contain the encode/flush/policy calls inlined"""
    return p.fn_inl(APPEND, wanted=[ENCODE, FLUSH, POLICY_PROCESS, POLICY_IS_PRE, "lock_api::mutex::Mutex::<R, T>::lock"])


def roles(p):
    if getattr(p, "_rolling", None) is not None:
        return p._rolling
    r = {}
    ap = p.fn(APPEND)
    adt = p.adt(APPENDER)
    fields = adt["variants"][0]["fields"]
    wf = [f for f in fields if "Mutex<" in f["ty"] and "Option<" in f["ty"]]
    if len(wf) != 1:
        raise AnchorMissing("RollingFileAppender: expected one Mutex<Option<..>> field, found %d" % len(wf))
    r["writer_field"] = wf[0]
    m = re.search(r"Option<([^<>]+)>", wf[0]["ty"])
    if not m or m.group(1) not in p.adts:
        raise AnchorMissing("cannot identify the log-writer type in %s" % wf[0]["ty"])
    r["logwriter"] = m.group(1)
    lw = p.adt(r["logwriter"])
    lf = [f for f in lw["variants"][0]["fields"] if f["ty"] == "u64"]
    ff = [f for f in lw["variants"][0]["fields"] if "BufWriter" in f["ty"] or "File" in f["ty"]]
    if len(lf) != 1 or len(ff) != 1:
        raise AnchorMissing("%s: expected one u64 counter and one file field" % r["logwriter"])
    r["len_field"] = lf[0]["name"]
    r["file_field"] = ff[0]["name"]
    pf = [f for f in fields if f["ty"] == "std::path::PathBuf"]
    af = [f for f in fields if f["ty"] == "bool"]
    if len(pf) != 1 or len(af) != 1:
        raise AnchorMissing("RollingFileAppender: expected one PathBuf and one bool field")
    r["path_field"] = pf[0]["name"]
    r["append_field"] = af[0]["name"]
    cone = p.cone([APPEND], cut_traits=("encode::Encode", "append::rolling_file::policy::Policy"))
    opener = [p.fns[x] for x in cone if p.fns[x].calls(OPEN)]
    if len(opener) != 1:
        raise AnchorMissing("expected one function opening the log file in Cone(append), found %s" % [f.path for f in opener])
    r["get_writer"] = opener[0]
    # LogFile fields by type
    lfa = p.adt(LOGFILE)
    lff = lfa["variants"][0]["fields"]
    r["lf_writer"] = [f["name"] for f in lff if "Option<" in f["ty"]][0]
    r["lf_path"] = [f["name"] for f in lff if "Path" in f["ty"]][0]
    r["lf_len"] = [f["name"] for f in lff if f["ty"] == "u64"][0]
    p._rolling = r
    return r


def branch_sites(p):
    """Call sites of append split by the is_pre_process branch."""
    ro = roles(p)
    f = append_fn(p)
    ipp = f.call1(POLICY_IS_PRE, "Policy::is_pre_process")
    sw = None
    for b in f.blocks:
        if b["term"]["k"] == "switch" and b["id"] in f.reachable_blocks():
            si = SwitchInfo(f, b["id"])
            e = strip(si.discr)
            if e[0] == "call" and e[1] == POLICY_IS_PRE:
                if sw is not None:
                    raise ShapeUnrecognised("is_pre_process is branched on more than once")
                sw = si
    if sw is None:
        raise ShapeUnrecognised("no branch on Policy::is_pre_process() in append")
    pre_t, post_t = sw.target_of(True), sw.target_of(False)
    pre_r = f.reach(pre_t, include_src=True)
    post_r = f.reach(post_t, include_src=True)
    pre_only = pre_r - post_r
    post_only = post_r - pre_r

    def pick(pat, region):
        return [c for c in f.calls(pat) if c.block in region]
    out = {"fn": f, "switch": sw, "pre_only": pre_only, "post_only": post_only, "ipp": ipp}
    for name, region in (("pre", pre_only), ("post", post_only)):
        out[name] = {
            "encode": pick(ENCODE, region), "flush": pick(FLUSH, region),
            "process": pick(POLICY_PROCESS, region), "get_writer": pick(ro["get_writer"].path, region),
        }
    out["get_writer_before"] = [c for c in f.calls(ro["get_writer"].path) if c.block not in pre_only and c.block not in post_only]
    return out


def len_reads(p, f):
    """(block, idx) of statements in f reading LogWriter.len"""
    ro = roles(p)
    out = []
    for bid, i, s in f.assigns():
        for pl in _rv_places(s["rv"]):
            for e in pl["p"]:
                if isinstance(e, dict) and e.get("f") == ro["len_field"] and e.get("adt") == ro["logwriter"]:
                    out.append((bid, i, s))
    return out


def rule_lock_span(ctx, p, cfg, rid="R1"):
    with ctx.rule(rid, "writer lock covers the whole append", cfg) as r:
        ro = roles(p)
        f = append_fn(p)
        locks = q.lock_sites(f)
        r.require(len(locks) == 1, "single-lock", fn=f, detail="exactly one lock acquisition in append (found %d)" % len(locks))
        if len(locks) != 1:
            raise ShapeUnrecognised("cannot identify the critical section")
        lk = locks[0]
        recv = deep_strip(lk.arg(0))
        r.require(recv == ("field", ("param", 1), ro["writer_field"]["name"]), "lock-on-writer-field", fn=f, site=lk.at,
                  detail="lock receiver %s" % show(recv))
        span = q.GuardSpan(f, lk)
        for c in f.calls():
            if c.block == lk.block:
                continue
            nm = c.callee or ""
            if nm in ("core::ops::try_trait::Try::branch", "core::ops::try_trait::FromResidual::from_residual"):
                continue
            r.require(span.covers(c.block), "inside-span:%s" % common.role(c), fn=f, site=c.at,
                      detail="%s executes only while the writer lock is held" % c.callee)
        for rb in f.return_blocks():
            r.require(rb in span.after_release, "released-before-return", fn=f, detail="guard dropped on every path to return")
        r.require(all(f.dominates(lk.block, rb) for rb in f.return_blocks()), "lock-dominates-exit", fn=f,
                  detail="the lock acquisition dominates the exit")


def rule_branch_order(ctx, p, cfg, rid="R2"):
    with ctx.rule(rid, "pre/post-processing orderings", cfg) as r:
        ro = roles(p)
        bs = branch_sites(p)
        f = bs["fn"]
        for name in ("pre", "post"):
            s = bs[name]
            for k in ("encode", "flush", "process"):
                r.require(len(s[k]) == 1, "%s:one-%s" % (name, k), fn=f,
                          detail="%s-processing branch has exactly one %s call (found %d)" % (name, k, len(s[k])))
            if not all(len(s[k]) == 1 for k in ("encode", "flush", "process")):
                continue
            enc, fl, pr = s["encode"][0], s["flush"][0], s["process"][0]
            for c in (enc, fl, pr):
                r.require(not f.in_loop(c.block), "%s:not-in-loop:%s" % (name, common.role(c)), fn=f, site=c.at, detail="executed at most once per append")
            r.require(f.dominates(enc.block, fl.block) and enc.block != fl.block, "%s:encode-before-flush" % name, fn=f, site=fl.at,
                      detail="encode dominates flush")
            # flush operates on the writer that was encoded into
            we, wf = deep_strip(enc.arg(1)), deep_strip(fl.arg(0))
            r.require(we == wf, "%s:flush-same-writer" % name, fn=f, site=fl.at, detail="encode writer %s / flush receiver %s" % (show(we, 4), show(wf, 4)))
            gw = [x for x in walk(we) if x[0] == "call" and x[1] == ro["get_writer"].path]
            r.require(len(gw) >= 1, "%s:writer-from-get_writer" % name, fn=f, site=enc.at, detail="writer handed to the encoder comes from %s" % ro["get_writer"].path)
            for c in (fl,):
                r.require(common.result_is_checked(f, c), "%s:flush-checked" % name, fn=f, site=c.at, detail="flush result is propagated")
            if name == "post":
                r.require(f.dominates(fl.block, pr.block) and fl.block != pr.block, "post:flush-before-process", fn=f, site=pr.at,
                          detail="write and flush dominate Policy::process")
                ok, wit = q.must_follow_on_ok(f, enc.block, [pr.block])
                r.require(ok, "post:process-on-every-ok", fn=f, site=pr.at, detail="every Ok path after the write consults the policy",
                          fail_detail="path from encode to Ok exit bb%s avoiding Policy::process" % wit)
                ok2, wit2 = q.must_follow_on_ok(f, enc.block, [fl.block])
                r.require(ok2, "post:flush-on-every-ok", fn=f, site=fl.at, detail="every Ok path after the write passes flush")
                # len read after flush, from the same writer
                lf = _logfile_len_expr(p, f, pr)
                reads = [(b, i) for (b, i, s) in len_reads(p, f) if b in bs["post_only"]]
                r.require(bool(reads) and all(f.dominates(fl.block, b) and b != fl.block for b, i in reads), "post:len-read-after-flush", fn=f,
                          detail="the size handed to the policy is read after flush (reads in bb%s, flush bb%d)" % ([b for b, i in reads], fl.block))
                r.require(lf is not None and _is_len_of(ro, lf, we), "post:len-of-active-writer", fn=f, site=pr.at,
                          detail="LogFile.len = %s" % (show(lf, 5) if lf else None))
            else:
                r.require(f.dominates(pr.block, enc.block) and pr.block != enc.block, "pre:process-before-encode", fn=f, site=enc.at,
                          detail="Policy::process dominates the write")
                gwb = gw[0][3] if gw else None
                r.require(gwb is not None and f.dominates(pr.block, gwb) and gwb != pr.block, "pre:writer-reacquired-after-process", fn=f, site=enc.at,
                          detail="the writer encoded into comes from a get_writer call after Policy::process (bb%s)" % gwb)
                ok, wit = q.must_follow_on_ok(f, pr.block, [fl.block])
                r.require(ok, "pre:write-and-flush-on-every-ok", fn=f, detail="after processing, every Ok path writes and flushes the record")
                ok3, _ = q.must_follow_on_ok(f, pr.block, [enc.block])
                r.require(ok3, "pre:encode-on-every-ok", fn=f, detail="after processing, every Ok path encodes the record")
                lf = _logfile_len_expr(p, f, pr)
                # the writer whose length the policy is shown: opened before the branch, or at the head of the pre-processing
                # branch (when each branch lives in its own helper) - in any case by a get_writer call that dominates process()
                first = [c for c in f.calls(ro["get_writer"].path) if f.dominates(c.block, pr.block) and c.block != pr.block]
                e = deep_strip(lf) if lf is not None else ("other",)
                okl = e[0] == "field" and e[2] == ro["len_field"] and any(
                    x[0] == "call" and x[1] == ro["get_writer"].path and x[3] == c.block for c in first for x in walk(e))
                r.require(okl, "pre:len-of-open-writer", fn=f, site=pr.at, detail="LogFile.len = %s" % (show(lf, 5) if lf else None))
            # policy receives the appender's own writer slot and path
            lfe = _logfile_agg(p, f, pr)
            if lfe is None:
                r.fail("%s:logfile-aggregate" % name, fn=f, site=pr.at, detail="Policy::process argument is not a LogFile built here")
            else:
                fd = dict(lfe[3])
                wslot = deep_strip(fd.get(ro["lf_writer"], ("other",)))
                r.require(any(x[0] == "call" and x[1] == "lock_api::mutex::Mutex::<R, T>::lock" for x in walk(wslot)), "%s:logfile-writer-is-guarded-slot" % name, fn=f,
                          detail="LogFile.writer = %s" % show(wslot, 5))
                pth = deep_strip(fd.get(ro["lf_path"], ("other",)))
                r.require(pth == ("field", ("param", 1), ro["path_field"]), "%s:logfile-path-is-own-path" % name, fn=f, detail="LogFile.path = %s" % show(pth))
        # no second write on any path: the two encode sites are mutually unreachable
        ea, eb = bs["pre"]["encode"], bs["post"]["encode"]
        if ea and eb:
            r.require(not f.can_reach(ea[0].block, eb[0].block) and not f.can_reach(eb[0].block, ea[0].block), "one-write-per-append", fn=f,
                      detail="pre and post encode sites are on disjoint paths")
        allenc = f.calls(ENCODE)
        r.require(len(allenc) == 2, "encode-sites", fn=f, detail="encode call sites in append: %d (one per branch)" % len(allenc))
        # the branch flag comes from the policy itself
        r.require(deep_strip(bs["ipp"].arg(0))[0] in ("field", "cast") and any(x == ("param", 1) for x in walk(bs["ipp"].arg(0))), "branch-flag-from-own-policy", fn=f,
                  detail="is_pre_process() asked of self.policy")


def _logfile_agg(p, f, process_site):
    a = process_site.arg(1)
    for x in walk(a):
        if x[0] == "agg" and x[1] == LOGFILE:
            return x
    return None


def _logfile_len_expr(p, f, process_site):
    ro = roles(p)
    agg = _logfile_agg(p, f, process_site)
    if agg is None:
        return None
    return dict(agg[3]).get(ro["lf_len"])


def _is_len_of(ro, lenexpr, writer_expr):
    e = deep_strip(lenexpr)
    return e[0] == "field" and e[2] == ro["len_field"] and deep_strip(e[1]) == deep_strip(writer_expr)


def rule_roll_closes_writer(ctx, p, cfg, rid="R3"):
    with ctx.rule(rid, "roll() closes the writer", cfg) as r:
        ro = roles(p)
        f = p.fn(ROLL_FN)
        slot_ty = "core::option::Option<%s>" % ro["logwriter"]
        hits = []
        for bid, i, s in f.assigns():
            if s.get("lhs_ty") == slot_ty:
                e = f._rvalue(s["rv"], frozenset(), 20, bid)
                hits.append((bid, e, s))
        # `self.writer.take()` (the value dropped, never put back: any insert/replace in roll() is reported below) empties the slot as `*self.writer = None` does
        took = [c for c in f.calls() if (c.callee or "").rsplit("::", 1)[-1] == "take" and "Option" in (c.callee or "") and c.t.get("arg_tys") and slot_ty in c.t["arg_tys"][0]]
        r.require((len(hits) >= 1 or bool(took)) and all(e[0] == "agg" and e[2] == "None" for _, e, _ in hits), "assigns-none", fn=f,
                  detail="LogFile::roll assigns None to the writer slot: %s%s" % ([show(e) for _, e, _ in hits], " / takes its value out (%d site)" % len(took) if took else ""))
        for c in took:
            r.require(all(f.dominates(c.block, rb) for rb in f.return_blocks()), "unconditional", fn=f, site=c.at, detail="the take() is on every path to return")
            r.require(any(x == ("param", 1) for x in walk(c.arg(0))), "own-slot", fn=f, site=c.at, detail="the slot emptied is self.%s's target" % ro["lf_writer"])
        for (b, e, s) in hits:
            base = s["lhs"]
            r.require(all(f.dominates(b, rb) for rb in f.return_blocks()), "unconditional", fn=f, detail="the assignment is on every path to return")
            pe = deep_strip(f.expr({"l": base["l"], "p": base["p"][:-1]}) if base["p"] else ("other",))
            r.require(any(x == ("param", 1) for x in walk(pe)), "own-slot", fn=f, detail="assigned place is self.%s's target" % ro["lf_writer"])
        # crate-wide: who writes an Option<LogWriter> place
        writers = set()
        for path, g in p.fns.items():
            for bid, i, s in g.assigns():
                if s.get("lhs_ty") == slot_ty:
                    writers.add(path)
        allowed = {ROLL_FN, ro["get_writer"].path}
        r.require(writers <= allowed and (ROLL_FN in writers or bool(took)), "only-roll-and-opener-write-slot",
                  detail="functions assigning the Option<LogWriter> slot through a reference: %s" % sorted(writers))
        # take()/replace() on the slot elsewhere would also close it: inventory
        takers = []
        for path, g in p.fns.items():
            for c in g.calls():
                nm = (c.callee or "").rsplit("::", 1)[-1]
                if nm in ("take", "replace", "insert", "get_or_insert_with", "get_or_insert") and "Option" in (c.callee or ""):
                    if c.t.get("arg_tys") and slot_ty in c.t["arg_tys"][0]:
                        if path == ro["get_writer"].path and nm in ("insert", "get_or_insert_with", "get_or_insert"):
                            continue   # the opener filling the empty slot (`slot.insert(w)` is `*slot = Some(w)`)
                        if path == ROLL_FN and nm == "take":
                            continue   # roll() emptying the slot (examined above)
                        if path == ro["get_writer"].path and nm == "take" and _take_is_put_back(g, c, slot_ty):
                            continue   # `match slot.take() { Some(w) => w, None => open()? }` .. `slot.insert(w)`: what was taken is put back
                        takers.append(path)
        r.require(not takers, "no-other-slot-mutators", detail="Option::take/replace on the writer slot: %s" % takers)


def rule_policy_order(ctx, p, cfg, rid="R4"):
    with ctx.rule(rid, "CompoundPolicy::process: trigger -> roll() -> roller", cfg) as r:
        f = p.fn(COMPOUND_PROCESS)
        tg = f.call1(TRIGGER, "Trigger::trigger")
        rl = f.call1(ROLL_FN, "LogFile::roll")
        ro = f.call1(ROLL, "Roll::roll")
        r.require(deep_strip(tg.arg(1)) == ("param", 2), "trigger-sees-logfile", fn=f, site=tg.at, detail="trigger consulted with the policy's LogFile")
        r.require(f.dominates(tg.block, rl.block) and f.dominates(rl.block, ro.block) and rl.block != ro.block, "order", fn=f, site=ro.at,
                  detail="Trigger::trigger dominates LogFile::roll dominates Roll::roll")
        # gate: both only on the Ok(true) edge
        for c, nm in ((rl, "roll"), (ro, "roller")):
            conds = f.conditions(c.block)
            gate = [(sb, si, al) for sb, si, al in conds if _is_trigger_bool(si.discr)]
            okg = bool(gate) and all({si.label(v) for v, _ in al} == {True} for sb, si, al in gate)
            r.require(okg, "%s-only-on-trigger-true" % nm, fn=f, site=c.at, detail="reachable only from the true edge of the trigger's Ok payload")
            # ... and on nothing else: a second condition would veto rotations the trigger asked for
            extra = [(sb, si, al) for sb, si, al in conds if not _is_trigger_bool(si.discr) and strip(si.discr)[0] != "discr"]
            r.require(not extra, "%s-whenever-triggered" % nm, fn=f, site=c.at, detail="no condition other than the trigger's answer guards it",
                      fail_detail="the rotation the trigger asked for is additionally guarded by %s: a triggered roll can be skipped (and, for a once-only trigger, is never made up)" % [show(si.discr, 4) for sb, si, al in extra])
        # on false: neither reachable, returns Ok
        for b in f.blocks:
            if b["term"]["k"] == "switch":
                si = SwitchInfo(f, b["id"])
                if _is_trigger_bool(si.discr):
                    ft = si.target_of(False)
                    rr = f.reach(ft, include_src=True)
                    r.require(rl.block not in rr and ro.block not in rr, "false-does-nothing", fn=f, detail="on Ok(false) neither roll() nor the roller runs")
        r.require(common.result_is_checked(f, tg) and common.result_is_checked(f, ro), "errors-propagated", fn=f, detail="trigger and roller Results are propagated")
        ok, wit = q.must_follow_on_ok(f, rl.block, [ro.block])
        r.require(ok, "roller-follows-roll", fn=f, detail="after roll() every Ok path runs the roller")
        pa = deep_strip(ro.arg(1))
        r.require(pa[0] == "call" and pa[1] == LOGFILE_PATH and deep_strip(pa[2][0]) == ("param", 2), "roller-gets-active-path", fn=f, site=ro.at,
                  detail="roller argument is log.path(): %s" % show(pa))
        recv_t = deep_strip(tg.arg(0))
        recv_r = deep_strip(ro.arg(0))
        r.require(any(x == ("param", 1) for x in walk(recv_t)) and any(x == ("param", 1) for x in walk(recv_r)) and recv_t != recv_r, "own-trigger-and-roller", fn=f,
                  detail="trigger/roller are the policy's own components")
        g = p.fn(COMPOUND_IS_PRE)
        ge = g.local_expr(0)
        r.require(ge[0] == "call" and ge[1] == TRIGGER_IS_PRE and any(x == ("param", 1) for x in walk(ge)), "is_pre_process-forwards-trigger", fn=g,
                  detail="CompoundPolicy::is_pre_process returns its trigger's answer: %s" % show(ge, 4))


def _is_trigger_bool(discr):
    e = deep_strip(discr)
    return e[0] == "field" and any(x[0] == "call" and x[1] == TRIGGER for x in walk(e))



def _take_is_put_back(g, tk, slot_ty):
    """slot.take() in the opener: every return after it has passed slot.insert(..), except error returns on the arm where the
    slot was empty to begin with (nothing was taken out)"""
    ins = {c.block for c in g.calls("core::option::Option::<T>::insert") if c.t.get("arg_tys") and slot_ty in c.t["arg_tys"][0]}
    if not ins:
        return False
    sw = None
    for blk in g.blocks:
        if blk["term"]["k"] == "switch" and blk["id"] in g.reachable_blocks():
            si = SwitchInfo(g, blk["id"])
            d = strip(si.discr)
            if d[0] == "discr" and strip(d[1])[0] == "call" and len(strip(d[1])) > 3 and strip(d[1])[3] == tk.block:
                sw = si
    if sw is None or sw.target_of("Some") is None:
        return False
    rets = set(g.return_blocks())
    if q.skipping_paths(g, sw.target_of("Some"), ins, rets):
        return False        # a writer taken out of the slot can be dropped
    oks = set(q.ok_exit_blocks(g))
    return not q.skipping_paths(g, tk.block, ins, oks)

def rule_reopen(ctx, p, cfg, rid="R5"):
    with ctx.rule(rid, "get_writer reopens the active path iff closed", cfg) as r:
        ro = roles(p)
        g = ro["get_writer"]
        op = g.call1(OPEN, "OpenOptions::open")
        conds = g.conditions(op.block)
        gate = None
        for sb, si, al in conds:
            e = strip(si.discr)
            if e[0] == "call" and e[1] in ("core::option::Option::<T>::is_none", "core::option::Option::<T>::is_some"):
                gate = (si, al, e)
            elif e[0] == "discr":
                gate = (si, al, e) if gate is None else gate
        r.require(gate is not None, "open-gated-by-emptiness", fn=g, site=op.at, detail="the open is control-dependent on the slot being empty")
        if gate:
            si, al, e = gate
            labels = {si.label(v) for v, _ in al}
            want = {True} if e[0] == "call" and e[1].endswith("is_none") else ({False} if e[0] == "call" else {"None"})
            r.require(labels == want, "open-iff-none", fn=g, detail="open only on the empty edge (edges %s)" % labels)
            slot = deep_strip(e[2][0]) if e[0] == "call" else deep_strip(e[1])
            r.require(any(x == ("param", 2) for x in walk(slot)), "gate-on-the-slot-argument", fn=g, detail="tested value: %s" % show(slot, 3))
        pth = deep_strip(op.arg(1))
        r.require(pth == ("field", ("param", 1), ro["path_field"]), "opens-own-path", fn=g, site=op.at, detail="opened path: %s" % show(pth))
        # a reopened file that is not truncated must be written at its end: append(x) or truncate(x) holds for every flag valuation
        import itertools
        oo = common.open_options(g, op)
        ae, te = oo.get("append"), oo.get("truncate")
        exprs = [e[0] for e in (ae, te) if e]
        atoms = []
        for e in exprs:
            for a in q.bool_atoms(e):
                if a not in atoms:
                    atoms.append(a)
        bad = []
        for vals in itertools.product([False, True], repeat=len(atoms)):
            env = dict(zip(atoms, vals))
            F = ("const", "bool", False)
            pairs = q.eval_bool_joint([ae[0] if ae else F, te[0] if te else F], env)
            if any(a is None or (not a and not t) for a, t in pairs):
                bad.append({show(k, 3): v for k, v in env.items()})
        r.require(bool(ae) and not bad, "appends-unless-truncating", fn=g, site=op.at,
                  detail="append(%s) / truncate(%s): one of them is true for every valuation" % (show(ae[0], 4) if ae else None, show(te[0], 4) if te else None),
                  fail_detail="the active file can be opened with neither append nor truncate (%s): writes start at offset 0 and overwrite the records it still holds" % bad[:2])
        # Some(LogWriter{..}) stored into the slot on the open path, before the Ok return
        slot_ty = "core::option::Option<%s>" % ro["logwriter"]
        stores = []
        for bid, i, s in g.assigns():
            if s.get("lhs_ty") == slot_ty:
                stores.append((bid, g._rvalue(s["rv"], frozenset(), 30, bid)))
        for c in g.calls("core::option::Option::<T>::insert"):
            if c.t.get("arg_tys") and slot_ty in c.t["arg_tys"][0] and any(x == ("param", 2) for x in walk(c.arg(0))):
                # slot.insert(w): the same store, spelled as a call
                stores.append((c.block, ("agg", "core::option::Option", "Some", (("0", c.arg(1)),))))
        r.require(len(stores) == 1 and stores[0][1][0] == "agg" and stores[0][1][2] == "Some", "stores-some", fn=g, detail="slot assignments: %s" % [show(e, 3) for _, e in stores])
        if stores:
            sb = stores[0][0]
            e = stores[0][1]
            inner = dict(e[3]).get("0")
            alts = [deep_strip(a_) for a_ in (deep_strip(inner)[1] if inner and deep_strip(inner)[0] == "phi" else ((inner,) if inner else ()))]
            put_back = [a_ for a_ in alts if any(x[0] == "call" and x[1] == "core::option::Option::<T>::take" and any(y == ("param", 2) for y in walk(x)) for x in walk(a_))]
            fresh = [a_ for a_ in alts if a_ not in put_back]
            # the store sits behind the open, or at the join of "opened just now" and "was open already" (the writer taken out of
            # the slot and put back)
            r.require(g.dominates(op.block, sb) or (g.can_reach(op.block, sb) and bool(put_back) and len(fresh) == 1), "store-after-open", fn=g, detail="the slot is filled from the opened file")
            if len(fresh) == 1 and put_back:
                inner = fresh[0]
            if inner and inner[0] == "agg":
                fe = dict(inner[3]).get(ro["file_field"])
                r.require(fe is not None and any(x[0] == "call" and x[1] == OPEN for x in walk(fe)), "writer-wraps-opened-file", fn=g,
                          detail="LogWriter.%s = %s" % (ro["file_field"], show(fe, 4) if fe else None))
            for x in q.ok_exit_blocks(g):
                # on the path through open, the store precedes the Ok exit
                if x in g.reach(op.block):
                    r.require(not g.can_reach(op.block, x, avoid={sb}) or x == sb, "no-ok-without-store", fn=g, detail="no Ok return after open that skips storing the writer")
        ret = [e for b, e in q.ret_assignments(g) if q.classify_ret(e) == "ok"]
        okret = bool(ret) and all(any(x == ("param", 2) for x in walk(e)) for e in ret)
        r.require(okret, "returns-slot-content", fn=g, detail="Ok value borrows from the slot argument: %s" % [show(e, 4) for e in ret])
        r.require(common.result_is_checked(g, op), "open-error-propagated", fn=g, site=op.at, detail="open's Result is propagated")


WRITE_FAMILY = ("write", "write_all", "write_vectored", "write_fmt", "write_all_vectored")


def rule_writer_handle(ctx, p, cfg, rid="R7"):
    """All bytes reach the active file through one buffered handle, in order, and are counted: the LogWriter's file
    field is touched only by its constructor (the opener) and by its io::Write impl, and there only as the receiver
    of a write-family call or of flush -- never unwrapped (get_mut/get_ref/into_inner/..), cloned or handed out."""
    with ctx.rule(rid, "single buffered handle", cfg) as r:
        ro = roles(p)
        lw, filef = ro["logwriter"], ro["file_field"]
        impl = [i for i in p.impls if i.get("trait") == "std::io::Write" and i.get("self_ty") == lw]
        if len(impl) != 1:
            raise AnchorMissing("io::Write impl for %s not found" % lw)
        impl_fns = set()
        for m in impl[0]["methods"]:
            if m in p.fns:
                impl_fns.add(m)
                for c in p.closures_of(m):
                    impl_fns.add(c.path)
        allowed = impl_fns | {ro["get_writer"].path}
        derive = {f.path for f in p.field_reads(lw, filef) if "Derive" in (f.d.get("exp") or "") or f.d.get("impl_trait") in ("core::fmt::Debug",)}
        users = sorted({f.path for f in p.field_reads(lw, filef)} - derive)
        r.require(set(users) <= allowed, "file-field-users", detail="functions touching %s.%s: %s" % (lw, filef, users),
                  fail_detail="%s.%s is used outside the opener and the io::Write impl: %s" % (lw, filef, sorted(set(users) - allowed)))
        n = 0
        for path in sorted(impl_fns):
            f = p.fn(path)
            for c in f.calls():
                touching = [a for a in c.arg_exprs() if any(x[0] == "field" and x[2] == filef for x in walk(a))]
                if not touching:
                    continue
                if c.callee in ("core::ops::try_trait::Try::branch", "core::ops::try_trait::FromResidual::from_residual") or (c.callee or "").startswith("core::result::Result::"):
                    continue
                n += 1
                nm = (c.decl or "").rsplit("::", 1)[-1]
                recv = deep_strip(c.arg(0))
                direct = recv[0] == "field" and recv[2] == filef and not any(x[0] == "call" for x in walk(recv))
                okc = (c.decl or "").startswith("std::io::Write::") and (nm in WRITE_FAMILY or nm == "flush") and direct
                r.require(okc, "use:%s/%s" % (path.rsplit("::", 1)[-1], common.role(c)), fn=f, site=c.at,
                          detail="%s on the buffered file itself" % nm,
                          fail_detail="%s reaches the file through %s(%s) instead of a write/flush on the buffered handle: bytes can overtake what is still buffered or escape the size counter" % (
                              path.rsplit("::", 1)[-1], c.callee, show(recv, 4)))
        r.floor("uses-of-the-handle", n, 2)
