"""C13 — config building accepts exactly well-formed configs; lossy keeps the valid part."""
from l4sa import q, panics
from l4sa.core import AnchorMissing, ShapeUnrecognised, SwitchInfo, strip, deep_strip, walk, show, calls_in, cmp_nf
from rules import anchors, common

CLAIMED = True
TECHNIQUE = "static analysis over type-checked MIR: constructor/visibility/mutator inventory of Config, edge-conditioned retention and error pushes in build_lossy, strict/lossy result table, rejection-edge table of check_logger_name with separator constants, panic-site inventory of the install/routing cone (+ compile-fail privacy witnesses in the thorough tier)"
LEVEL_TEXT = """Static, all-paths decision of: (V7) every getter of the configuration value types returns the field of its name unchanged, every builder setter stores its argument in the field of its name and touches no other, every build() fills each field from the same-named builder field or parameter, unpack() returns the fields in order (30 functions, floor); (V1) the only Config aggregate is in ConfigBuilder::build_lossy, Config/Root/Logger/Appender fields are private and no public function hands out a mutable path to the name lists (root_mut -> &mut Root, whose only public mutator writes the level); (V2) retention filters: an appender is kept only on the true edge of names.insert(name), a root/logger reference only on the true edge of names.contains(ref) against that same set, a logger only if its name was newly inserted AND check_logger_name returned Ok, kept lists are built by push in iteration order; (V3) build returns Ok(config) iff the error list is empty, every filter's failing edge pushes an error carrying the offending item's own name and no error is pushed on a passing edge; (V4) no un-discharged panic site in the install/routing cone (Logger::new*, SharedLogger::new*, init_config*, routing and delivery; cut at dyn Append/Filter) — the appender_map[..] lookups are justified by V1+V2; (V5) the separator constants of check_logger_name agree with the routing layer's; (V6) check_logger_name rejects exactly on: empty name, a colon streak above len(SEP), a non-colon after a streak that is >0 and != len(SEP), end of input inside a streak. The exact language of names and completeness of error reporting for every input are not decided. (V9) build_lossy stores to no field of a kept item except the filtered appenders lists; (V10) the install sorts by a total order (C01.R2). (V2/V3, cont.) rejected items set aside in a staging vector and reported by one unconditional loop afterwards (the `partition` + `extend` form) are read as the errors they stand for, at the push that sets them aside. (V9, cont.) what is pushed onto the kept lists is the declared item (or a literal/builder rebuild carrying every one of its fields)."""
LEVEL_NOTE = "Trusted: rustc MIR/callee resolution; HashSet/Vec semantics; Rust privacy (witnessed by compile-fail doctests in the thorough tier)."
EXPLANATION = """Decided: V1 sole constructor/private fields/no mutable path, V2 retention filters, V3 strictness and error payloads, V4 install cannot panic, V5 separator agreement, V6 rejection edges of check_logger_name. Undecided: the exact accepted name language for every string; that every offending item is reported (a logger rejected for its name does not get its dangling references reported)."""
DECIDED = ["V1", "V2", "V3", "V4", "V5", "V6", "V7 accessors/setters/build of Config, Root, Logger, Appender and their builders are faithful"]
UNDECIDED = ["exact language accepted by check_logger_name", "completeness of error reporting"]
TRUSTED = ["rustc nightly MIR + Instance::try_resolve", "std HashSet/Vec", "Rust privacy rules"]

BUILD_LOSSY = "config::runtime::ConfigBuilder::build_lossy"
BUILD = "config::runtime::ConfigBuilder::build"
CONFIG = "config::runtime::Config"
ROOT = "config::runtime::Root"
LOGGER = "config::runtime::Logger"
APPENDER = "config::runtime::Appender"
CHECK_NAME = "config::runtime::check_logger_name"
CONFIG_ERROR = "config::runtime::ConfigError"
PUSH = "alloc::vec::Vec::<T, A>::push"
INSERT = "std::collections::hash::set::HashSet::<T, S, A>::insert"
CONTAINS = "std::collections::hash::set::HashSet::<T, S, A>::contains"
CUT = ("append::Append", "filter::Filter", "encode::Encode")


def run(ctx):
    configs = ["default"] if ctx.tier == "quick" else ["default", "release", "full", "single:console_appender"]
    for cfg in configs:
        run_cfg(ctx, ctx.prog(cfg), cfg)
    if ctx.tier == "thorough":
        from rules import witness
        witness.run_witnesses(ctx, "C13")


def name_checker(p):
    """role: the function called in build_lossy whose Result gates keeping a logger"""
    f = p.fn_loops(BUILD_LOSSY)
    cands = [c for c in f.calls() if c.callee in p.fns and c.t.get("dest_ty", "").startswith("core::result::Result<(), %s" % CONFIG_ERROR)]
    if len(cands) != 1:
        raise AnchorMissing("expected one name-validation call in build_lossy, found %s" % [c.callee for c in cands])
    return cands[0]



ITER_NEXT = "core::iter::traits::iterator::Iterator::next"
INTO_ITER = "core::iter::traits::collect::IntoIterator::into_iter"


def _plain_local(op):
    pl = (op.get("move") or op.get("copy")) if isinstance(op, dict) else None
    return pl["l"] if pl is not None and not pl["p"] else None


def _borrowed_local(f, op):
    """the local `v` when the operand is a temporary holding `&mut v` / `&v`"""
    l = _plain_local(op)
    if l is None:
        return None
    ds = [d for d in f.defs(l) if not d[0]]
    if len(ds) == 1 and ds[0][3] == "rv" and ds[0][4]["k"] == "ref" and not ds[0][4]["place"]["p"]:
        return ds[0][4]["place"]["l"]
    return None


def _origin_local(f, l, depth=0):
    """the local a value was built in, looking through whole moves and through `let (a, b) = pair` of a pair built from locals"""
    while depth < 8:
        depth += 1
        ds = [d for d in f.defs(l) if not d[0]]
        if len(ds) != 1 or ds[0][3] != "rv" or ds[0][4]["k"] != "use":
            return l
        pl = ds[0][4]["a"].get("move") or ds[0][4]["a"].get("copy")
        if pl is None:
            return l
        if not pl["p"]:
            l = pl["l"]
            continue
        if len(pl["p"]) == 1 and isinstance(pl["p"][0], dict) and str(pl["p"][0].get("f", "")).isdigit():
            ts = [d for d in f.defs(pl["l"]) if not d[0]]
            if len(ts) == 1 and ts[0][3] == "rv" and ts[0][4]["k"] == "agg" and ts[0][4].get("agg") == "tuple":
                fl = ts[0][4]["fields"]
                i = int(pl["p"][0]["f"])
                inner = _plain_local(fl[i]) if i < len(fl) else None
                if inner is not None:
                    l = inner
                    continue
        return l
    return l


def _subst(e, old, new):
    if e == old:
        return new
    if isinstance(e, tuple):
        return tuple(_subst(x, old, new) for x in e)
    return e


def staging_vectors(f):
    """Rejected items set aside and reported afterwards: `let (ok, missing) = refs.into_iter().partition(|a| names.contains(a));
    errors.extend(missing.into_iter().map(ConfigError::NonexistentAppender))`.  On the loop view that is a vector that is only
    pushed to, and then only consumed by one loop that pushes one ConfigError per element onto the error list with nothing but
    the iteration deciding.  For such a vector V: {V: (block of the reporting push, the error built there, the element there)} -
    a push of x onto V then stands for the push of that error with x for the element."""
    out = {}
    for c2 in f.calls(PUSH):
        a = c2.arg(1)
        aggs = [x for x in walk(a) if x[0] == "agg" and x[1] == CONFIG_ERROR]
        if not aggs or not f.in_loop(c2.block):
            continue
        items = [x for x in walk(aggs[0]) if x[0] == "as" and x[2] == "Some" and strip(x[1])[0] == "call" and strip(x[1])[1] == ITER_NEXT]
        if len(items) != 1:
            continue
        nb = strip(items[0][1])[3] if len(strip(items[0][1])) > 3 else None
        nx = [n for n in f.calls(ITER_NEXT) if n.block == nb]
        if len(nx) != 1:
            continue
        itl = _borrowed_local(f, nx[0].t["args"][0])
        if itl is None:
            continue
        ids = [d for d in f.defs(itl) if not d[0]]
        if len(ids) != 1 or ids[0][3] != "call" or (ids[0][4].get("decl") or "") != INTO_ITER:
            continue
        v = _plain_local(ids[0][4]["args"][0])
        if v is None:
            continue
        v0, v = v, _origin_local(f, v)
        # nothing but "there is another element" decides the report
        own = True
        for sb, si, al in f.conditions(c2.block):
            d = strip(si.discr)
            if d[0] == "discr" and strip(d[1])[0] == "call" and strip(d[1])[1] == ITER_NEXT and len(strip(d[1])) > 3 and strip(d[1])[3] == nb:
                continue
            if f.dominates(nb, sb):
                own = False     # a test inside the reporting loop itself
        if not own:
            continue
        # V: created empty, pushed to, handed to that loop - nothing else
        uses = 0
        okv = True
        for b in f.blocks:
            if b["id"] not in f.reachable_blocks():
                continue
            t = b["term"]
            if t["k"] == "call":
                for i, op in enumerate(t.get("args", [])):
                    if _plain_local(op) in (v, v0):
                        uses += 1
                        okv = okv and (t.get("decl") == INTO_ITER)
            for st in b["stmts"]:
                if st["k"] == "assign" and st["rv"]["k"] == "ref" and st["rv"]["place"]["l"] == v and not st["rv"]["place"]["p"]:
                    users = [c for c in f.calls() if any(_plain_local(op) == st["lhs"]["l"] for op in c.t.get("args", []))]
                    okv = okv and all(c.callee == PUSH for c in users)
        if okv and uses == 1:
            out[v] = (c2.block, aggs[0], ("field", items[0], "0"))
    return out


def staged_error(f, c, staging):
    """the ConfigError a push onto a staging vector stands for (None for any other push)"""
    v = _borrowed_local(f, c.t["args"][0]) if c.t.get("args") else None
    if v is None or v not in staging:
        return None
    blk, agg, item = staging[v]
    new = deep_strip(c.arg(1))
    return _subst(_subst(agg, item, new), deep_strip(item), new)


def rule_kept_as_given(ctx, p, cfg, rid="V9"):
    """What build_lossy keeps, it keeps as it was given: of an appender, a logger or the root it rewrites nothing but the
    `appenders` reference lists it has just filtered - no name, level, additivity, sink or filter chain is replaced or
    edited on the way into the Config."""
    with ctx.rule(rid, "kept items are kept as given", cfg) as r:
        f = p.fn_loops(BUILD_LOSSY)
        stores, bad = 0, []
        for b, i, st in f.assigns():
            for e in st["lhs"]["p"]:
                if isinstance(e, dict) and "f" in e and e.get("adt") in (ROOT, LOGGER, APPENDER):
                    stores += 1
                    if not (e["f"] == "appenders" and e["adt"] in (ROOT, LOGGER)):
                        bad.append("%s.%s" % (e["adt"].rsplit("::", 1)[-1], e["f"]))
        r.ok("stores-inventoried", fn=f, detail="field stores into Root/Logger/Appender values in build_lossy: %d" % stores)
        r.require(not bad, "no-field-of-a-kept-item-rewritten", fn=f, detail="field stores into Root/Logger/Appender in build_lossy: %d, all to the filtered `appenders` lists" % stores,
                  fail_detail="build_lossy rewrites %s of an item it keeps: the configuration installed is not the one that was built (a name that no longer matches its targets, a sink behind another definition's filters)" % sorted(set(bad)))
        # ... and what goes onto the kept lists is the declared item itself (with its list filtered), not a new one put together from
        # some of its parts: a rebuild through the builder starts from the builder's defaults for whatever it does not copy
        FIELDS = {LOGGER: ("name", "level", "additive"), APPENDER: ("name", "appender", "filters")}
        for c in f.calls(PUSH):
            ity = c.t["arg_tys"][1] if len(c.t.get("arg_tys", [])) > 1 else ""
            if ity not in FIELDS:
                continue
            v = deep_strip(c.arg(1))
            alts = v[1] if v[0] == "phi" else (v,)
            for a in alts:
                a = deep_strip(a)
                if a[0] == "partial" or (a[0] == "field" and a[2] == "0" and a[1][0] == "as"):
                    continue        # the iteration's item, or a store into one of its fields (inventoried above)
                okb = False
                if a[0] == "agg" and a[1] == ity:
                    fd = {n: deep_strip(x) for n, x in a[3]}
                    okb = all(fd.get(n, ("?",))[0] == "field" and fd[n][2] == n for n in FIELDS[ity])
                elif a[0] == "call" and a[1].endswith("Builder::build"):
                    have = {x[1].rsplit("::", 1)[-1] for x in walk(a) if x[0] == "call"}
                    args_ = [deep_strip(x) for x in a[2][1:]]
                    okb = all(n in have or any(y[0] == "field" and y[2] == n for y in args_) for n in FIELDS[ity])
                r.require(okb, "kept-item-is-the-declared-one:%s" % common.role(c), fn=f, site=c.at, detail="pushed %s" % show(a, 4),
                          fail_detail="the %s put on the kept list is rebuilt (%s) without all of %s of the declared one: what is left out falls back to a default" % (ity.rsplit("::", 1)[-1], show(a, 4), "/".join(FIELDS[ity])))
        muts = [c for c in f.calls() if any(str(t).startswith(("&mut " + ROOT, "&mut " + LOGGER, "&mut " + APPENDER)) for t in (c.t.get("arg_tys") or []))]
        r.require(not muts, "no-kept-item-handed-out-mutably", fn=f, site=(muts[0].at if muts else None), detail="no call takes a Root/Logger/Appender by `&mut`",
                  fail_detail="build_lossy hands an item it keeps to %s by `&mut`" % (muts[0].callee if muts else ""))


def rule_retention(ctx, p, cfg, rid="V2"):
    """what build_lossy keeps: an appender iff its name is new, a reference iff it names a kept appender, a logger iff its name
    is new and well-formed; kept in order"""
    with ctx.rule(rid, "retention filters", cfg) as r:
        f = p.fn_loops(BUILD_LOSSY)
        nc = name_checker(p)
        pushes = f.calls(PUSH)
        inserts = f.calls(INSERT)
        contains = f.calls(CONTAINS)
        r.require(len(inserts) == 2, "two-name-sets", fn=f, detail="HashSet::insert sites: %d (appender names, logger names)" % len(inserts))
        # classify pushes: error pushes carry a ConfigError; keep pushes carry the item
        keep, err = [], []
        staging = staging_vectors(f)
        reporting = {v[0] for v in staging.values()}
        for c in pushes:
            a = c.arg(1)
            if c.block in reporting:
                continue        # the loop that turns a list of rejected items into errors: accounted for at the pushes onto that list
            if staged_error(f, c, staging) is not None:
                err.append(c)
            elif any(x[0] == "agg" and x[1] == CONFIG_ERROR for x in walk(a)) or any(x[0] == "as" and x[2] == "Err" for x in walk(a)):
                err.append(c)
            else:
                keep.append(c)
        r.require(len(keep) == 4 and len(err) == 5, "push-sites", fn=f, detail="keep pushes %d (appender, root ref, logger ref, logger), error pushes %d" % (len(keep), len(err)))
        app_names = None

        def new_name_gate(gates, item, at, strict=True):
            """the set a name was found new in: true edge of set.insert(item.name), or false edge of set.contains(&item.name) with
            set.insert(item.name) on the way to `at` (or right behind it, still under that edge)"""
            for d, labs in gates:
                if d[1] == INSERT and labs == {True} and (not strict or _names_item(d[2][1], item, "name")):
                    return _set_id(d[2][0])
            for d, labs in gates:
                if d[1] == CONTAINS and labs == {False} and (not strict or _names_item(d[2][1], item, "name")):
                    for i_ in inserts:
                        if _set_id(i_.arg(0)) == _set_id(d[2][0]) and (_names_item(i_.arg(1), item, "name") if strict else _same_name(i_.arg(1), d[2][1])) and (f.dominates(i_.block, at) or f.dominates(at, i_.block)) \
                                and any(strip(si2.discr) == d and {si2.label(v) for v, _ in al2} == {False} for sb2, si2, al2 in f.conditions(i_.block)):
                            return _set_id(d[2][0])
            return None
        for c in keep:
            conds = f.conditions(c.block)
            gates = []
            for sb, si, al in conds:
                d = strip(si.discr)
                labs = {si.label(v) for v, _ in al}
                if d[0] == "call" and d[1] in (INSERT, CONTAINS):
                    gates.append((d, labs))
                if d[0] == "discr" and strip(d[1])[0] == "call" and strip(d[1])[1] == nc.callee:
                    gates.append((strip(d[1]), labs))
            item = deep_strip(c.arg(1))
            ity = c.t["arg_tys"][1] if len(c.t.get("arg_tys", [])) > 1 else ""
            if ity == APPENDER:
                sid = new_name_gate(gates, item, c.block)
                r.require(sid is not None, "appender-kept-iff-name-new", fn=f, site=c.at, detail="kept only on the true edge of appender_names.insert(appender.name) (or past a negative contains() with the insert on the way)")
                if sid is not None:
                    app_names = sid
            elif ity == LOGGER:
                ok1 = new_name_gate(gates, item, c.block, strict=False) is not None
                ok2 = any(d[1] == nc.callee and labs == {"Ok"} for d, labs in gates)
                r.require(ok1 and ok2, "logger-kept-iff-new-and-wellformed", fn=f, site=c.at, detail="kept only if logger_names.insert(name) was true and the name check returned Ok (gates: %s)" % [(d[1].rsplit("::", 1)[-1], sorted(map(str, l))) for d, l in gates])
            elif ity == "alloc::string::String":
                ok = any(d[1] == CONTAINS and labs == {True} and deep_strip(d[2][1]) == item for d, labs in gates)
                r.require(ok, "reference-kept-iff-appender-exists:%s" % common.role(c), fn=f, site=c.at, detail="kept only on the true edge of appender_names.contains(&reference)")
            else:
                r.fail("unclassified-keep-push:%s" % common.role(c), fn=f, site=c.at, detail="pushed type %s" % ity)
        # contains() consults the appender-name set (same set object as the appender insert)
        for c in contains:
            if any(_set_id(i_.arg(0)) == _set_id(c.arg(0)) and _same_name(i_.arg(1), c.arg(1)) for i_ in inserts):
                continue        # the duplicate test spelled contains() + insert() of the same name on the same set
            r.require(app_names is not None and _set_id(c.arg(0)) == app_names, "contains-on-appender-names:%s" % common.role(c), fn=f, site=c.at, detail="reference checked against the set the appenders were inserted into")
        # order preserving: only push (no insert(0)/sort/reverse/dedup) on the kept lists
        bad = [c.callee for c in f.calls() if (c.callee or "").rsplit("::", 1)[-1] in ("sort", "sort_by", "sort_by_key", "reverse", "dedup", "dedup_by_key", "retain", "swap", "rotate_left") or
               ((c.callee or "") == "alloc::vec::Vec::<T, A>::insert")]
        r.require(not bad, "order-preserved", fn=f, detail="reordering calls in build_lossy: %s" % bad)
        # kept lists end up in the Config
        rets = q.ret_assignments(f)
        r.require(len(rets) == 1, "single-return", fn=f, detail="build_lossy has one return value")

def run_cfg(ctx, p, cfg):
    from rules import accessors
    accessors.rule_fidelity(ctx, p, cfg, "V7")
    with ctx.rule("V1", "sole constructor", cfg) as r:
        aggs = sorted({a[0].path for a in p.aggregates(CONFIG) if "Derive" not in (a[0].d.get("exp") or "")})
        r.require(aggs == [BUILD_LOSSY], "config-built-only-by-build_lossy", detail="Config aggregates in: %s" % aggs)
        for adt in (CONFIG, ROOT, LOGGER, APPENDER):
            a = p.adt(adt)
            for fld in a["variants"][0]["fields"]:
                r.require(fld["vis"].startswith("Restricted"), "private:%s.%s" % (adt.rsplit("::", 1)[-1], fld["name"]), detail="visibility %s" % fld["vis"])
        # public functions handing out mutable access
        muts = []
        for f in p.fns.values():
            if f.vis != "Public" or not f.path.startswith("config::runtime::"):
                continue
            sig = f.d.get("sig", "")
            ret = sig.rsplit("->", 1)[-1] if "->" in sig else ""
            if "&" in ret and "mut " in ret:
                muts.append((f.path, ret.strip()))
        r.require(all(ret.endswith("mut config::runtime::Root") for pth, ret in muts), "mutable-access-only-to-root", detail="public functions returning &mut: %s" % muts)
        # public &mut self methods of the four types write only non-list fields
        for f in p.fns.values():
            if f.vis != "Public" or f.d.get("impl_self_adt") not in (CONFIG, ROOT, LOGGER, APPENDER):
                continue
            if not (f.locals[1:2] and f.locals[1].startswith("&mut ")):
                continue
            ws = []
            for b, i, st in f.assigns():
                for e in st["lhs"]["p"]:
                    if isinstance(e, dict) and e.get("adt") in (CONFIG, ROOT, LOGGER, APPENDER):
                        ws.append((e["adt"].rsplit("::", 1)[-1], e["f"]))
            calls_mut = [c.callee for c in f.calls() if any(t.startswith("&mut alloc::vec::Vec") or t.startswith("&mut alloc::string::String") for t in c.t.get("arg_tys", []))]
            okw = all(_field_ty(p, a_, f_) == "log::LevelFilter" for a_, f_ in ws) and not calls_mut
            r.require(okw, "public-mutator-touches-only-level:%s" % f.path, fn=f, detail="field writes %s, list-mutating calls %s" % (ws, calls_mut))
        # unpack()/accessors are not constructors: Config::unpack is crate-private
        for f in p.fns.values():
            if f.d.get("impl_self_adt") == CONFIG and f.vis == "Public":
                sig = f.d.get("sig", "")
                r.require("Vec<config::runtime::Appender>" not in sig.rsplit("->", 1)[-1] or "&" in sig.rsplit("->", 1)[-1] or f.path.endswith("::builder"), "no-public-decomposition:%s" % f.path, fn=f,
                          detail="signature %s" % sig[-120:])

    rule_retention(ctx, p, cfg, "V2")
    rule_kept_as_given(ctx, p, cfg, "V9")
    from rules import c15
    c15.rule_one_snapshot(ctx, p, cfg, "V8")
    from rules import c01
    c01.rule_ancestors_first(ctx, p, cfg, "V10")   # "installed without panicking": the install sorts the loggers by a total order (a key, or a comparator that is `cmp` of two keys); std's sort panics on an inconsistent one (C01.R2 re-evaluated)   # "logged through without panicking": the positions a node holds index the appender table of the same snapshot

    with ctx.rule("V3", "strictness and error payloads", cfg) as r:
        b = p.fn(BUILD)
        lc = b.call1(BUILD_LOSSY)
        sw = None
        for blk in b.blocks:
            if blk["term"]["k"] == "switch" and blk["id"] in b.reachable_blocks():
                si = SwitchInfo(b, blk["id"])
                d = strip(si.discr)
                if d[0] == "call" and d[1].endswith("is_empty") and any(x[0] == "call" and x[1] == BUILD_LOSSY for x in walk(d)):
                    sw = si
        if sw is None:
            raise ShapeUnrecognised("build does not branch on errors.is_empty()")
        outs = q.decision_walk(b, lambda si: None if si.b != sw.b else None, watch_locals=(0,))
        tab = {}
        for o in outs:
            lab = [l for sb, l in o["trace"] if sb == sw.b]
            v = o["last"].get(0)
            if lab and v:
                tab.setdefault(lab[0], set()).add(v[1][2] if v[1][0] == "agg" else "?")
        r.require(tab.get(True) == {"Ok"} and tab.get(False) == {"Err"}, "ok-iff-no-errors", fn=b, detail="errors.is_empty() true -> %s, false -> %s" % (tab.get(True), tab.get(False)))
        ie = p.fn("config::runtime::ConfigErrors::is_empty")
        r.require(any(x[0] == "call" and x[1].endswith("::is_empty") for x in walk(ie.local_expr(0))) and any(x[0] == "field" for x in walk(ie.local_expr(0))), "is_empty-of-the-error-list", fn=ie, detail=show(ie.local_expr(0), 4))
        f = p.fn_loops(BUILD_LOSSY)
        nc = name_checker(p)
        staging = staging_vectors(f)
        reporting = {v[0] for v in staging.values()}
        for c in f.calls(PUSH):
            a = c.arg(1)
            if c.block in reporting:
                continue
            st_ = staged_error(f, c, staging)
            aggs = [st_] if st_ is not None else [x for x in walk(a) if x[0] == "agg" and x[1] == CONFIG_ERROR]
            is_err = bool(aggs) or any(x[0] == "as" and x[2] == "Err" for x in walk(a))
            if not is_err:
                continue
            conds = f.conditions(c.block)
            on_fail = False
            culprit_ok = False
            for sb, si, al in conds:
                d = strip(si.discr)
                labs = {si.label(v) for v, _ in al}
                dup_test = d[0] == "call" and ((d[1] == INSERT and labs == {False}) or (d[1] == CONTAINS and labs == {True}))     # the name is already in the set
                missing_test = d[0] == "call" and d[1] == CONTAINS and labs == {False}
                if dup_test or missing_test:
                    tested = deep_strip(d[2][1])
                    if aggs:
                        payload = deep_strip(dict(aggs[0][3]).get("0"))
                        want = ("DuplicateAppenderName", "DuplicateLoggerName") if dup_test else ("NonexistentAppender",)
                        if aggs[0][2] in want:
                            on_fail = True
                            culprit_ok = culprit_ok or payload == tested or _names_item(d[2][1], payload, None) or _same_name(tested, payload)
                    else:
                        on_fail = True
                if d[0] == "discr" and strip(d[1])[0] == "call" and strip(d[1])[1] == nc.callee and labs == {"Err"}:
                    on_fail = True
                    culprit_ok = any(x[0] == "as" and x[2] == "Err" and strip(x[1])[0] == "call" and strip(x[1])[1] == nc.callee for x in walk(a))
            r.require(on_fail, "error-only-on-failing-edge:%s" % common.role(c), fn=f, site=c.at, detail="error push is control-dependent on a failing check")
            r.require(culprit_ok, "error-names-the-culprit:%s" % common.role(c), fn=f, site=c.at, detail="error payload %s" % show(a, 5))

    with ctx.rule("V4", "no panic on install", cfg) as r:
        ro = anchors.routing(p)
        ents = ["Logger::new", "Logger::new_with_err_handler", "config::init_config", "config::init_config_with_err_handler", anchors.LOG_LOG, anchors.LOG_ENABLED, anchors.LOG_FLUSH, "Handle::set_config", "Logger::max_log_level"]
        if p.has_fn("config::init_raw_config"):
            pass
        cone = p.cone(ents, cut_traits=CUT)
        sat = set()
        if all(o.ok for o in ctx.obs if o.rule in ("V1", "V2") and o.config == cfg):
            sat.add("C13.V1+V2")
        st = panics.check_cone(r, p, cone, "C13", satisfied=sat)
        ctx.extra.setdefault("panic_inventory", {})[cfg] = dict(st, cone=len(cone))
        r.floor("cone-size", len(cone), 15)

    with ctx.rule("V5", "separator agreement with routing", cfg) as r:
        sep = separator_facts(p)
        r.require(sep["routing_sep"] is not None and len(set(sep["routing_seps"])) == 1, "routing-uses-one-separator", detail="separators in add/find: %s" % sep["routing_seps"])
        s = sep["routing_sep"] or ""
        r.require(sep["check_char"] == s[:1] and len(set(s)) == 1, "check-compares-separator-char", detail="check_logger_name compares with %r; routing separator %r" % (sep["check_char"], s))
        okl, why = name_language_ok(p)
        r.require(okl, "check-streak-equals-separator-length", detail="runs of the separator character are accepted exactly at length len(SEP)=%d: %s" % (len(s), why))

    with ctx.rule("V6", "the language the name check accepts", cfg) as r:
        # check_logger_name is read as a finite automaton over {separator character, any other character} and compared, state by
        # state, with the reference (rules/namecheck.py): empty rejected; a run of separator characters longer than the
        # separator rejected; a run of any other length than the separator's followed by another character rejected; a name
        # ending inside a run rejected; everything else accepted
        from rules import namecheck
        nc = name_checker(p)
        f = p.fn_loops(nc.callee)
        sep = separator_facts(p)
        sepstr = sep["routing_sep"] or "::"
        r.require(len(set(sepstr)) == 1, "separator-is-one-repeated-character", fn=f, detail="routing separator %r" % sepstr)
        res = namecheck.compare(f, sepstr[0], len(sepstr))
        seen_ = {}
        for desc, ok in res:
            n_ = seen_.get(desc, 0)
            seen_[desc] = n_ + 1
            r.require(ok, "automaton:%s%s" % (desc, "" if not n_ else " #%d" % n_), fn=f, detail=desc,
                      fail_detail="check_logger_name disagrees with the reference language: %s" % desc)
        r.floor("automaton-transitions", len(res), 9)
        # every rejection names the offending input
        rets = q.ret_assignments(f)
        errs = [(b_, e) for b_, e in rets if q.classify_ret(e) == "err"]
        r.require(bool(errs), "has-rejections", fn=f, detail="Err returns: %d" % len(errs))
        for n_, (b_, e) in enumerate(errs):
            payload = [x for x in walk(e) if x[0] == "agg" and x[1] == CONFIG_ERROR]
            okp = bool(payload) and payload[0][2] == "InvalidLoggerName" and any(deep_strip(y) == ("param", 1) for y in walk(payload[0]))
            r.require(okp, "err-names-input#%d" % n_, fn=f, detail="error is InvalidLoggerName(name.to_owned())")



def name_language_ok(p):
    """the name check accepts exactly the SEP-separated names of the routing code: the automaton comparison of V6, as a premise"""
    from rules import namecheck
    try:
        nc = name_checker(p)
        f = p.fn_loops(nc.callee)
        sep = separator_facts(p)
        sepstr = sep["routing_sep"] or "::"
        if len(set(sepstr)) != 1:
            return False, "separator %r is not one repeated character" % sepstr
        res = namecheck.compare(f, sepstr[0], len(sepstr))
        bad = [d for d, ok in res if not ok]
        return (not bad and len(res) >= 9), ("%d transitions agree with the reference for separator %r" % (len(res), sepstr) if not bad else "disagrees: %s" % bad[:2])
    except (ShapeUnrecognised, AnchorMissing) as e:
        return False, str(e)

def _field_ty(p, adt_short, field):
    for a in (CONFIG, ROOT, LOGGER, APPENDER):
        if a.endswith("::" + adt_short):
            for f in p.adt(a)["variants"][0]["fields"]:
                if f["name"] == field:
                    return f["ty"]
    return None


def _names_item(name_expr, item, field):
    """name_expr is item.<field>.clone() (or item itself when field is None)"""
    n = deep_strip(name_expr)
    if n[0] == "field":
        return n[1] == item or item == n
    return False


def _same_name(a, b):
    a, b = deep_strip(a), deep_strip(b)
    return a == b or (a[0] == "field" and b[0] == "field" and a[1] == b[1] and a[2] == b[2])


def _set_id(e):
    """identity of a HashSet local: the block of the HashSet::new call it derives from"""
    for x in walk(e):
        if x[0] == "call" and x[1].startswith("std::collections::hash::set::HashSet") and x[1].endswith("::new"):
            return x[3]
    return None


def separator_facts(p):
    ro = anchors.routing(p)
    seps = []
    for f in (ro["add"], ro["find"]):
        for c in f.calls():
            nm = (c.callee or "")
            if nm.startswith("core::str::<impl str>::") and nm.rsplit("::", 1)[-1] in ("find", "split", "split_once", "rsplit", "rfind", "rsplit_once", "splitn", "split_terminator", "strip_prefix", "match_indices"):
                for a in c.arg_exprs()[1:]:
                    a = deep_strip(a)
                    if a[0] == "const" and a[1] in ("str", "char"):
                        seps.append(a[2])
    out = {"routing_seps": seps, "routing_sep": seps[0] if seps else None}
    nc = name_checker(p)
    f = p.fn(nc.callee)
    chars, consts = [], []
    for blk in f.blocks:
        if blk["term"]["k"] == "switch" and blk["id"] in f.reachable_blocks():
            si = SwitchInfo(f, blk["id"])
            if blk["term"].get("discr_ty") == "char":
                # `match ch { ':' => .., _ => .. }`
                chars.extend(chr(a["value"]) for a in blk["term"].get("arms", []) if isinstance(a.get("value"), int))
            nf = cmp_nf(si.discr, True)
            if nf:
                for x in (deep_strip(nf[1]), deep_strip(nf[2])):
                    if x[0] == "const" and x[1] == "char":
                        chars.append(x[2])
                    if x[0] == "const" and x[1] == "int":
                        consts.append(x[2])
    out["check_char"] = chars[0] if len(set(chars)) == 1 else None
    out["check_consts"] = consts
    return out


def _streak_local(f):
    """the integer local incremented in the loop"""
    for b, i, s in f.assigns():
        rv = s["rv"]
        if rv["k"] == "bin" and rv["op"] in ("AddWithOverflow", "Add") and not s["lhs"]["p"]:
            a = rv["a"].get("copy") or rv["a"].get("move")
            c = rv["b"].get("const")
            if a and not a["p"] and c and c.get("value") == 1:
                return a["l"]
    raise ShapeUnrecognised("no streak counter found in the name check")


def _test_name(f, si, L):
    d = strip(si.discr)
    if d[0] == "call" and d[1] == "core::str::<impl str>::is_empty" and deep_strip(d[2][0]) == ("param", 1):
        return "is_empty"
    if d[0] == "discr" and strip(d[1])[0] == "call" and strip(d[1])[1] == "core::iter::traits::iterator::Iterator::next":
        return "next"
    nf = cmp_nf(si.discr, True)
    if nf:
        op, a, b = nf
        a, b = deep_strip(a), deep_strip(b)
        if op == "Eq" and (("const", "char") == a[:2] or ("const", "char") == b[:2]):
            return "ch==sep"
        # streak comparisons: normalised to Lt/Le/Eq/Ne with constants
        if op == "Lt" and a[0] == "const" and a[1] == "int":
            return "streak>%d" % a[2]
        if op == "Le" and a[0] == "const" and a[1] == "int":
            return "streak>%d" % (a[2] - 1)
        if op == "Ne" and (a[0] == "const" or b[0] == "const"):
            c = a if a[0] == "const" else b
            return "streak!=%d" % c[2]
        if op == "Eq" and (a[0] == "const" or b[0] == "const"):
            c = a if a[0] == "const" else b
            return "streak==%d" % c[2]
    return None


def _cond_sig(f, block):
    sig = set()
    L = None
    for sb, si, al in f.conditions(block):
        nm = _test_name(f, si, L)
        labs = {si.label(v) for v, _ in al}
        if nm is None or len(labs) != 1:
            sig.add(("?%s" % show(si.discr, 3), str(sorted(map(str, labs)))))
            continue
        lab = labs.pop()
        if nm.startswith("streak==") and lab in (True, False):
            nm, lab = "streak!=" + nm[len("streak=="):], (not lab)
        sig.add((nm, lab))
    return frozenset(sig)
