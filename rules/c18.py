"""C18 — console output obeys tty_only and colour policy; ANSI sequences are well-formed."""
import itertools

from l4sa import q, panics, tables
from l4sa.core import AnchorMissing, ShapeUnrecognised, SwitchInfo, strip, deep_strip, walk, show, calls_in, cmp_nf
from rules import common

CLAIMED = True
TECHNIQUE = "static analysis over type-checked MIR: decision-table extraction of the colour-mode initialiser and writer selection, truth table of do_write, static-read dependence of the tty decision, value-set dataflow discharging every bounds/overflow assert of the SGR buffer, store/offset table of the SGR sequence, highlight set/reset level-set agreement, forwarding-wrapper agreement of the console writer stack"
LEVEL_TEXT = """Static decision of: (X1) the COLOR_MODE initialiser as a decision table over the three flags (NO_COLOR, CLICOLOR_FORCE, CLICOLOR read with env::var(NAME).map(|v| v != "0").unwrap_or(default), defaults false/false/true): Never if NO_COLOR, else Always if CLICOLOR_FORCE, else Never if !CLICOLOR, else Auto; (X2) imp::Writer::{stdout,stderr}: Auto => Some iff isatty(fd)==1 with the matching fd, Always => Some, Never => None; (X3) do_write has the truth table is_tty OR NOT tty_only, append encodes only on the do_write edge, the stream matches Target; (X4) the tty operand of X3 must not depend on COLOR_MODE (today it does: known finding D4); (X5) every bounds/overflow assert and the final range index of AnsiWriter::set_style is discharged by index value sets against the buffer length; (X6) SGR shape as a store table: prefix ESC [ 0, text arm ;3<color>, background arm ;4<color>, intense ;1 / ;22, terminator m, contiguous offsets and matching index increments, slice ends at the terminator, color_byte injective onto '0'..'7' in SGR order; (X7) the set of levels for which Highlight sets a style equals the set for which it resets afterwards; (W1) the console wrapper stack forwards io::Write and set_style. What a terminal renders and pty behaviour are not decided. (X3, cont.) ConsoleAppender::append makes no write/write_all/write_fmt/set_style call of its own. (X12) in ConsoleAppender::append the encoder call is control-dependent on the write flag only and encodes the record it was handed: nothing taken from the record decides whether it is written."""
LEVEL_NOTE = "Trusted: rustc MIR/callee resolution; libc::isatty; std::env::var; once_cell::Lazy evaluates the initialiser once. cfg(windows) code is not compiled here and is not analysed."
EXPLANATION = """Decided: X1 colour decision table, X2 writer selection, X3 do_write table + gating + stream, X4 tty-independence (reports known finding D4), X5 SGR buffer bounds by value sets, X6 SGR store table, X7 highlight pairing, W1 forwarding. Undecided: terminal rendering, pty behaviour, Windows console path (not compiled)."""
DECIDED = ["X1", "X2", "X3", "X4 (known finding D4)", "X5", "X6", "X7", "W1", "X7 highlight pairing by levels and children loops", "X8 style requests travel through every wrapper", "X9/X10 Style and the console builder keep what they are given", "X12 the encoder call in ConsoleAppender::append stands under the write flag only"]
UNDECIDED = ["terminal rendering / pty behaviour", "cfg(windows) console code"]
TRUSTED = ["rustc nightly MIR + Instance::try_resolve", "libc::isatty", "std::env::var", "once_cell::sync::Lazy"]

CM_INIT = "encode::writer::console::COLOR_MODE::{closure#0}"
COLOR_MODE = "encode::writer::console::COLOR_MODE"
IMP_STDOUT = "encode::writer::console::imp::Writer::stdout"
IMP_STDERR = "encode::writer::console::imp::Writer::stderr"
BUILD = "append::console::ConsoleAppenderBuilder::build"
APPEND = "<append::console::ConsoleAppender as append::Append>::append"
SET_STYLE = "<encode::writer::ansi::AnsiWriter<W> as encode::Write>::set_style"
COLOR_BYTE = "encode::writer::ansi::color_byte"
FENCODE = "encode::pattern::FormattedChunk::encode"
WRAPPERS = ["encode::writer::simple::SimpleWriter<W>", "encode::writer::ansi::AnsiWriter<W>", "encode::writer::console::ConsoleWriter",
            "encode::writer::console::ConsoleWriterLock<'a>", "encode::writer::console::imp::Writer", "encode::writer::console::imp::WriterLock<'a>",
            "priv_io::StdWriter", "priv_io::StdWriterLock<'a>", "append::console::WriterLock<'a>"]
STYLE_FORWARDERS = ["encode::writer::console::ConsoleWriter", "encode::writer::console::ConsoleWriterLock<'a>", "encode::writer::console::imp::Writer",
                    "encode::writer::console::imp::WriterLock<'a>", "append::console::WriterLock<'a>", "encode::pattern::MaxWidthWriter<'a>",
                    "encode::pattern::LeftAlignWriter<W>", "&'a mut W"]


def rule_unconditional_write(ctx, p, cfg, rid="X12"):
    """"an unrestricted one always writes the encoded text": in ConsoleAppender::append the encoder call stands under the
    appender's own write flag (decided when it was built, X3) and under nothing taken from the record"""
    with ctx.rule(rid, "the record decides nothing about being written", cfg) as r:
        f = p.fn(APPEND)
        en = [c for c in f.calls() if (c.callee or "") == "encode::Encode::encode"]
        r.require(len(en) == 1, "one-encode-site", fn=f, detail="encoder call sites in ConsoleAppender::append: %d" % len(en))
        adt = p.adt("append::console::ConsoleAppender")
        bools = [x["name"] for x in adt["variants"][0]["fields"] if x["ty"] == "bool"]
        for c in en:
            extra = []
            for sb, si, al in f.conditions(c.block):
                d = deep_strip(si.discr)
                inner = deep_strip(d[2]) if d[0] == "un" and d[1] == "Not" else d
                if inner[0] == "field" and inner[1] == ("param", 1) and inner[2] in bools:
                    continue
                if d[0] == "discr" and not any(x == ("param", 2) for x in walk(d)):
                    continue   # the success edge of an earlier fallible step (lock, ..) that does not look at the record
                extra.append(show(si.discr, 4))
            r.require(not extra, "encode-under-the-write-flag-only", fn=f, site=c.at,
                      detail="the encoder call is control-dependent on self.%s only" % (bools[0] if bools else "?"),
                      fail_detail="ConsoleAppender::append reaches its encoder only when %s: a record the appender was handed can be left unwritten on an unrestricted console" % extra)
            r.require(deep_strip(c.arg(2)) == ("param", 2), "encodes-the-record", fn=f, site=c.at, detail="the record handed to append is the one encoded")


def run(ctx):
    configs = ["default"] if ctx.tier == "quick" else ["default", "release", "full", "single:console_appender"]
    for cfg in configs:
        run_cfg(ctx, ctx.prog(cfg), cfg)


def flag_atoms(f):
    """{name: (atom_expr, default)} for env::var(NAME).map(|v| v != "0").unwrap_or(default)"""
    out = {}
    for c in f.calls(lambda n: n in ("core::result::Result::<T, E>::unwrap_or",)):
        e = ("call", c.callee, tuple(c.arg_exprs()), c.block)
        inner = strip(e[2][0])
        dflt = strip(e[2][1])
        if inner[0] == "call" and inner[1] == "core::result::Result::<T, E>::map":
            src = strip(inner[2][0])
            if src[0] == "call" and src[1] == "std::env::var":
                nm = deep_strip(src[2][0])
                clo = [x for x in walk(inner[2][1]) if x[0] == "closure"]
                if nm[0] == "const" and dflt[0] == "const" and clo:
                    out[nm[2]] = (e, dflt[2], clo[0][1])
    return out


def run_cfg(ctx, p, cfg):
    from rules import accessors
    accessors.rule_fidelity(ctx, p, cfg, "X9", prefix="encode::", floor=3, with_build=False)           # "exactly the requested attributes": Style keeps the colour / intensity it is given, Some(value) for every value
    accessors.rule_fidelity(ctx, p, cfg, "X10", prefix="append::console::", floor=3, with_build=False)  # the builder keeps target, tty_only and encoder
    rule_style_forwarding(ctx, p, cfg, "X8")
    rule_unconditional_write(ctx, p, cfg, "X12")
    from rules import c12
    c12.rule_console_stream_exclusive(ctx, p, cfg, "X11")   # "each highlighted group followed by a reset": a record's bytes are not interleaved with another thread's on the same stream
    with ctx.rule("X1", "colour decision", cfg) as r:
        # the initialiser of COLOR_MODE is followed once per state of the three variables (unset / "0" / anything else):
        # 27 rows, each with the mode the documented precedence gives
        init = p.fn(COLOR_MODE)
        f = None
        for x in walk(init.local_expr(0)):
            if x[0] in ("closure", "fnref") and x[1] in p.fns:
                f = p.fn_loops(x[1])
                break
        if f is None:
            raise AnchorMissing("COLOR_MODE is not initialised from a closure or function of this crate")
        r.ok("static-uses-this-initialiser", fn=init, detail="COLOR_MODE = Lazy::new(%s)" % f.path)

        def var_name(e):
            for x in walk(e):
                if x[0] == "call" and x[1] == "std::env::var" and x[2]:
                    n_ = deep_strip(x[2][0])
                    if n_[0] == "const" and n_[1] == "str":
                        return n_[2]
            return None
        names = sorted({var_name(("call", c.callee, tuple(c.arg_exprs()), c.block)) for c in f.calls("std::env::var")} - {None})
        r.require(set(names) == {"NO_COLOR", "CLICOLOR_FORCE", "CLICOLOR"}, "three-flags", fn=f, detail="environment variables read: %s" % names)
        STATES = ("unset", "0", "1")

        def is_zero_lit(e):
            e = deep_strip(e)
            return e == ("const", "str", "0") or (e[0] == "const" and e[2] in ("0", b"0"))

        def flag_of(e, env):
            """value of a boolean computed from one variable: unwrap_or(map(var(N), |v| v != "0"), d), or v != "0" / v == "0" itself"""
            e = deep_strip(e)
            if e[0] == "call" and e[1] == "core::result::Result::<T, E>::unwrap_or" and len(e[2]) == 2:
                inner, d = deep_strip(e[2][0]), deep_strip(e[2][1])
                n_ = var_name(inner)
                if n_ is None or d[0] != "const" or d[1] != "bool":
                    return None
                if env[n_] == "unset":
                    return bool(d[2])
                if inner[0] == "call" and inner[1] == "core::result::Result::<T, E>::map":
                    clo = [x for x in walk(inner[2][1]) if x[0] == "closure" and x[1] in p.fns]
                    if clo:
                        ce = p.fn(clo[0][1]).local_expr(0)
                        nf = cmp_nf(ce)
                        if nf and nf[0] in ("Ne", "Eq") and (any(is_zero_lit(x) for x in nf[1:]) or any("promoted" in str(x) for x in walk(ce))):
                            return (env[n_] != "0") == (nf[0] == "Ne")
                return None
            nf = cmp_nf(e)
            if nf and nf[0] in ("Ne", "Eq"):
                n_ = var_name(e)
                if n_ is not None and env[n_] != "unset" and (any(is_zero_lit(x) for x in nf[1:]) or any("promoted" in str(x) or (x[0] == "const" and x[1] in ("str", "bytes", "opaque")) for y in nf[1:] for x in walk(y))):
                    return (env[n_] != "0") == (nf[0] == "Ne")
            return None
        table = {}
        for vals in itertools.product(STATES, repeat=len(names)):
            env = dict(zip(names, vals))

            def choose(si, env=env):
                d = strip(si.discr)
                if d[0] == "discr":
                    inner = deep_strip(d[1])
                    n_ = var_name(inner) if inner[0] == "call" and inner[1] == "std::env::var" else None
                    if n_ is not None:
                        return ["Err"] if env[n_] == "unset" else ["Ok"]
                    return None
                v = flag_of(si.discr, env)
                return None if v is None else [v]

            def call_value(t, env=env):
                e = f._call_expr(t, -1, frozenset(), 30)
                return flag_of(e, env)
            outs = q.decision_walk(f, choose, watch_locals=(0,), track={"call_value": call_value, "place_value": lambda pl: None})
            res = set()
            for o in outs:
                if o.get("stuck") or f.term(o["end"])["k"] != "return":
                    continue
                v = o["last"].get(0)
                res.add(v[1][2] if v and v[1][0] == "agg" else "?")
            table[vals] = res
        dflt = {"NO_COLOR": False, "CLICOLOR_FORCE": False, "CLICOLOR": True}
        for vals, res in sorted(table.items()):
            env = dict(zip(names, vals))
            flag = {n_: (dflt.get(n_, False) if env[n_] == "unset" else env[n_] != "0") for n_ in names}
            want = "Never" if flag.get("NO_COLOR") else "Always" if flag.get("CLICOLOR_FORCE") else "Never" if not flag.get("CLICOLOR", True) else "Auto"
            key = ",".join("%s=%s" % (n_, env[n_]) for n_ in names)
            r.require(res == {want}, "row:" + key, fn=f, detail="%s -> %s (expected %s)" % (key, sorted(res), want))
        ctx.extra["color_table"] = {",".join("%s=%s" % (n_, v) for n_, v in zip(names, k)): sorted(v2) for k, v2 in table.items()}

    with ctx.rule("X2", "writer selection", cfg) as r:
        for path, fd, std in ((IMP_STDOUT, 1, "stdout"), (IMP_STDERR, 2, "stderr")):
            f = p.fn(path)
            isa = f.calls("libc::unix::isatty")
            r.require(len(isa) == 1 and deep_strip(isa[0].arg(0)) == ("const", "int", fd), "%s:isatty-fd" % std, fn=f, detail="isatty(%s)" % (show(isa[0].arg(0)) if isa else None))
            for mode in ("Auto", "Always", "Never"):
                for tty in (True, False):
                    def choose(si, mode=mode, tty=tty):
                        d = strip(si.discr)
                        if d[0] == "discr" and any(x[0] == "const" and x[1] == "static" and x[2] == COLOR_MODE for x in walk(d)):
                            return [mode]
                        nf = cmp_nf(si.discr, True)
                        if nf and any(x[0] == "call" and x[1] == "libc::unix::isatty" for x in walk(si.discr)):
                            op, a, b = nf
                            one = ("const", "int", 1)
                            if op == "Ne" and one in (deep_strip(a), deep_strip(b)):
                                return [not tty]      # (isatty != 1) is true iff not a tty
                            if op == "Eq" and one in (deep_strip(a), deep_strip(b)):
                                return [tty]
                            raise ShapeUnrecognised("isatty result compared in an unrecognised way: %s" % show(si.discr))
                        return None
                    def bin_value(rv, tty=tty):
                        # `1 == isatty(fd)` kept in a variable (a helper's result) and tested later
                        if rv.get("op") not in ("Eq", "Ne"):
                            return None
                        ea, eb = deep_strip(f.expr(rv["a"])), deep_strip(f.expr(rv["b"]))
                        one = ("const", "int", 1)
                        other = eb if ea == one else ea if eb == one else None
                        if other is not None and other[0] == "call" and other[1] == "libc::unix::isatty":
                            return tty if rv["op"] == "Eq" else (not tty)
                        return None
                    outs = q.decision_walk(f, choose, watch_locals=(0,), track={"bin_value": bin_value, "call_value": lambda t: None, "place_value": lambda pl: None})
                    res = set()
                    for o in outs:
                        if o.get("stuck") or f.term(o["end"])["k"] != "return":
                            continue
                        v = o["last"].get(0)
                        res.add(v[1][2] if v and v[1][0] == "agg" else "?")
                    want = "Some" if (mode == "Always" or (mode == "Auto" and tty)) else "None"
                    r.require(res == {want}, "%s:%s:tty=%d" % (std, mode, tty), fn=f, detail="mode %s, isatty %s -> %s (expected %s)" % (mode, tty, sorted(res), want))
            # the writer wraps the matching std stream
            clos = p.closures_of(path)
            names = {(c.callee or "").rsplit("::", 1)[-1] for g in clos + [f] for c in g.calls() if (c.callee or "").startswith("priv_io::StdWriter::")}
            r.require(names == {std}, "%s:wraps-matching-stream" % std, fn=f, detail="StdWriter constructors used: %s" % sorted(names))

    with ctx.rule("X3", "tty_only formula", cfg) as r:
        b = p.fn(BUILD)
        aggs = [a for a in p.aggregates("append::console::ConsoleAppender") if a[0] is b]
        if len(aggs) != 1:
            raise ShapeUnrecognised("ConsoleAppender aggregate not found in build")
        _, ab, ai, rv = aggs[0]
        adt = p.adt("append::console::ConsoleAppender")
        bools = [x["name"] for x in adt["variants"][0]["fields"] if x["ty"] == "bool"]
        if len(bools) != 1:
            raise AnchorMissing("ConsoleAppender: expected one bool field")
        dw_op = rv["fields"][rv["field_names"].index(bools[0])]
        pl = dw_op.get("copy") or dw_op.get("move")
        if not pl:
            raise ShapeUnrecognised("do_write is a constant")
        dw_local = pl["l"]
        # look through a copy
        ds = [d for d in b.defs(dw_local) if not d[0]]
        if len(ds) == 1 and ds[0][3] == "rv" and ds[0][4]["k"] == "use" and (ds[0][4]["a"].get("copy") or ds[0][4]["a"].get("move")) and not (ds[0][4]["a"].get("copy") or ds[0][4]["a"].get("move"))["p"]:
            dw_local = (ds[0][4]["a"].get("copy") or ds[0][4]["a"].get("move"))["l"]
        builder = p.adt("append::console::ConsoleAppenderBuilder")
        bflag = [x["name"] for x in builder["variants"][0]["fields"] if x["ty"] == "bool"]
        tty_only = ("field", ("param", 1), bflag[0])
        istty_calls = [c for c in b.calls() if c.callee in p.fns and p.fns[c.callee].d.get("sig", "").endswith("-> bool") and c.callee.startswith("append::console::")]
        if len(istty_calls) != 1:
            raise ShapeUnrecognised("cannot identify the is-a-terminal operand of do_write")
        ist = istty_calls[0]
        ist_atom = ("call", ist.callee)
        rows = {}
        for tty, only in itertools.product([False, True], repeat=2):
            def choose(si, tty=tty, only=only):
                d = deep_strip(si.discr)
                if d[0] == "call" and d[1] == ist.callee:
                    return [tty]
                if d == tty_only:
                    return [only]
                if d[0] == "un" and d[1] == "Not" and deep_strip(d[2]) == tty_only:
                    return [not only]
                return None
            bflag_name = bflag[0]

            def place_value(pl, only=only):
                pr = pl["p"]
                if pl["l"] == 1 and pr and isinstance(pr[-1], dict) and pr[-1].get("f") == bflag_name and all(x == "*" for x in pr[:-1]):
                    return only
                return None

            def call_value(t, tty=tty):
                return tty if (t.get("resolved") == ist.callee or t.get("decl") == ist.callee) else None
            # case split over the two inputs with boolean constants propagated along each walk
            outs = q.decision_walk(b, choose, watch_locals=(dw_local,), start=0, track={"place_value": place_value, "call_value": call_value})
            res = set()
            for o in outs:
                if o.get("stuck") or b.term(o["end"])["k"] != "return":
                    continue
                if dw_local in o.get("env", {}):
                    res.add(o["env"][dw_local])
                    continue
                v = o["last"].get(dw_local)
                if v is None:
                    res.add("?")
                    continue
                e = v[1]
                env = {tty_only: only}
                ee = _norm_bool(e, tty_only, ist.callee, tty)
                res |= q.eval_bool(ee, env)
            rows[(tty, only)] = res
            r.require(res == {tty or not only}, "row:is_tty=%d,tty_only=%d" % (tty, only), fn=b, detail="do_write = %s (expected %s)" % (sorted(res), tty or not only))
        # is_tty() is true exactly for the Tty variant
        it = p.fn(ist.callee)
        outs = q.decision_walk(it, lambda si: None, watch_locals=(0,))
        tt = {}
        for o in outs:
            lab = [l for (sb, l) in o["trace"]]
            v = o["last"].get(0)
            tt[tuple(lab)] = v[1] if v else None
        oktt = all((("Tty" in k) == (v == ("const", "bool", True))) for k, v in tt.items()) and any("Tty" in k for k in tt)
        r.require(oktt, "is_tty-iff-console-variant", fn=it, detail="is_tty decision: %s" % {k: show(v) for k, v in tt.items()})
        # append gates on do_write
        a = p.fn(APPEND)
        enc = a.calls("encode::Encode::encode")
        r.require(len(enc) == 1, "one-encode", fn=a, detail="encode sites %d" % len(enc))
        for c in enc:
            conds = a.conditions(c.block)
            gate = [(si, al) for sb, si, al in conds if deep_strip(si.discr) == ("field", ("param", 1), bools[0])]
            r.require(bool(gate) and all({si.label(v) for v, _ in al} == {True} for si, al in gate), "append-gated-by-do_write", fn=a, site=c.at,
                      detail="encode only on the do_write edge")
            fl = a.calls("std::io::Write::flush")
            r.require(bool(fl) and q.must_follow_on_ok(a, c.block, [x.block for x in fl])[0], "flushes-after-encode", fn=a, detail="console output is flushed after each record")
        # the appender itself puts no bytes on the stream: text and escape sequences come from the encoder, through the writer's
        # set_style - which is where the colour policy sits; a raw write of its own would bypass NO_COLOR / the terminal test
        raw = [c for c in a.calls() if (c.callee or "").rsplit("::", 1)[-1] in ("write", "write_all", "write_fmt", "write_vectored", "set_style") and
               ("io::Write" in (c.callee or "") + str(c.t.get("decl") or "") + str(c.t.get("decl_trait") or "") or "encode::Write" in (c.callee or "") + str(c.t.get("decl") or ""))]
        r.require(not raw, "appender-writes-nothing-itself", fn=a, site=(raw[0].at if raw else None), detail="the only uses of the locked writer in append are Encode::encode and flush",
                  fail_detail="ConsoleAppender::append calls %s on the stream itself: bytes (an escape sequence, say) that do not pass the encoder and the colour policy" % (raw[0].callee if raw else ""))
        rets = q.ret_assignments(a)
        # silent means Ok(()) without writing
        for blk in a.blocks:
            if blk["term"]["k"] == "switch" and deep_strip(SwitchInfo(a, blk["id"]).discr) == ("field", ("param", 1), bools[0]):
                ft = SwitchInfo(a, blk["id"]).target_of(False)
                rr = a.reach(ft, include_src=True)
                r.require(not any(c.block in rr for c in a.calls() if c.callee not in ("core::ops::try_trait::Try::branch",)), "silent-when-not-do_write", fn=a,
                          detail="no call at all on the do_write == false edge")
        # stream matches Target
        tops = []
        for blk in b.blocks:
            if blk["term"]["k"] == "switch" and blk["id"] in b.reachable_blocks():
                si = SwitchInfo(b, blk["id"])
                d = strip(si.discr)
                if d[0] == "discr" and deep_strip(d[1])[0] == "field" and deep_strip(d[1])[1] == ("param", 1) and set((si.variants or {}).values()) == {"Stdout", "Stderr"}:
                    tops.append(si)
        if not tops:
            raise ShapeUnrecognised("no switch on the builder's target")

        def arm(si, lab):
            for l_, t_ in si.labelled_edges():
                if l_ == lab or (isinstance(l_, tuple) and l_ and l_[0] == "otherwise" and lab in l_[1]):
                    return t_
            return None
        for lab, other in (("Stdout", "stderr"), ("Stderr", "stdout")):
            names = set()
            for top in tops:     # the target may be matched more than once (console writer first, plain stream as the fallback)
                t = arm(top, lab)
                oth = arm(top, "Stderr" if lab == "Stdout" else "Stdout")
                if t is None or oth is None:
                    raise ShapeUnrecognised("a match on the target without both arms")
                region = b.reach(t, include_src=True) - b.reach(oth, include_src=True)
                names |= {(c.callee or "").rsplit("::", 1)[-1] for c in b.calls() if c.block in region}
            r.require(lab.lower() in names and other not in names, "stream:%s" % lab, fn=b, detail="calls on the %s arm: %s" % (lab, sorted(names)))
        # every stream constructor is chosen by the target: it sits on the matching arm of some match on the target, never on a
        # path both arms share (a common fallback wired to one stream sends the other target's output there)
        for c in b.calls():
            nm = (c.callee or "").rsplit("::", 1)[-1]
            if nm not in ("stdout", "stderr"):
                continue
            arms = []
            for top in tops:
                for lab in ("Stdout", "Stderr"):
                    t, oth = arm(top, lab), arm(top, "Stderr" if lab == "Stdout" else "Stdout")
                    if c.block in (b.reach(t, include_src=True) - b.reach(oth, include_src=True)):
                        arms.append(lab)
            r.require(bool(arms) and all(a.lower() == nm for a in arms), "stream-chosen-by-target:%s" % common.role(c), fn=b, site=c.at,
                      detail="%s is constructed on the %s arm(s) of the target match" % (c.callee, sorted(set(arms))),
                      fail_detail="%s is constructed %s: an appender for the other target writes there" % (c.callee, "on a path shared by both targets" if not arms else "on the %s arm" % sorted(set(arms))))

    with ctx.rule("X4", "tty decision independent of colour", cfg) as r:
        b = p.fn(BUILD)
        istty_calls = [c for c in b.calls() if c.callee in p.fns and p.fns[c.callee].d.get("sig", "").endswith("-> bool") and c.callee.startswith("append::console::")]
        ist = istty_calls[0]
        operand = ist.arg(0)
        srcs = sorted({x[1] for x in walk(operand) if x[0] == "call" and x[1] in p.fns})
        cone = p.cone(srcs + [ist.callee], cut_traits=("encode::Encode", "append::Append")) if srcs else {ist.callee}
        reads = sorted(x for x in cone if _mentions_static(p.fns[x], COLOR_MODE))
        probes = sorted(x for x in cone if p.fns[x].calls(lambda n: n in ("libc::unix::isatty", "std::io::IsTerminal::is_terminal") or (n or "").endswith("::is_terminal")))
        r.require(bool(probes), "tty-operand-probes-the-terminal", fn=b, site=ist.at, detail="terminal probes in the operand's cone: %s" % probes)
        r.require(not reads, "tty-operand-independent-of-COLOR_MODE", fn=b, site=ist.at,
                  detail="functions computing the tty operand: %s" % sorted(cone),
                  fail_detail="the `is terminal` operand of do_write (%s) is computed by %s, which read COLOR_MODE: with tty_only, NO_COLOR=1 silences a real terminal and CLICOLOR_FORCE=1 writes to a pipe" % (show(operand, 3), reads))

    with ctx.rule("X5", "SGR sequences and buffer bounds", cfg) as r:
        # set_style is followed once per shape of Style (2 x 2 x 3 = 12 paths) with constants propagated along the path:
        # what each shape writes, and whether any store / slice / compiler-inserted check can leave the buffer (rules/sgr.py)
        from rules import sgr
        f = p.fn_loops(SET_STYLE)
        n_checks = sgr.rule_sequences(r, p, f)
        ctx.extra["sgr_checks_on_paths"] = n_checks

    with ctx.rule("X6", "SGR colour table and sink", cfg) as r:
        f = p.fn_loops(SET_STYLE)
        # color_byte injective onto '0'..'7' in SGR order
        cb = p.fn(COLOR_BYTE)
        outs = q.decision_walk(cb, lambda si: None, watch_locals=(0,))
        cmap = {}
        for o in outs:
            labs = [l for sb, l in o["trace"]]
            v = o["last"].get(0)
            if labs and v and v[1][0] == "const":
                cmap[labs[-1]] = chr(v[1][2])
        wantc = {"Black": "0", "Red": "1", "Green": "2", "Yellow": "3", "Blue": "4", "Magenta": "5", "Cyan": "6", "White": "7"}
        r.require(cmap == wantc, "color_byte-table", fn=cb, detail="color_byte: %s" % cmap)
        # the sequence goes to the wrapped writer in one write_all
        wa = f.calls("std::io::Write::write_all")
        r.require(len(wa) == 1 and deep_strip(wa[0].arg(0)) == ("field", ("param", 1), "0"), "writes-the-sequence", fn=f, detail="one write_all on the wrapped writer")
        ret = f.local_expr(0)
        r.require(any(x[0] == "call" and x[1] == "std::io::Write::write_all" for x in walk(ret)), "write-result-returned", fn=f, detail="set_style returns the write's result")

    with ctx.rule("X7", "highlight pairing", cfg) as r:
        f = p.fn_loops(FENCODE)
        ss = [c for c in f.calls("encode::Write::set_style")]
        top = None
        for blk in f.blocks:
            if blk["term"]["k"] == "switch" and blk["id"] in f.reachable_blocks():
                si = SwitchInfo(f, blk["id"])
                d = strip(si.discr)
                if d[0] == "discr" and deep_strip(d[1]) == ("param", 1):
                    top = si
                    break
        ht = top.target_of("Highlight") if top else None
        if ht is None:
            raise ShapeUnrecognised("no Highlight arm in FormattedChunk::encode")
        others = [t for lab, t in top.labelled_edges() if lab != "Highlight" and not isinstance(lab, tuple)]
        region = f.reach(ht, include_src=True)
        for o in others:
            region -= f.reach(o, include_src=True)
        hs = [c for c in ss if c.block in region]
        enc = [c for c in f.calls("encode::pattern::Chunk::encode") if c.block in region]
        # once on every path: no children loop can follow another, and no non-error return of the arm is reached without one
        NEXT_ = "core::iter::traits::iterator::Iterator::next"
        steps = {n.block for n in f.calls(NEXT_) if n.block in region and any(f.can_reach(n.block, e_.block) and f.can_reach(e_.block, n.block) for e_ in enc)}
        twice = [(a_, b_) for a_ in steps for b_ in steps if a_ != b_ and f.can_reach(a_, b_) and not f.can_reach(b_, a_)]
        rets_ = {b for b, e in q.ret_assignments(f) if q.classify_ret(e) != "err" and not q.is_from_residual(e)} & region
        missed = q.skipping_paths(f, ht, steps, rets_) if steps else rets_
        r.require(bool(enc) and not twice and not missed, "children-encoded-once", fn=f, detail="Chunk::encode sites on the Highlight arm: %d, one on every path" % len(enc))
        before, after = {}, {}

        def level_labels(block):
            for sb, si, al in f.conditions(block):
                d = strip(si.discr)
                if d[0] == "discr" and any(x[0] == "call" and x[1] == "log::Record::<'a>::level" for x in walk(d)):
                    return {si.label(v) for v, _ in al}
            return None

        def levels_via_option(si, al):
            """`if style.is_some()` / `if let Some(..) = style` where `style` was chosen per level earlier: the levels
            on whose edges the tested Option was built as the variant this edge requires"""
            d = strip(si.discr)
            labs = {si.label(v) for v, _ in al}
            loc = None
            want = None
            if d[0] == "call" and d[1] in ("core::option::Option::<T>::is_some", "core::option::Option::<T>::is_none") and labs in ({True}, {False}):
                want = "Some" if (d[1].endswith("is_some")) == (True in labs) else "None"
                t = f.term(d[3])
                pl = t["args"][0].get("copy") or t["args"][0].get("move")
                if pl and not pl["p"]:
                    for (dp, b, i, kind, payload) in f.defs(pl["l"]):
                        if kind == "rv" and payload["k"] == "ref" and not payload["place"]["p"]:
                            loc = payload["place"]["l"]
            elif d[0] == "discr" and labs <= {"Some", "None"} and len(labs) == 1:
                want = list(labs)[0]
                for st in f.stmts(si.b):
                    if st["k"] == "assign" and st["rv"]["k"] == "discr" and not st["rv"]["place"]["p"]:
                        loc = st["rv"]["place"]["l"]
            if loc is None:
                return None
            def variant_defs(l, depth=4):
                res = []
                for (dp, b, i, kind, payload) in f.defs(l):
                    if dp:
                        return None
                    if kind == "rv" and payload["k"] == "agg" and payload.get("variant") in ("Some", "None"):
                        res.append((b, payload["variant"]))
                    elif kind == "rv" and payload["k"] == "use" and depth > 0 and (payload["a"].get("copy") or payload["a"].get("move")) \
                            and not (payload["a"].get("copy") or payload["a"].get("move"))["p"]:
                        sub = variant_defs((payload["a"].get("copy") or payload["a"].get("move"))["l"], depth - 1)
                        if sub is None:
                            return None
                        res.extend((b2, v) for b2, v in sub if b2 == b or f.can_reach(b2, b))
                    else:
                        return None
                return res
            vd = variant_defs(loc)
            if not vd:
                return None
            out = set()
            for blk, var in vd:
                if var == want:
                    lv = level_labels(blk)
                    if lv is None:
                        return None
                    out |= lv
            return out
        def levels_via_flag(si, al):
            """`let styled = match level { L1 => { set; true } .. _ => false }; ..; if styled { reset }`: the levels on whose
            edges the tested flag was given the value this edge requires"""
            labs = {si.label(v) for v, _ in al}
            if not si.is_bool or labs not in ({True}, {False}):
                return None
            pl = si.t["discr"].get("copy") or si.t["discr"].get("move")
            if not pl or pl["p"]:
                return None
            if any(st["k"] == "assign" and st["rv"]["k"] in ("ref", "rawptr") and st["rv"]["place"]["l"] == pl["l"] and (st["rv"].get("mut") or st["rv"]["k"] == "rawptr")
                   for b_ in f.blocks for st in b_["stmts"]):
                return None
            rds = f.root_defs(pl["l"])
            if not rds or not all(e[0] == "const" and e[1] == "bool" for b, e in rds):
                return None
            out = set()
            for b, e in rds:
                if e[2] is (True in labs):
                    lv = level_labels(b)
                    if lv is None:
                        return None
                    out |= lv
            return out
        ALL_LEVELS = {"Error", "Warn", "Info", "Debug", "Trace"}

        def levels_via_comparison(si, al):
            """`if level != Level::Debug { reset }`: the levels for which the comparison sends control along this edge"""
            labs = {si.label(v) for v, _ in al}
            if not si.is_bool or labs not in ({True}, {False}):
                return None
            nf = cmp_nf(si.discr, True)
            if not nf or nf[0] not in ("Eq", "Ne"):
                return None
            a, b = deep_strip(nf[1]), deep_strip(nf[2])
            lvl = None
            for x, y in ((a, b), (b, a)):
                if any(z[0] == "call" and z[1] == "log::Record::<'a>::level" for z in walk(x)):
                    if y[0] == "agg" and y[1] == "log::Level" and not y[3]:
                        lvl = y[2]
                    elif y[0] == "const" and y[1] == "enum" and y[2] in ALL_LEVELS:
                        lvl = y[2]
            if lvl is None:
                return None
            same = (nf[0] == "Eq") == (True in labs)
            return {lvl} if same else ALL_LEVELS - {lvl}
        for c in hs:
            levels = level_labels(c.block) or set()
            for sb, si, al in f.conditions(c.block):
                lv = levels_via_option(si, al)
                if lv is None:
                    lv = levels_via_flag(si, al)
                if lv is None:
                    lv = levels_via_comparison(si, al)
                if lv is not None:
                    levels = (levels & lv) if levels else lv
            is_reset = _is_plain_style(c.arg(1), f)
            pre = enc and any(f.can_reach(c.block, e_.block) for e_ in enc)
            (before if pre else after)[c.block] = (frozenset(str(x) for x in levels), is_reset)
        set_levels = set().union(*[lv for lv, rs in before.values() if not rs]) if before else set()
        reset_levels = set().union(*[lv for lv, rs in after.values() if rs]) if after else set()
        r.require(bool(set_levels) and set_levels == reset_levels, "set-levels-equal-reset-levels", fn=f,
                  detail="styled before the children for %s; reset (Style::new()) after for %s" % (sorted(set_levels), sorted(reset_levels)))
        r.require(all(rs for lv, rs in after.values()) and all(not rs for lv, rs in before.values()), "reset-is-plain-style", fn=f,
                  detail="after-children calls pass Style::new(); before-children calls pass a coloured style")
        # nothing but set_style / children encode writes on this arm (highlight adds only style)
        wr = [c.callee for c in f.calls() if c.block in region and (c.callee or "").startswith("std::io::Write::")]
        r.require(not wr, "highlight-writes-no-text", fn=f, detail="io::Write calls on the Highlight arm: %s" % wr)

    common.w1_forwarders(ctx, p, cfg, WRAPPERS, rid="W1", floor=36)
    common.w1_forwarders(ctx, p, cfg, STYLE_FORWARDERS, traits=("encode::Write",), rid="W1s", floor=7)


def _akey(s, n):
    return "%s:%s" % (s.what, s.sig())


def _state_before(vs, f, blk, idx):
    """value-set state just before statement idx of block blk"""
    st = dict(vs.IN.get(blk, {}))
    saved = f.blocks[blk]["stmts"]
    # replay the transfer on a truncated statement list
    class _F:
        pass
    trunc = {"stmts": saved[:idx], "term": {"k": "goto", "target": 0}}
    orig_stmts, orig_term = f.stmts, f.term
    f.stmts = lambda b, _t=trunc, _o=orig_stmts: _t["stmts"] if b == blk else _o(b)
    f.term = lambda b, _t=trunc, _o=orig_term: _t["term"] if b == blk else _o(b)
    try:
        out = vs._transfer(blk, st)
    finally:
        f.stmts, f.term = orig_stmts, orig_term
    return out


def _offset_from_idx(f, il):
    """classify an index local: ('abs', k) for a constant, ('idx', k) for idx + k"""
    e = f.local_expr(il)
    e = strip(e)
    if e[0] == "const":
        return ("abs", e[2])
    if e[0] == "bin" and e[1] == "Add" and strip(e[3])[0] == "const":
        return ("idx", strip(e[3])[2])
    return ("idx", 0)


def _mentions_static(f, static):
    for b in f.blocks:
        if b["id"] not in f.reachable_blocks():
            continue
        t = b["term"]
        ops = list(t.get("args", []))
        for s in b["stmts"]:
            if s["k"] == "assign":
                from l4sa.core import _rv_operands
                ops.extend(_rv_operands(s["rv"]))
        for o in ops:
            c = o.get("const")
            if c and (c.get("static") == static or c.get("item") == static):
                return True
    return False


def _norm_bool(e, tty_only, ist_callee, tty):
    e = strip(e, calls=set())
    if e[0] == "call" and e[1] == ist_callee:
        return ("const", "bool", tty)
    if e[0] == "un":
        return ("un", e[1], _norm_bool(e[2], tty_only, ist_callee, tty))
    if e[0] == "bin":
        return ("bin", e[1], _norm_bool(e[2], tty_only, ist_callee, tty), _norm_bool(e[3], tty_only, ist_callee, tty))
    if e[0] == "const":
        return e
    d = deep_strip(e)
    return d


def _is_plain_style(e, f=None):
    names = [x[1].rsplit("::", 1)[-1] for x in walk(e) if x[0] == "call" and x[1].startswith("encode::Style::")]
    plain = names == ["new"] or (bool(names) and set(names) == {"new"})
    if plain and f is not None:
        # a Style::new() kept in a local and then configured through `&mut` setters is not plain
        for x in walk(e):
            if x[0] == "call" and x[1] == "encode::Style::new" and len(x) > 3 and x[3] is not None:
                t = f.term(x[3])
                if t["k"] == "call" and not t["dest"]["p"]:
                    l = t["dest"]["l"]
                    for b, i, st in f.assigns():
                        rv = st["rv"]
                        if rv["k"] == "ref" and rv.get("mut") and rv["place"]["l"] == l:
                            return False
    return plain


# writers that take no styling by design: they end in a file or an arbitrary io::Write
PLAIN_SINKS = {"append::rolling_file::LogWriter": "bytes go to the log file", "encode::writer::simple::SimpleWriter": "wraps an arbitrary io::Write; documented to ignore styling"}
# writers that consume the request themselves
STYLE_CONSUMERS = {"encode::writer::ansi::AnsiWriter": "emits the SGR sequence (X5/X6)", "encode::pattern::RightAlignWriter": "buffers the style with the text and replays both in finish() (C10.A4)"}


def rule_style_forwarding(ctx, p, cfg, rid="X8"):
    """A style request issued by the pattern encoder has to travel through every wrapper between it and the writer that
    emits the SGR sequence: each implementation of encode::Write either overrides set_style and hands the request to the
    writer it wraps, unchanged and exactly once, or is one of the known end points."""
    with ctx.rule(rid, "style requests reach the terminal writer", cfg) as r:
        ims = p.impls_of("encode::Write")
        r.floor("encode::Write impls", len(ims), 10)
        for i in ims:
            who = i.get("self_adt") or i.get("self_ty")
            sets = [m for m in i["methods"] if m.endswith("::set_style")]
            if not sets:
                r.require(who in PLAIN_SINKS, "default-no-op-only-for-plain-sinks:%s" % who, detail="%s uses the trait's default (no-op) set_style: %s" % (who, PLAIN_SINKS.get(who, "")),
                          fail_detail="%s implements encode::Write without overriding set_style: style requests passing through it are silently dropped (the trait default is a no-op)" % i.get("self_ty"))
                continue
            f = p.fn(sets[0])
            if who == "encode::pattern::RightAlignWriter":
                # the buffering writer: a style request is queued behind the text already buffered, on every path, and never
                # handed to the wrapped writer directly (it would overtake that text)
                direct = [c for c in f.calls("encode::Write::set_style")]
                pushes = [c for c in f.calls() if (c.callee or "").endswith("::push") and any(deep_strip(y) == ("param", 2) for y in walk(c.arg(1)))]
                okq = len(pushes) == 1 and not direct and all(rb in f.reach(pushes[0].block) for rb in f.return_blocks()) and not q.skipping_paths(f, 0, [pushes[0].block], set(f.return_blocks()))
                r.require(okq, "queues-style-behind-buffered-text:%s" % who, fn=f, detail="the request is pushed to the buffer on every path; no direct set_style on the wrapped writer",
                          fail_detail="RightAlignWriter::set_style %s: a style applied directly overtakes the text still buffered for right alignment" % (
                              "calls the wrapped writer's set_style" if direct else "does not queue the request on every path"))
                continue
            if who in STYLE_CONSUMERS:
                r.ok("consumes-style:%s" % who, fn=f, detail=STYLE_CONSUMERS[who])
                continue
            ok, why = q.check_forwarder(f, "encode::Write::set_style")
            r.require(ok, "forwards-style:%s" % who, fn=f, detail=why, fail_detail="%s::set_style does not hand the request to the wrapped writer: %s" % (i.get("self_ty"), why))
