"""What move_file does, read off the code for each outcome of the file-system calls it can make.

move_file(src, dst) renames; if the rename fails because the source does not exist, there was nothing to move; if it
fails for another reason (different mounts), the file is copied and the source removed.  The function makes at most
three file-system calls and branches only on their results, so its behaviour is a finite table over

    rename: Ok | Err(NotFound) | Err(other)        copy: Ok | Err        remove_file: Ok | Err

For each row the CFG (closures handed to and_then/map included) is followed once with constants propagated: Result and
Option values built on the way, `?`, is_ok/is_err, `e.kind() == NotFound` in either polarity, flags.  What is recorded is
the sequence of file-system calls with their arguments and which outcome is returned.  rules/c07.py compares the table
with the contract.  A finite case split with path-sensitive constant propagation (like rules/sgr.py); nothing runs."""
from rules import sgr
from rules.sgr import Giveup

FS = ("std::fs::rename", "std::fs::copy", "std::fs::remove_file")


class MoveWalk(sgr.Walk):
    def __init__(self, p, fn, outcome, outer=None, depth=0):
        sgr.Walk.__init__(self, fn, {"text": False, "background": False, "intense": None})
        self.p = p
        self.outcome = outcome          # {"rename": "Ok"|"NotFound"|"Other", "copy": "Ok"|"Err", "remove": "Ok"|"Err"}
        self.outer = outer
        self.depth = depth
        self.style_local = -1
        self.consts = []
        self.trace = outer.trace if outer is not None else []

    def read(self, lv):
        kind, l, path = lv
        if kind == "lit":
            return l
        if kind == "outer":
            v = self.outer.read(("loc", l, path))
            return self._out(v) if False else self._rebase(v)
        if kind == "sym":
            return ("symobj", l, path)
        return sgr.Walk.read(self, lv)

    def _rebase(self, v):
        if isinstance(v, tuple) and v and v[0] == "ref" and isinstance(v[1], tuple) and v[1][0] == "loc":
            return ("ref", ("outer", v[1][1], v[1][2]))
        return v

    def _outward(self, v):
        if isinstance(v, tuple) and v and v[0] == "ref" and isinstance(v[1], tuple) and v[1][0] == "loc":
            return ("ref", ("outer", v[1][1], v[1][2]))
        return v

    def write(self, lv, val):
        kind, l, path = lv
        if kind == "outer":
            self.outer.write(("loc", l, path), val)
            return
        if kind == "sym":
            return
        sgr.Walk.write(self, lv, val)

    def lvalue(self, pl):
        cur = ("loc", pl["l"], ())
        for e in pl["p"]:
            if e == "*":
                v = self.read(cur)
                if isinstance(v, tuple) and v and v[0] == "symobj":
                    cur = ("sym", v[1], v[2])
                    continue
                if isinstance(v, tuple) and v and v[0] in ("agg", "closure", "path", "ioerr", "kind"):
                    continue
                if not (isinstance(v, tuple) and v and v[0] == "ref"):
                    raise Giveup("deref of %r" % (v,))
                cur = v[1]
            elif isinstance(e, dict) and "f" in e:
                cur = (cur[0], cur[1], cur[2] + (("f", e["f"]),))
            elif isinstance(e, dict) and "as" in e:
                cur = (cur[0], cur[1], cur[2] + (("as", e["as"]),))
            else:
                raise Giveup("projection %r" % (e,))
        return cur

    def rvalue(self, rv):
        k = rv["k"]
        if k == "agg" and rv.get("agg") == "closure":
            return ("closure", rv["closure"], [self.operand(f) for f in rv["fields"]])
        if k == "ref":
            return ("ref", self.lvalue(rv["place"]))
        if k == "discr":
            v = self.read(self.lvalue(rv["place"]))
            if isinstance(v, tuple) and v and v[0] == "agg" and v[2] in ("Ok", "Err", "Some", "None", "Continue", "Break"):
                return ("int", {"Ok": 0, "Err": 1, "None": 0, "Some": 1, "Continue": 0, "Break": 1}[v[2]])
            return None
        if k == "bin" and rv.get("op") in ("Eq", "Ne"):
            a, b = self.operand(rv["a"]), self.operand(rv["b"])
            ka = a[1] if isinstance(a, tuple) and a and a[0] == "kind" else None
            kb = b[1] if isinstance(b, tuple) and b and b[0] == "kind" else None
            if ka is not None and kb is not None:
                return ("int", int((ka == kb) == (rv["op"] == "Eq")))
        return sgr.Walk.rvalue(self, rv)

    def operand(self, op):
        if "const" in op:
            c = op["const"]
            if c.get("kind") == "enum" and str(c.get("value", "")).endswith("NotFound"):
                return ("kind", "NotFound")
            if "ErrorKind" in str(c.get("ty", "")) and isinstance(c.get("bytes"), list) and len(c["bytes"]) == 1:
                # a promoted `&ErrorKind::X`: one byte holding the variant's discriminant (NotFound is the first variant)
                k_ = ("kind", "NotFound" if c["bytes"][0] == 0 else "Other#%d" % c["bytes"][0])
                return ("ref", ("lit", k_, ())) if str(c.get("ty", "")).startswith("&") else k_
            v = self.const(c)
            return v
        return sgr.Walk.operand(self, op)

    def path_of(self, v):
        """which parameter a path argument is: 'src', 'dst' or None"""
        seen = 0
        while isinstance(v, tuple) and v and seen < 6:
            seen += 1
            if v[0] == "path":
                return v[1]
            if v[0] == "ref":
                try:
                    v = self.read(v[1])
                except Giveup:
                    return None
                continue
            if v[0] == "symobj":
                return v[1] if not v[2] else None
            return None
        return None

    def call(self, t):
        decl = t.get("decl") or ""
        name = decl.rsplit("::", 1)[-1]
        args = [self.operand(a) for a in t.get("args", [])]
        if decl in FS:
            what = name if name != "remove_file" else "remove"
            names = [self.path_of(a) for a in args]
            self.trace.append((what, tuple(names)))
            if sum(1 for x in self.trace if x[0] == what) > 1:
                raise Giveup("%s is called twice on one path" % decl)
            oc = self.outcome[what]
            if oc == "Ok":
                return ("agg", [("unit",)], "Ok")
            return ("agg", [("ioerr", what, "NotFound" if oc == "NotFound" else "Other")], "Err")
        if decl == "std::io::error::Error::kind":
            e = args[0]
            if isinstance(e, tuple) and e and e[0] == "ref":
                e = self.read(e[1])
            if isinstance(e, tuple) and e and e[0] == "ioerr":
                return ("kind", e[2])
            raise Giveup("kind() of %r" % (e,))
        if name in ("eq", "ne") and "PartialEq" in decl and len(args) == 2:
            vals = []
            for a in args:
                if isinstance(a, tuple) and a and a[0] == "ref":
                    a = self.read(a[1])
                vals.append(a)
            if all(isinstance(a, tuple) and a and a[0] == "kind" for a in vals):
                return ("int", int((vals[0][1] == vals[1][1]) == (name == "eq")))
            if all(isinstance(a, tuple) and a and a[0] == "agg" and not a[1] for a in vals):
                return ("int", int((vals[0][2] == vals[1][2]) == (name == "eq")))
            if any(isinstance(a, tuple) and a and a[0] == "kind" for a in vals) and any(isinstance(a, tuple) and a and a[0] == "agg" and a[2] == "NotFound" for a in vals):
                k_ = [a for a in vals if a[0] == "kind"][0][1]
                return ("int", int((k_ == "NotFound") == (name == "eq")))
            raise Giveup("comparison of %r" % (vals,))
        if name in ("as_ref", "deref", "borrow", "as_path", "new", "clone", "as_os_str", "to_path_buf", "into") and args and self.path_of(args[0]) is not None and not decl.startswith("std::fs::"):
            return ("path", self.path_of(args[0]))
        if decl.endswith("Try::branch") and args:
            a = args[0]
            if isinstance(a, tuple) and a and a[0] == "agg" and a[2] == "Ok":
                return ("agg", list(a[1]), "Continue")
            if isinstance(a, tuple) and a and a[0] == "agg" and a[2] == "Err":
                return ("agg", [("agg", list(a[1]), "Err")], "Break")
            raise Giveup("`?` on %r" % (a,))
        if decl.endswith("FromResidual::from_residual") and args:
            a = args[0]
            if isinstance(a, tuple) and a and a[0] == "agg" and a[2] == "Err":
                return ("agg", list(a[1]), "Err")
            raise Giveup("from_residual of %r" % (a,))
        if name in ("err", "ok") and "Result" in decl and len(args) == 1:
            # r.err() / r.ok(): the outcome as an Option of the side asked for
            a = args[0]
            if isinstance(a, tuple) and a and a[0] == "agg" and a[2] in ("Ok", "Err"):
                hit = (a[2] == "Err") == (name == "err")
                return ("agg", list(a[1]), "Some") if hit else ("agg", [], "None")
            raise Giveup("%s() of %r" % (name, a))
        if name in ("is_ok", "is_err") and "Result" in decl and args:
            a = args[0]
            if isinstance(a, tuple) and a and a[0] == "ref":
                a = self.read(a[1])
            if isinstance(a, tuple) and a and a[0] == "agg" and a[2] in ("Ok", "Err"):
                return ("int", int((a[2] == "Ok") == (name == "is_ok")))
            raise Giveup("%s of %r" % (name, a))
        if name in ("and_then", "map", "map_err", "or_else") and "Result" in decl and len(args) == 2:
            r_, f_ = args
            if not (isinstance(r_, tuple) and r_ and r_[0] == "agg" and r_[2] in ("Ok", "Err")):
                raise Giveup("%s on %r" % (name, r_))
            runs = (r_[2] == "Ok") == (name in ("and_then", "map"))
            if not runs:
                return r_
            if not (isinstance(f_, tuple) and f_ and f_[0] == "closure"):
                raise Giveup("%s with %r" % (name, f_))
            cf = self.p.fn(f_[1])
            w = MoveWalk(self.p, cf, self.outcome, outer=self, depth=self.depth + 1)
            w.env[1] = ("agg", [self._outward(v) for v in f_[2]], None)
            w.env[2] = r_[1][0] if r_[1] else ("unit",)
            w.run_fn()
            out = w.env.get(0)
            if name == "map":
                return ("agg", [out], "Ok")
            if name == "map_err":
                return ("agg", [out], "Err")
            return out
        if name == "from" and args:
            return args[0]
        return sgr.Walk.call(self, t)

    def run_fn(self, limit=600):
        f = self.fn
        b = 0
        steps = 0
        while True:
            steps += 1
            if steps > limit:
                raise Giveup("walk does not end (a loop?)")
            blk = f.blocks[b]
            for st in blk["stmts"]:
                if st["k"] != "assign":
                    continue
                try:
                    val = self.rvalue(st["rv"])
                except Giveup:
                    val = None
                try:
                    lv = self.lvalue(st["lhs"])
                except Giveup:
                    if st["lhs"]["p"]:
                        continue
                    raise
                self.write(lv, val)
            t = blk["term"]
            k = t["k"]
            if k == "return":
                return
            if k in ("goto", "drop", "assert"):
                b = t["target"]
            elif k == "switch":
                d = self.operand(t["discr"])
                if not (isinstance(d, tuple) and d and d[0] == "int"):
                    raise Giveup("branch on %r in bb%d of %s" % (d, b, f.path.rsplit("::", 1)[-1]))
                tgt = None
                for a in t.get("arms", []):
                    if a["value"] == d[1]:
                        tgt = a["target"]
                b = tgt if tgt is not None else t.get("otherwise")
                if b is None:
                    raise Giveup("no edge")
            elif k == "call":
                if t.get("target") is None:
                    raise Giveup("diverging call")
                val = self.call(t)
                self.write(self.lvalue(t["dest"]), val)
                b = t["target"]
            else:
                raise Giveup("terminator %s" % k)


def evaluate(p, fn):
    """rows: {(rename, copy, remove): (trace, result)} with result 'Ok' | ('Err', which call's error)"""
    rows = {}
    for rn in ("Ok", "NotFound", "Other"):
        for cp in ("Ok", "Err"):
            for rm in ("Ok", "Err"):
                w = MoveWalk(p, fn, {"rename": rn, "copy": cp, "remove": rm})
                w.trace = []
                w.env[1] = ("symobj", "src", ())
                w.env[2] = ("symobj", "dst", ())
                w.run_fn()
                v = w.env.get(0)
                res = None
                if isinstance(v, tuple) and v and v[0] == "agg" and v[2] == "Ok":
                    res = "Ok"
                elif isinstance(v, tuple) and v and v[0] == "agg" and v[2] == "Err":
                    e = v[1][0] if v[1] else None
                    res = ("Err", e[1] if isinstance(e, tuple) and e and e[0] == "ioerr" else "?")
                rows[(rn, cp, rm)] = (list(w.trace), res)
    return rows


def expected(rn, cp, rm):
    if rn in ("Ok", "NotFound"):
        return [("rename", ("src", "dst"))], "Ok"
    if cp == "Err":
        return [("rename", ("src", "dst")), ("copy", ("src", "dst"))], ("Err", "copy")
    return [("rename", ("src", "dst")), ("copy", ("src", "dst")), ("remove", ("src",))], ("Ok" if rm == "Ok" else ("Err", "remove"))
