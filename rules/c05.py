"""C05 — rolling appender never loses, duplicates, reorders or splits records."""
from rules import rolling, common

CLAIMED = True
TECHNIQUE = "static analysis over type-checked MIR: guard-span coverage of the whole append, dominance/must-follow ordering of encode/flush/Policy::process per pre/post branch, writer-slot ownership inventory, trigger->roll()->roller ordering, reopen-iff-closed gating"
LEVEL_TEXT = """Static, all-paths decision of the ordering and ownership clauses the property rests on: (R1) the writer lock's guard span covers every call of RollingFileAppender::append and is released on every exit; (R2) on the post-processing branch encode -> flush -> read len -> Policy::process, on the pre-processing branch read len -> Policy::process -> get_writer -> encode -> flush, each exactly once on every Ok path, the flushed writer being the one encoded into and coming from the latest get_writer; (R3) LogFile::roll unconditionally assigns None to the writer slot and only roll()/get_writer write that slot; (R4) CompoundPolicy::process runs trigger, then only on Ok(true) roll() followed by the roller on log.path(), errors propagated; (R5) get_writer opens the appender's own path iff the slot is empty and stores Some before returning, and the open appends unless it truncates (append(x) or truncate(x) holds for every valuation of the flags, evaluated jointly); (R7) the LogWriter's buffered file is touched only by the opener and by its io::Write impl, and there only as the direct receiver of write-family/flush calls (never unwrapped with get_mut/get_ref/into_inner, so no byte can overtake buffered ones or escape the counter); (R4 also) roll() and the roller are guarded by nothing but the trigger's answer; (R6d) move_file replaces an archive whole: rename first, Ok and NotFound end there, otherwise fs::copy (which truncates the destination) and the source is removed only after a successful copy (C07.R5 re-evaluated); (R6) the fixed-window roller shifts pattern(i) to pattern(i+1) oldest-first over exactly base..base+count-1 of the roller's own base/count and finally moves the rolled file into pattern(base) (C07.R1-R3 re-evaluated). That the archives concatenate to the record stream for every history (file-system semantics, external rollers, background thread timing) is not decided."""
LEVEL_NOTE = "Trusted: rustc MIR/callee resolution; parking_lot mutual exclusion; BufWriter flush/drop semantics; file-system rename semantics. Decides orderings and ownership on all paths, not on-disk contents."
EXPLANATION = """Decided: R1 lock span, R2 per-branch orderings (exactly-once encode/flush/process), R3 roll() closes the writer and slot ownership, R4 policy order and gating, R5 reopen iff closed on the own path and never at offset 0 of kept content, R7 single buffered handle. Undecided: archive stream equality for all histories, user-defined policies/rollers, background rotation timing."""
DECIDED = ["R1 lock span", "R2 branch orderings", "R3 roll closes writer / slot ownership", "R4 trigger->roll()->roller", "R5 reopen iff closed, appends unless truncating", "R5b no reopen reachable from append can truncate (C08.E4 re-evaluated)", "R7 single buffered handle", "R6 shift order/range/final step and move_file contract of the fixed-window roller", "R6e-R6i archive writes surface, a done roll took the file, fresh staging name, one background rotation at a time, directories made when needed (C07 re-evaluated)", "R8 append default from documents", "R9 builder setters / LogFile accessors are faithful"]
UNDECIDED = ["archives concatenate to the record stream for every history", "user-defined policies and rollers", "background rotation thread timing"]
TRUSTED = ["rustc nightly MIR + Instance::try_resolve", "parking_lot::Mutex", "std BufWriter/File semantics", "file-system rename/remove semantics"]


def run(ctx):
    configs = ["default", "full"] if ctx.tier == "quick" else ["default", "full", "nobg-full", "single:rolling_file_appender,compound_policy"]
    for cfg in configs:
        p = ctx.prog(cfg)
        from rules import accessors
        accessors.rule_fidelity(ctx, p, cfg, "R9", prefix="append::rolling_file::", floor=4, with_build=False)   # the builder keeps the append flag and encoder it is given; LogFile reports the length and path it was made with
        rolling.rule_lock_span(ctx, p, cfg, "R1")
        rolling.rule_branch_order(ctx, p, cfg, "R2")
        rolling.rule_roll_closes_writer(ctx, p, cfg, "R3")
        if "compound_policy" in p.meta.get("features", []):
            rolling.rule_policy_order(ctx, p, cfg, "R4")
        rolling.rule_reopen(ctx, p, cfg, "R5")
        from rules import c08
        c08.rule_reopen_keeps_data(ctx, p, cfg, "R5b")   # a reopen after a roll that failed must not cut the records still at the active path (C08.E4 re-evaluated)
        rolling.rule_writer_handle(ctx, p, cfg, "R7")
        if "config_parsing" in p.meta.get("features", []):
            from rules import c14
            c14.rule_file_append_default(ctx, p, cfg, "R8", "rolling")   # restarts on the same path keep the earlier records unless told otherwise
        if "fixed_window_roller" in p.meta.get("features", []):
            from rules import c07
            c07.rule_shift_order(ctx, p, cfg, "R6a")
            c07.rule_range(ctx, p, cfg, "R6b")
            c07.rule_final_step(ctx, p, cfg, "R6c")
            c07.rule_move_file(ctx, p, cfg, "R6d")   # an archive is replaced whole: rename, else copy (truncating) then remove
            c07.rule_archive_writes_surface(ctx, p, cfg, "R6e")   # .. and written whole: no bare write, no buffered tail lost in a drop
            c07.rule_roll_moves_file(ctx, p, cfg, "R6f")   # a roll reported as done has taken the file away
            c07.rule_staging_name(ctx, p, cfg, "R6g")   # .. to a name nothing staged earlier still holds
            c07.rule_directories(ctx, p, cfg, "R6i")   # a shift into a directory that was never made is taken for "no such archive" and the next step overwrites what should have moved (C07.R10 re-evaluated)
            c07.rule_one_rotation_at_a_time(ctx, p, cfg, "R6h")   # staged files are shifted into the window in the order they were rolled
