"""The language check_logger_name accepts, read off its code as a finite automaton and compared with the documented one.

The name check scans the name character by character and keeps a small amount of state (how many separator characters
in a row were just seen).  What it does with a character depends only on whether the character is the separator
character or not, so over the two-letter alphabet {separator, other} the function *is* a finite automaton: its states
are the values of the integer/boolean locals that are live at the iterator step.  The automaton is extracted by
following the CFG from one iterator step to the next with constants propagated (one walk per state and letter, states
found by exploration, a bound on their number), and compared, state by state, with the reference automaton

    start --(empty)--> reject
    on the separator character:  streak += 1; reject if streak > len(SEP)
    on any other character:      reject if 0 < streak != len(SEP); streak = 0
    at the end:                  accept iff streak == 0

which is what `SEP`-separated, component-wise names mean for the routing code (C13.V5 ties SEP to the router's).

The walk is the constant propagation of rules/sgr.py with two more facts: the iterator step is a choice point, and a
character is known only by its class.  No string is ever enumerated."""
from l4sa.core import ShapeUnrecognised
from rules import sgr

NEXT = "core::iter::traits::iterator::Iterator::next"
MAX_STATES = 24


class Stop(Exception):
    def __init__(self, block, env):
        self.block = block
        self.env = env


class NameWalk(sgr.Walk):
    def __init__(self, fn, sepchar, empty):
        sgr.Walk.__init__(self, fn, {"text": False, "background": False, "intense": None})
        self.sep = ord(sepchar)
        self.empty = empty
        self.choice = None          # what the iterator step about to run yields: None (exhausted) | ':' | 'x'
        self.outcome = None
        self.style_local = -1
        self.consts = []

    # characters are known by class only
    def cls_cmp(self, a, b, op):
        ch, other = (a, b) if isinstance(a, tuple) and a[0] == "char" else (b, a)
        if not (isinstance(ch, tuple) and ch[0] == "char" and isinstance(other, tuple) and other[0] == "int"):
            return None
        if other[1] != self.sep:
            raise sgr.Giveup("character compared with %r, not the separator" % (chr(other[1]) if 0 <= other[1] < 0x110000 else other[1]))
        eq = ch[1] == ":"
        return ("int", int(eq if op == "Eq" else not eq)) if op in ("Eq", "Ne") else None

    def rvalue(self, rv):
        if rv["k"] == "bin" and rv["op"] in ("Eq", "Ne"):
            a, b = self.operand(rv["a"]), self.operand(rv["b"])
            if (isinstance(a, tuple) and a and a[0] == "char") or (isinstance(b, tuple) and b and b[0] == "char"):
                return self.cls_cmp(a, b, rv["op"])
        return sgr.Walk.rvalue(self, rv)

    def call(self, t):
        decl = t.get("decl") or ""
        name = decl.rsplit("::", 1)[-1]
        if decl == NEXT:
            if self.choice is None:
                raise Stop(self.cur_block, None)
            c = self.choice
            self.choice = None
            if c == "end":
                return ("agg", [], "None")
            return ("agg", [("char", c)], "Some")
        if name == "is_empty" and "str" in decl:
            return ("int", 1 if self.empty else 0)
        if name == "len" and "str" in decl:
            if self.empty:
                return ("int", 0)
            raise sgr.Giveup("the name's length is used")
        if name in ("eq", "ne") and "PartialEq" in decl:
            args = [self.operand(a) for a in t.get("args", [])]
            args = [self.read(a[1]) if isinstance(a, tuple) and a and a[0] == "ref" else a for a in args]
            return self.cls_cmp(args[0], args[1], "Eq" if name == "eq" else "Ne")
        if name in ("chars", "into_iter", "to_owned", "to_string", "clone", "from", "into", "deref"):
            return ("opaque", name)
        return sgr.Walk.call(self, t)

    def snapshot(self):
        return tuple(sorted((l, v) for l, v in self.env.items() if isinstance(v, tuple) and v and v[0] == "int"))

    def run_from(self, block, env, choice, limit=3000):
        """walk from `block` until the next iterator step (Stop) or a return; returns ('loop', block, state) | ('ret', 'Ok'|'Err')"""
        f = self.fn
        self.env = dict(env)
        self.choice = choice
        b = block
        steps = 0
        while True:
            steps += 1
            if steps > limit:
                raise sgr.Giveup("walk between two iterator steps does not end")
            self.cur_block = b
            blk = f.blocks[b]
            if blk["term"]["k"] == "call" and (blk["term"].get("decl") or "") == NEXT and self.choice is None:
                # statements of this block belong to the next step
                return ("loop", b, self.snapshot())
            for st in blk["stmts"]:
                if st["k"] != "assign":
                    continue
                try:
                    val = self.rvalue(st["rv"])
                except sgr.Giveup:
                    val = None
                try:
                    lv = self.lvalue(st["lhs"])
                except sgr.Giveup:
                    if st["lhs"]["p"]:
                        continue
                    raise
                self.write(lv, val)
            t = blk["term"]
            k = t["k"]
            if k == "return":
                v = self.env.get(0)
                if isinstance(v, tuple) and v[0] == "agg" and v[2] in ("Ok", "Err"):
                    return ("ret", v[2])
                raise sgr.Giveup("returns %r" % (v,))
            if k in ("goto", "drop"):
                b = t["target"]
            elif k == "assert":
                b = t["target"]
            elif k == "switch":
                d = self.operand(t["discr"])
                if isinstance(d, tuple) and d and d[0] == "char":
                    tgt = None
                    for a in t.get("arms", []):
                        if a["value"] == self.sep:
                            if d[1] == ":":
                                tgt = a["target"]
                        else:
                            raise sgr.Giveup("match on a character other than the separator")
                    b = tgt if tgt is not None else t.get("otherwise")
                    if b is None:
                        raise sgr.Giveup("no edge")
                    continue
                if not (isinstance(d, tuple) and d and d[0] == "int"):
                    raise sgr.Giveup("branch on %r in bb%d" % (d, b))
                tgt = None
                for a in t.get("arms", []):
                    if a["value"] == d[1]:
                        tgt = a["target"]
                b = tgt if tgt is not None else t.get("otherwise")
                if b is None:
                    raise sgr.Giveup("no edge")
            elif k == "call":
                if t.get("target") is None:
                    raise sgr.Giveup("diverging call")
                try:
                    val = self.call(t)
                except sgr.Giveup:
                    if (t.get("decl") or "") == NEXT:
                        raise
                    val = None
                self.write(self.lvalue(t["dest"]), val)
                b = t["target"]
            else:
                raise sgr.Giveup("terminator %s" % k)

    # discr of the Option the iterator step produced
    def read(self, lv):
        return sgr.Walk.read(self, lv)


DEAD = "dead"


def ref_step(streak, letter, L):
    """reference automaton: new streak or 'reject'"""
    if streak == DEAD:
        return "reject"
    if letter == ":":
        return "reject" if streak + 1 > L else streak + 1
    if letter == "x":
        return "reject" if (streak > 0 and streak != L) else 0
    return "accept" if streak == 0 else "reject"      # end


def compare(fn, sepchar, L):
    """[(description, ok)] for every reachable (implementation state, reference state) pair and letter"""
    results = []
    # the empty name
    w = NameWalk(fn, sepchar, empty=True)
    try:
        out = w.run_from(0, {}, None)
        if out[0] == "loop":
            out = NameWalk(fn, sepchar, empty=True).run_from(out[1], dict(out[2]), "end")
    except sgr.Giveup as e:
        raise ShapeUnrecognised("name check: cannot follow the empty name: %s" % e)
    results.append(("the empty name is rejected", out == ("ret", "Err")))
    # non-empty names
    w = NameWalk(fn, sepchar, empty=False)
    try:
        first = w.run_from(0, {}, None)
    except sgr.Giveup as e:
        raise ShapeUnrecognised("name check: cannot follow the prologue: %s" % e)
    if first[0] != "loop":
        results.append(("a non-empty name reaches the character scan", False))
        return results
    start = (first[1], first[2])
    seen = {(start, 0): True}
    todo = [(start, 0, True)]
    while todo:
        (blk, st), rs, at_start = todo.pop()
        for letter in (":", "x", "end"):
            if letter == "end" and at_start:
                continue        # a non-empty name has at least one character
            w = NameWalk(fn, sepchar, empty=False)
            try:
                out = w.run_from(blk, dict(st), letter)
            except sgr.Giveup as e:
                raise ShapeUnrecognised("name check: cannot follow %r from state %s: %s" % (letter, dict(st), e))
            want = ref_step(rs, letter, L)
            label = ("after a run of %d separator character(s)" % rs if rs != DEAD else "after a point where the name is already ill-formed") + ", on %s" % {":": "another separator character", "x": "any other character", "end": "the end of the name"}[letter]
            if out[0] == "ret":
                got = "accept" if out[1] == "Ok" else "reject"
                if letter != "end" and got == "accept":
                    results.append((label + ": returns Ok before the end of the name", False))
                    continue
                results.append((label + ": %s" % got, (got == want) if letter == "end" else (want == "reject")))
            else:
                if letter == "end":
                    results.append((label + ": keeps scanning past the end", False))
                    continue
                if want == "reject":
                    # the reference rejects here.  An implementation that only notes the failure (a `valid` flag) and goes on is
                    # equivalent as long as nothing is accepted from here on: the walk continues against the reference's dead
                    # state, where every answer but "reject" is a disagreement
                    results.append((label + ": goes on (must reject whatever follows)", True))
                    want = DEAD
                else:
                    results.append((label + ": continues", True))
                key = ((out[1], out[2]), want)
                if key not in seen:
                    if len(seen) > MAX_STATES:
                        raise ShapeUnrecognised("name check: more than %d states" % MAX_STATES)
                    seen[key] = True
                    todo.append(((out[1], out[2]), want, False))
    return results
